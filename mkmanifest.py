#!/usr/bin/env python3
"""Regenerates MANIFEST.json from checkconf.py and properties.jsonl."""
import json, os, sys
sys.path.insert(0, os.path.dirname(os.path.abspath(__file__)))
from checkconf import PROPS, NOT_APPLICABLE
HERE = os.path.dirname(os.path.abspath(__file__))
ids = [json.loads(l)["id"] for l in open(os.path.join(HERE, "properties.jsonl"))]
checks = []
for pid in ids:
    if pid not in PROPS:
        continue
    c = PROPS[pid]
    checks.append({
        "property_id": pid,
        "quick_cmd": "./check %s --tier quick" % pid,
        "thorough_cmd": "./check %s --tier thorough" % pid,
        "evidence_file": "/verif/evidence/%s.json" % pid,
        "replay_cmd_template": "./check %s --replay {path}" % pid,
        "engine": "harness",
        "level_claimed": {"category": c["level"], "text": c["level_text"], "design_ref": "DESIGN.md §3 " + pid},
        "level_note": "; ".join(c.get("assumptions", [])) or "see DESIGN.md",
        "technique": c["technique"],
    })
na = [{"property_id": pid, "reason": NOT_APPLICABLE.get(pid, "check not built yet in this session (work in progress; see DESIGN.md §3 " + pid + ")")}
      for pid in ids if pid not in PROPS]
m = {
    "version": 1,
    "setup_cmd": "./check --build",
    "hooks": {
        "guard": "verif",
        "enable": "go build/test -tags verif (no source hooks exist; the tag is reserved)",
        "baseline_off_cmd": "cd /repo && GOFLAGS=-mod=mod GOPROXY=off go test -vet=off -count=1 ./...",
        "source_commits": [],
        "add_only": True,
    },
    "engines": [{"name": "harness", "path": "/verif/harness", "serves_properties": [c["property_id"] for c in checks],
                 "kind_free_text": "Go module using pgregory.net/rapid v1.3.0: generators in the parent, Check in an isolated worker process; python3 driver ./check"}],
    "checks": checks,
    "not_applicable": na,
    "notes": "All checks rebuild the harness against /repo's working tree (VERIF_REPO overrides). KNOWN_FINDINGS.txt lists known/fixed findings.",
}
json.dump(m, open(os.path.join(HERE, "MANIFEST.json"), "w"), indent=1)
print("wrote MANIFEST.json with", len(checks), "checks,", len(na), "not applicable")
