#!/bin/bash
# usage: tools/seeded_all.sh <ID> [tier] [checks]   -> evaluates /var/tmp/seeded-out/<ID>/<n>/ , writes result.txt next to each patch
ID=$1; TIER=${2:-quick}; CHECKS=${3:-$ID}
for d in /var/tmp/seeded-out/$ID/[0-9]*; do
  [ -f $d/patch.diff ] || continue
  [ -f $d/meta.json ] || continue
  [ -z "${FORCE:-}" ] && [ -f $d/result.$TIER.txt ] && continue
  /verif/tools/seeded.sh $d $CHECKS $TIER > $d/result.$TIER.txt 2>&1
  echo "== $d"; cat $d/result.$TIER.txt | head -12
done
