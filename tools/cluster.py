#!/usr/bin/env python3
# usage: tools/cluster.py <ID> [n-per-class]  -- shows the smallest cases of each failure class in replay/<ID>
import json,sys,glob,re,os
pid=sys.argv[1]; per=int(sys.argv[2]) if len(sys.argv)>2 else 1
cl={}
for f in glob.glob('/verif/replay/%s/*.json'%pid):
    r=json.load(open(f)); msg=r.get('failure','')
    key=re.sub(r'[0-9]+','N',msg.split('\n')[0])[:110]
    cl.setdefault(key,[]).append((len(json.dumps(r['case'])),f,r))
for key,items in sorted(cl.items(), key=lambda kv:-len(kv[1])):
    print("#"*100); print(len(items), key)
    for _,f,r in sorted(items, key=lambda x: x[0])[:per]:
        print("  file:",f)
        msg=r['failure']
        print("\n".join("    "+l for l in msg.split("\n")[:int(os.environ.get('L','40'))]))
