#!/usr/bin/env python3
"""Prints the table of seeded changes (markdown) from /verif/seeded/*/meta.json."""
import json, glob, os
rows = []
for d in sorted(glob.glob(os.path.join(os.path.dirname(os.path.abspath(__file__)), "..", "seeded", "c*-*")), key=lambda x: (os.path.basename(x).split("-")[0], int(os.path.basename(x).split("-")[1]))):
    try:
        m = json.load(open(os.path.join(d, "meta.json")))
    except Exception:
        continue
    name = os.path.basename(d)
    first = m.get("first_result", "")
    final = "; ".join("%s %s" % (k, v["result"]) for k, v in sorted(m.get("checks", {}).items()))
    rows.append((name + " (r%s)" % m.get("round", "?"), m.get("title", "")[:110].replace("|", "/"), ", ".join(m.get("files", []))[:70], first, final, m.get("note", "")[:80]))
print("| change | title | files | first evaluation | final checks | note |")
print("|---|---|---|---|---|---|")
for r in rows:
    print("| " + " | ".join(r) + " |")
caught = sum(1 for r in rows if "caught" in r[4])
first = sum(1 for r in rows if r[3] == "caught")
print("\n%d changes; first evaluation (checks as they stood then): %d caught; final checks (quick tier): %d caught, %d missed." % (len(rows), first, caught, len(rows) - caught))
