#!/bin/bash
# usage: tools/triage.sh <ID> [scale]   -- runs the quick tier without stopping at failures, clusters messages
ID=$1
VERIF_TRIAGE=1 /verif/check $ID --tier quick --scale ${2:-0.2} > /verif/.work/triage.$ID.txt 2>&1
grep -A1 '^VIOLATION' /verif/.work/triage.$ID.txt | grep -v '^VIOLATION\|^--' | sed 's/[0-9]\+/N/g' | cut -c1-160 | sort | uniq -c | sort -rn | head -${3:-40}
tail -1 /verif/.work/triage.$ID.txt
