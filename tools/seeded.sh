#!/bin/bash
# usage: tools/seeded.sh <seeded-dir containing patch.diff> <ID[,ID...]> [tier] [--notests]
# Confirms that a seeded change applies, builds and passes falco's own test-suite in a scratch
# worktree of /repo, then runs the named checks against that worktree (VERIF_REPO) and prints
# one line per check: CAUGHT / MISSED.
set -u
DIR=$1; IDS=$2; TIER=${3:-quick}; NOTESTS=${4:-}
D=/var/tmp/seedrun.$$
git -C /repo worktree add -q --detach $D HEAD || exit 2
H=$(printf %s "$D" | sha256sum | cut -c1-10)
cleanup() { git -C /repo worktree remove --force $D >/dev/null 2>&1; [ -n "${KEEP:-}" ] || rm -rf /verif/.work/alt-$H; }
trap cleanup EXIT
( cd $D && git apply $DIR/patch.diff ) || { echo "PATCH-DOES-NOT-APPLY $DIR"; exit 2; }
( cd $D && GOFLAGS=-mod=mod GOPROXY=off go build ./... ) || { echo "DOES-NOT-COMPILE $DIR"; exit 2; }
if [ "$NOTESTS" != "--notests" ]; then
  if ( cd $D && GOFLAGS=-mod=mod GOPROXY=off go test -vet=off -count=1 ./... >/var/tmp/seedrun.$$.log 2>&1 ); then
    echo "suite: PASS"
  else
    echo "suite: FAIL (change rejected)"; grep -E "^(FAIL|--- FAIL)" /var/tmp/seedrun.$$.log | head -5; rm -f /var/tmp/seedrun.$$.log; exit 3
  fi
  rm -f /var/tmp/seedrun.$$.log
fi
for ID in ${IDS//,/ }; do
  out=$(VERIF_REPO=$D /verif/check $ID --tier $TIER 2>&1)
  rc=$?
  if echo "$out" | grep -q "^VIOLATION"; then
    echo "$ID $TIER: CAUGHT  $(echo "$out" | grep -E "^$ID " | tail -1)"
    echo "$out" | grep -A3 "^VIOLATION" | head -5 | sed 's/^/    /'
  elif [ $rc -eq 0 ]; then
    echo "$ID $TIER: MISSED  $(echo "$out" | grep -E "^$ID " | tail -1)"
  else
    echo "$ID $TIER: INFRA rc=$rc"; echo "$out" | tail -5
  fi
done
