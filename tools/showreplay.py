#!/usr/bin/env python3
import json,sys
for f in sys.argv[1:]:
    r=json.load(open(f))
    print("=====",f)
    print(r.get('failure','')[:int(__import__('os').environ.get('N','2500'))])
