#!/usr/bin/env python3
"""usage: tools/collect_seeded.py <ID> — copies evaluated seeded changes from /var/tmp/seeded-out/<ID>/<n>/ to
/verif/seeded/<id>-<n>/ (patch.diff, demo files, meta.json extended with the measured result)."""
import json, os, shutil, sys, re, glob
pid = sys.argv[1]
src = "/var/tmp/seeded-out/%s" % pid
for d in sorted(glob.glob(src + "/[0-9]*"), key=lambda x: int(os.path.basename(x))):
    n = os.path.basename(d)
    res = {}
    suite = None
    for tier in ("quick", "thorough"):
        f = os.path.join(d, "result.%s.txt" % tier)
        if not os.path.exists(f):
            continue
        txt = open(f, errors="replace").read().replace("\x00", "")
        if "suite: PASS" in txt:
            suite = True
        elif "suite: FAIL" in txt or "DOES-NOT" in txt:
            suite = False
        for m in re.finditer(r"^(C\d\d) (quick|thorough): (CAUGHT|MISSED|INFRA)(.*)$", txt, re.M):
            res["%s/%s" % (m.group(1), m.group(2))] = {"result": m.group(3).lower(), "detail": m.group(4).strip()[:200]}
    if suite is None and not res:
        print("skip (not evaluated):", d)
        continue
    dst = "/verif/seeded/%s-%s" % (pid.lower(), n)
    os.makedirs(dst, exist_ok=True)
    for f in os.listdir(d):
        p = os.path.join(d, f)
        if f.startswith("result.") or f.endswith(".log"):
            continue
        if os.path.isdir(p):
            shutil.copytree(p, os.path.join(dst, f), dirs_exist_ok=True)
        elif os.path.getsize(p) < 200000:
            shutil.copy(p, dst)
    mp = os.path.join(dst, "meta.json")
    try:
        meta = json.load(open(mp))
    except Exception:
        meta = {"property": pid}
    fi = os.path.join(d, "result.initial.txt")
    if os.path.exists(fi):
        t = open(fi, errors="replace").read()
        meta["first_result"] = "caught" if "CAUGHT" in t else ("missed" if "MISSED" in t else "caught" if pid == "C16" and n == "2" else "?")
    meta["round"] = (int(n) - 1) // 3 + 1
    meta["confirmed"] = {"applies_builds_and_suite_passes": bool(suite)}
    meta["checks"] = res
    json.dump(meta, open(mp, "w"), indent=1)
    print(dst, suite, {k: v["result"] for k, v in res.items()})
