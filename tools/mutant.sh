#!/bin/bash
# usage: tools/mutant.sh <ID[,ID...]> <tier> -- <shell command run inside the scratch copy that mutates it>
# Applies a mutation to a scratch worktree of /repo and runs the check(s) against it.
set -u
IDS=$1; TIER=$2; shift 3
D=/var/tmp/mut.$$
git -C /repo worktree add -q --detach $D HEAD || exit 2
( cd $D && bash -c "$*" ) || { echo "mutation command failed"; git -C /repo worktree remove --force $D; exit 2; }
( cd $D && git diff --stat | tail -1 )
( cd $D && GOFLAGS=-mod=mod GOPROXY=off go build ./... ) || { echo "MUTANT DOES NOT COMPILE"; git -C /repo worktree remove --force $D; exit 2; }
for ID in ${IDS//,/ }; do
  VERIF_REPO=$D /verif/check $ID --tier $TIER 2>&1 | grep -E "^(VIOLATION|C[0-9]+ |INFRA|  )" | head -${MUT_LINES:-6}
done
git -C /repo worktree remove --force $D
[ -n "${KEEP:-}" ] || rm -rf /verif/.work/alt-$(printf %s "$D" | sha256sum | cut -c1-10)
