"""Per-property campaign configuration for ./check (see DESIGN.md §3)."""

def rapid(name, q, t, bq=60, bt=600, sq=8, st=14, **kw):
    d = {"kind": "rapid", "name": name, "checks": {"quick": q, "thorough": t},
         "budget": {"quick": bq, "thorough": bt}, "shards": {"quick": sq, "thorough": st}}
    d.update(kw)
    return d

def fuzz(name, target, bt=240, workers=14):
    """native `go test -fuzz` campaign (thorough tier only); name must start with 'fuzz'"""
    return {"kind": "fuzz", "name": name, "target": target, "tiers": ("thorough",), "workers": workers,
            "budget": {"quick": 0, "thorough": bt}, "shards": {"quick": 1, "thorough": 1}}

PROPS = {
    "C01": {
        "level": "exploration",
        "technique": "property-based testing (rapid): raw bytes, token soup, grammar programs and their mutations; totality via token fuel + isolated worker deadline; location oracle; thorough tier adds a native coverage-guided fuzz campaign (go test -fuzz) with the same oracle",
        "level_text": "Generated-input search over byte strings (raw, token soup, grammar-derived programs, 1-3 token/byte mutations incl. truncation, hostile dictionary) against a totality + error-kind + location oracle in an isolated worker; finds loops/crashes/mislocated tokens on what is generated, never proves absence.",
        "campaigns": [rapid("rapid", 120000, 3000000), fuzz("fuzz-parse", "FuzzC01", 300)],
        "assumptions": [
            "token fuel: a parser that requests more than 64 tokens after the lexer returned EOF is looping",
            "location oracle: input decoded like bufio.ReadRune, lines split at LF; slack of one/two columns at end of input",
        ],
    },
    "C02": {
        "level": "exploration",
        "technique": "property-based testing (rapid): grammar-model generator, expected tree from an independent precedence table and literal evaluator, canonical-dump equality",
        "level_text": "Random programs derived from the documented grammar are rendered under random layout/comments/parentheses; the parsed tree must equal the generator's model tree (both directions, one string comparison). Exploration only: covers the generated shapes (label histogram in evidence).",
        "campaigns": [rapid("rapid", 60000, 2000000)],
        "assumptions": [
            "expected tree comes from the harness's own grammar model, precedence table and math/big literal evaluation",
            "Meta (comments, positions), LongString/Delimiter, HasParenthesis, HasComma, IfStatement.Keyword are presentational",
        ],
    },
}

PROPS["C19"] = {
    "level": "exploration",
    "technique": "property-based testing (rapid): encode/decode round trip compared by canonical dump, through codec.Decoder and through the plugin entry point plugin.ReadLinterRequest; decoder totality on mutated encodings and raw bytes with an EOF-counting reader in an isolated worker; thorough tier adds a native coverage-guided fuzz campaign (go test -fuzz) on Decode and on parse+round-trip with the same oracle",
    "level_text": "Round trip over grammar-derived statements (one by one and as lists) with a structural inverse oracle, plus totality of Decode/ReadLinterRequest on byte-level mutations of valid encodings. Exploration: covers generated shapes only.",
    "campaigns": [rapid("rapid", 60000, 1500000), fuzz("fuzz-codec", "FuzzC19", 300)],
    "assumptions": [
        "comments, positions, Explicit, LongString/Delimiter, HasParenthesis, HasComma and the else-if keyword spelling are presentational (not compared)",
        "a decoder that provokes more than 1000 EOF reads from its input is looping",
    ],
}

_fmt_assume = [
    "normal form implements only the documented rewrites: remove->unset (should_use_unset), property lists as sorted lists (sort_declaration_property), top-level declarations as a multiset (sort_declaration); Explicit, else-if spelling, return parentheses, trailing commas, comments and positions are presentational",
]
PROPS["C03"] = {
    "level": "exploration",
    "technique": "property-based testing (rapid): metamorphic round trip parse(format(x)) == parse(x) modulo documented rewrites, over grammar programs x formatter configurations, plus examples/",
    "level_text": "Generated programs x generated configurations, oracle = structural equality of canonical trees after documented normalisations; panics and unparseable output are failures. Exploration of generated shapes/configs only.",
    "campaigns": [rapid("rapid", 100000, 1500000)],
    "assumptions": _fmt_assume,
}
PROPS["C14"] = {
    "level": "exploration",
    "technique": "property-based testing (rapid): idempotence law fmt(fmt(x)) == fmt(x) byte-for-byte over grammar programs x configurations, plus examples/",
    "level_text": "Algebraic law checked on generated programs with comments/blank lines/wrapping and all option combinations drawn at random. Exploration only.",
    "campaigns": [rapid("rapid", 100000, 1500000)],
    "assumptions": ["evaluated only when the first output parses (otherwise C03 reports)"],
}
PROPS["C15"] = {
    "level": "exploration",
    "technique": "property-based testing (rapid): comments with serial numbers placed at documented placeholders; lexer-level COMMENT token sequence of input vs output",
    "level_text": "Each generated comment carries a unique serial, placed only at placeholders documented in docs/parser.md; the output must contain each exactly once, in order (multiset when a sort option is on), modulo the configured marker style. Exploration only.",
    "campaigns": [rapid("rapid", 100000, 1500000)],
    "assumptions": ["comment marker conversion is compared as 'is a line comment with the same text after the marker run'", "a comment on its own line after the last declaration is not generated (not a documented placeholder)"],
}

NOT_APPLICABLE = {}

# Additional properties live in checkconf.d/CNN.py, each defining CONF = {...} (and optionally NA = "reason").
import glob as _glob, os as _os
for _f in sorted(_glob.glob(_os.path.join(_os.path.dirname(_os.path.abspath(__file__)), "checkconf.d", "C*.py"))):
    _ns = {"rapid": rapid}
    exec(open(_f).read(), _ns)
    _pid = _os.path.basename(_f)[:-3]
    if "CONF" in _ns:
        PROPS[_pid] = _ns["CONF"]
    if "NA" in _ns:
        NOT_APPLICABLE[_pid] = _ns["NA"]
