// Package canon produces a canonical, Meta-free S-expression dump of falco's
// ast (DESIGN.md §2.2). The same format is produced by gen's model nodes.
package canon

import (
	"fmt"
	"math"
	"sort"
	"strconv"
	"strings"

	"github.com/ysugimoto/falco/v2/ast"
)

type Mode struct {
	Explicit      bool // include InfixExpression.Explicit for "+"
	DropSubParams bool // omit subroutine parameters (classifier of a known codec finding)
	DropCallArgs  bool // omit `call` statement arguments (classifier of a known codec finding)
	RemoveAsUnset bool // dump `remove x;` as `unset x;` (formatter option should_use_unset)
	SortProps     bool // dump backend/director/table property lists sorted (formatter option sort_declaration_property)
	DropGroups    bool // dump (grp X) as X: grouping is still visible in the nesting of the operators
}

// sorted writes the dumps produced by each f in sorted order when SortProps is set.
func (d *dumper) list(n int, f func(i int)) {
	if !d.m.SortProps {
		for i := 0; i < n; i++ {
			f(i)
		}
		return
	}
	saved := d.b
	var items []string
	for i := 0; i < n; i++ {
		d.b = strings.Builder{}
		f(i)
		items = append(items, d.b.String())
	}
	d.b = saved
	sort.Strings(items)
	for _, it := range items {
		d.b.WriteString(it)
	}
}

type dumper struct {
	b   strings.Builder
	m   Mode
	err error
}

func (d *dumper) fail(format string, a ...any) {
	if d.err == nil {
		d.err = fmt.Errorf(format, a...)
	}
}

// VCL dumps a parsed file.
func VCL(v *ast.VCL, m Mode) (string, error) { return Statements(v.Statements, m) }

// Statements dumps a statement list in the "(vcl …)" form.
func Statements(ss []ast.Statement, m Mode) (string, error) {
	d := &dumper{m: m}
	d.b.WriteString("(vcl")
	for _, s := range ss {
		d.b.WriteString(" ")
		d.stmt(s)
	}
	d.b.WriteString(")")
	return d.b.String(), d.err
}

// Statement dumps one statement.
func Statement(s ast.Statement, m Mode) (string, error) {
	d := &dumper{m: m}
	d.stmt(s)
	return d.b.String(), d.err
}

// Expression dumps one expression.
func Expression(e ast.Expression, m Mode) (string, error) {
	d := &dumper{m: m}
	d.expr(e)
	return d.b.String(), d.err
}

func (d *dumper) ident(i *ast.Ident) {
	if i == nil {
		d.b.WriteString("<nil-ident>")
		d.fail("nil ident")
		return
	}
	fmt.Fprintf(&d.b, "(id %s)", i.Value)
}

func (d *dumper) optExpr(e ast.Expression) {
	if isNilExpr(e) {
		d.b.WriteString("-")
		return
	}
	d.expr(e)
}

func isNilExpr(e ast.Expression) bool {
	if e == nil {
		return true
	}
	switch v := e.(type) {
	case *ast.Ident:
		return v == nil
	case *ast.String:
		return v == nil
	case *ast.Integer:
		return v == nil
	case *ast.Float:
		return v == nil
	case *ast.FunctionCallExpression:
		return v == nil
	}
	return false
}

func (d *dumper) block(b *ast.BlockStatement) {
	d.b.WriteString("(block")
	if b != nil {
		for _, s := range b.Statements {
			d.b.WriteString(" ")
			d.stmt(s)
		}
	}
	d.b.WriteString(")")
}

func (d *dumper) args(as []ast.Expression) {
	for _, a := range as {
		d.b.WriteString(" ")
		d.expr(a)
	}
}

func (d *dumper) stmt(s ast.Statement) {
	switch v := s.(type) {
	case *ast.AclDeclaration:
		d.b.WriteString("(acl ")
		d.ident(v.Name)
		for _, c := range v.CIDRs {
			inv := "-"
			if c.Inverse != nil && c.Inverse.Value {
				inv = "!"
			}
			ip := ""
			if c.IP != nil {
				ip = c.IP.Value
			}
			fmt.Fprintf(&d.b, " (cidr %s (ip %s) ", inv, strconv.Quote(ip))
			if c.Mask != nil {
				fmt.Fprintf(&d.b, "(int %d)", c.Mask.Value)
			} else {
				d.b.WriteString("-")
			}
			d.b.WriteString(")")
		}
		d.b.WriteString(")")
	case *ast.BackendDeclaration:
		d.b.WriteString("(backend ")
		d.ident(v.Name)
		d.backendProps(v.Properties)
		d.b.WriteString(")")
	case *ast.DirectorDeclaration:
		d.b.WriteString("(director ")
		d.ident(v.Name)
		d.b.WriteString(" ")
		d.ident(v.DirectorType)
		d.list(len(v.Properties), func(i int) {
			p := v.Properties[i]
			switch pv := p.(type) {
			case *ast.DirectorProperty:
				d.b.WriteString(" (prop ")
				d.ident(pv.Key)
				d.b.WriteString(" ")
				d.expr(pv.Value)
				d.b.WriteString(")")
			case *ast.DirectorBackendObject:
				d.b.WriteString(" (dbackend")
				d.list(len(pv.Values), func(j int) {
					x := pv.Values[j]
					d.b.WriteString(" (prop ")
					d.ident(x.Key)
					d.b.WriteString(" ")
					d.expr(x.Value)
					d.b.WriteString(")")
				})
				d.b.WriteString(")")
			default:
				d.fail("unknown director property %T", p)
			}
		})
		d.b.WriteString(")")
	case *ast.TableDeclaration:
		d.b.WriteString("(table ")
		d.ident(v.Name)
		if v.ValueType != nil {
			d.b.WriteString(" ")
			d.ident(v.ValueType)
		} else {
			d.b.WriteString(" -")
		}
		d.list(len(v.Properties), func(i int) {
			p := v.Properties[i]
			d.b.WriteString(" (tprop ")
			if p.Key != nil {
				fmt.Fprintf(&d.b, "(str %s)", strconv.Quote(p.Key.Value))
			} else {
				d.b.WriteString("-")
			}
			d.b.WriteString(" ")
			d.expr(p.Value)
			d.b.WriteString(")")
		})
		d.b.WriteString(")")
	case *ast.SubroutineDeclaration:
		d.b.WriteString("(sub ")
		d.ident(v.Name)
		d.b.WriteString(" (params")
		for _, p := range v.Parameters {
			if d.m.DropSubParams {
				break
			}
			d.b.WriteString(" (param ")
			d.ident(p.Type)
			d.b.WriteString(" ")
			d.ident(p.Name)
			d.b.WriteString(")")
		}
		d.b.WriteString(") ")
		if v.ReturnType != nil {
			d.ident(v.ReturnType)
			d.b.WriteString(" ")
		} else {
			d.b.WriteString("- ")
		}
		d.block(v.Block)
		d.b.WriteString(")")
	case *ast.PenaltyboxDeclaration:
		d.b.WriteString("(penaltybox ")
		d.ident(v.Name)
		d.b.WriteString(" ")
		d.block(v.Block)
		d.b.WriteString(")")
	case *ast.RatecounterDeclaration:
		d.b.WriteString("(ratecounter ")
		d.ident(v.Name)
		d.b.WriteString(" ")
		d.block(v.Block)
		d.b.WriteString(")")
	case *ast.ImportStatement:
		d.b.WriteString("(import ")
		d.ident(v.Name)
		d.b.WriteString(")")
	case *ast.IncludeStatement:
		d.b.WriteString("(include ")
		if v.Module != nil {
			fmt.Fprintf(&d.b, "(str %s)", strconv.Quote(v.Module.Value))
		} else {
			d.b.WriteString("-")
		}
		d.b.WriteString(")")
	case *ast.BlockStatement:
		d.block(v)
	case *ast.SetStatement:
		d.b.WriteString("(set ")
		d.ident(v.Ident)
		op := "<nil-op>"
		if v.Operator != nil {
			op = v.Operator.Operator
		}
		fmt.Fprintf(&d.b, " %s ", op)
		d.expr(v.Value)
		d.b.WriteString(")")
	case *ast.AddStatement:
		d.b.WriteString("(add ")
		d.ident(v.Ident)
		op := "<nil-op>"
		if v.Operator != nil {
			op = v.Operator.Operator
		}
		fmt.Fprintf(&d.b, " %s ", op)
		d.expr(v.Value)
		d.b.WriteString(")")
	case *ast.UnsetStatement:
		d.b.WriteString("(unset ")
		d.ident(v.Ident)
		d.b.WriteString(")")
	case *ast.RemoveStatement:
		if d.m.RemoveAsUnset {
			d.b.WriteString("(unset ")
		} else {
			d.b.WriteString("(remove ")
		}
		d.ident(v.Ident)
		d.b.WriteString(")")
	case *ast.DeclareStatement:
		d.b.WriteString("(declare ")
		d.ident(v.Name)
		d.b.WriteString(" ")
		d.ident(v.ValueType)
		d.b.WriteString(" ")
		d.optExpr(v.Value)
		d.b.WriteString(")")
	case *ast.CallStatement:
		d.b.WriteString("(call ")
		d.ident(v.Subroutine)
		if !d.m.DropCallArgs {
			d.args(v.Arguments)
		}
		d.b.WriteString(")")
	case *ast.FunctionCallStatement:
		d.b.WriteString("(fcallstmt ")
		d.ident(v.Function)
		d.args(v.Arguments)
		d.b.WriteString(")")
	case *ast.ErrorStatement:
		d.b.WriteString("(error ")
		d.optExpr(v.Code)
		d.b.WriteString(" ")
		d.optExpr(v.Argument)
		d.b.WriteString(")")
	case *ast.EsiStatement:
		d.b.WriteString("(esi)")
	case *ast.RestartStatement:
		d.b.WriteString("(restart)")
	case *ast.BreakStatement:
		d.b.WriteString("(break)")
	case *ast.FallthroughStatement:
		d.b.WriteString("(fallthrough)")
	case *ast.LogStatement:
		d.b.WriteString("(log ")
		d.expr(v.Value)
		d.b.WriteString(")")
	case *ast.SyntheticStatement:
		d.b.WriteString("(synthetic ")
		d.expr(v.Value)
		d.b.WriteString(")")
	case *ast.SyntheticBase64Statement:
		d.b.WriteString("(synthetic.base64 ")
		d.expr(v.Value)
		d.b.WriteString(")")
	case *ast.ReturnStatement:
		d.b.WriteString("(return ")
		d.optExpr(v.ReturnExpression)
		d.b.WriteString(")")
	case *ast.GotoStatement:
		d.b.WriteString("(goto ")
		d.ident(v.Destination)
		d.b.WriteString(")")
	case *ast.GotoDestinationStatement:
		d.b.WriteString("(label ")
		d.ident(v.Name)
		d.b.WriteString(")")
	case *ast.IfStatement:
		d.b.WriteString("(if ")
		d.expr(v.Condition)
		d.b.WriteString(" ")
		d.block(v.Consequence)
		for _, a := range v.Another {
			d.b.WriteString(" (elif ")
			d.expr(a.Condition)
			d.b.WriteString(" ")
			d.block(a.Consequence)
			d.b.WriteString(")")
			if len(a.Another) > 0 || a.Alternative != nil {
				d.fail("else-if arm carries its own chain")
			}
		}
		if v.Alternative != nil {
			d.b.WriteString(" (else ")
			d.block(v.Alternative.Consequence)
			d.b.WriteString(")")
		} else {
			d.b.WriteString(" -")
		}
		d.b.WriteString(")")
	case *ast.SwitchStatement:
		d.b.WriteString("(switch ")
		if v.Control != nil {
			d.expr(v.Control.Expression)
		} else {
			d.b.WriteString("-")
		}
		fmt.Fprintf(&d.b, " %d", v.Default)
		for _, c := range v.Cases {
			d.b.WriteString(" (case ")
			if c.Test == nil {
				d.b.WriteString("default")
			} else {
				fmt.Fprintf(&d.b, "(%s ", c.Test.Operator)
				d.expr(c.Test.Right)
				d.b.WriteString(")")
				if c.Test.Left != nil {
					d.fail("case test has a left operand")
				}
			}
			fmt.Fprintf(&d.b, " %t", c.Fallthrough)
			for _, s := range c.Statements {
				d.b.WriteString(" ")
				d.stmt(s)
			}
			d.b.WriteString(")")
		}
		d.b.WriteString(")")
	case nil:
		d.b.WriteString("<nil-stmt>")
		d.fail("nil statement")
	default:
		d.b.WriteString(fmt.Sprintf("<unknown %T>", s))
		d.fail("unknown statement kind %T", s)
	}
}

func (d *dumper) backendProps(ps []*ast.BackendProperty) {
	d.list(len(ps), func(i int) {
		p := ps[i]
		d.b.WriteString(" (prop ")
		d.ident(p.Key)
		d.b.WriteString(" ")
		if po, ok := p.Value.(*ast.BackendProbeObject); ok {
			d.b.WriteString("(probe")
			d.backendProps(po.Values)
			d.b.WriteString(")")
		} else {
			d.expr(p.Value)
		}
		d.b.WriteString(")")
	})
}

func (d *dumper) expr(e ast.Expression) {
	switch v := e.(type) {
	case *ast.Ident:
		d.ident(v)
	case *ast.String:
		fmt.Fprintf(&d.b, "(str %s)", strconv.Quote(v.Value))
	case *ast.IP:
		fmt.Fprintf(&d.b, "(ip %s)", strconv.Quote(v.Value))
	case *ast.Integer:
		fmt.Fprintf(&d.b, "(int %d)", v.Value)
	case *ast.Float:
		fmt.Fprintf(&d.b, "(float %016x)", math.Float64bits(v.Value))
	case *ast.RTime:
		fmt.Fprintf(&d.b, "(rtime %s)", v.Value)
	case *ast.Boolean:
		fmt.Fprintf(&d.b, "(bool %t)", v.Value)
	case *ast.PrefixExpression:
		fmt.Fprintf(&d.b, "(pre %s ", v.Operator)
		d.expr(v.Right)
		d.b.WriteString(")")
	case *ast.InfixExpression:
		op := v.Operator
		if d.m.Explicit && op == "+" {
			if v.Explicit {
				op = "+e"
			} else {
				op = "+j"
			}
		}
		fmt.Fprintf(&d.b, "(in %s ", op)
		d.expr(v.Left)
		d.b.WriteString(" ")
		d.expr(v.Right)
		d.b.WriteString(")")
	case *ast.PostfixExpression:
		fmt.Fprintf(&d.b, "(post %s ", v.Operator)
		d.expr(v.Left)
		d.b.WriteString(")")
	case *ast.GroupedExpression:
		if d.m.DropGroups {
			d.expr(v.Right)
			return
		}
		d.b.WriteString("(grp ")
		d.expr(v.Right)
		d.b.WriteString(")")
	case *ast.IfExpression:
		d.b.WriteString("(ife ")
		d.expr(v.Condition)
		d.b.WriteString(" ")
		d.expr(v.Consequence)
		d.b.WriteString(" ")
		d.expr(v.Alternative)
		d.b.WriteString(")")
	case *ast.FunctionCallExpression:
		d.b.WriteString("(fn ")
		if v.Function != nil {
			d.b.WriteString(v.Function.Value)
		}
		d.args(v.Arguments)
		d.b.WriteString(")")
	case *ast.BackendProbeObject:
		d.b.WriteString("(probe")
		d.backendProps(v.Values)
		d.b.WriteString(")")
	case nil:
		d.b.WriteString("<nil-expr>")
		d.fail("nil expression")
	default:
		d.b.WriteString(fmt.Sprintf("<unknown %T>", e))
		d.fail("unknown expression kind %T", e)
	}
}
