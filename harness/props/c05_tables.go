package props

// C05 reference data. Everything in this file is the harness's OWN reading of
//   - the Fastly operator documentation (https://developer.fastly.com/reference/vcl/operators/)
//     as far as it is quoted by the comments of linter/operator.go, linter/expression_linter.go,
//     interpreter/assign/*.go and interpreter/operator/operator.go ("allows both variable and
//     literal", "allows variable only, disallow literal", "disallow", `// INTEGER += RTIME`, …);
//   - the Fastly statement documentation (restart, error, esi, synthetic, return) as quoted by
//     linter/statement_linter.go and interpreter/statement.go;
//   - the Fastly function pages for the identifiers a built-in expects in an ID position.
// It is written as data and never computed from falco's Go tables.

// Operand types of product A.
const (
	tI   = "INTEGER"
	tF   = "FLOAT"
	tS   = "STRING"
	tB   = "BOOL"
	tR   = "RTIME"
	tT   = "TIME"
	tIP  = "IP"
	tBE  = "BACKEND"
	tRB  = "REQBACKEND" // type of req.backend in predefined.yml
	tACL = "ACL"
)

var c05AssignOps = []string{"=", "+=", "-=", "*=", "/=", "%=", "|=", "&=", "^=", "<<=", ">>=", "rol=", "ror=", "&&=", "||="}
var c05CompareOps = []string{"==", "!=", "<", ">", "<=", ">=", "~", "!~"}

// opRow: for one operator group and left type, the right types allowed as variable and
// literal ("both"), as variable only ("varOnly") and as literal only ("litOnly").
// Every right type not named is denied.
type opRow struct {
	both, varOnly, litOnly []string
	src                    string
}

// group name of an operator
func c05OpGroup(op string) string {
	switch op {
	case "=":
		return "assign"
	case "+=":
		return "add"
	case "-=":
		return "sub"
	case "*=", "/=", "%=":
		return "arith"
	case "|=", "&=", "^=", "<<=", ">>=", "rol=", "ror=":
		return "bitwise"
	case "&&=", "||=":
		return "logical"
	case "==", "!=":
		return "equal"
	case "<", ">", "<=", ">=":
		return "relational"
	case "~", "!~":
		return "match"
	}
	return "?"
}

const srcBoth = "agreed by linter/operator.go and interpreter/assign comments"

// c05OpTable[group][left type]
var c05OpTable = map[string]map[string]opRow{
	"assign": {
		tI:  {both: []string{tI}, varOnly: []string{tF, tR, tT}, src: srcBoth},
		tF:  {both: []string{tI, tF}, varOnly: []string{tR, tT}, src: srcBoth},
		tS:  {both: []string{tS, tB}, varOnly: []string{tI, tF, tR, tT, tIP, tRB}, src: srcBoth},
		tR:  {both: []string{tR}, varOnly: []string{tI, tF, tT}, src: srcBoth},
		tT:  {both: []string{tR}, varOnly: []string{tI, tF, tT}, src: srcBoth},
		tIP: {both: []string{tS, tIP}, src: srcBoth},
		tBE: {both: []string{tBE, tRB}, src: srcBoth},
		tRB: {both: []string{tBE, tRB}, src: srcBoth},
		tB:  {both: []string{tB}, src: srcBoth},
	},
	"add": {
		tI: {both: []string{tI}, varOnly: []string{tF, tR, tT}, src: srcBoth},
		tF: {both: []string{tI, tF}, varOnly: []string{tR, tT}, src: srcBoth},
		tR: {both: []string{tR}, varOnly: []string{tI, tF, tT}, src: srcBoth},
		tT: {both: []string{tR}, varOnly: []string{tI, tF}, src: srcBoth},
		// the simulator appends anything to a STRING; the type row exists in linter/operator.go only
		tS: {both: []string{tS, tB}, varOnly: []string{tI, tF, tR, tT, tIP, tRB}, src: "linter/operator.go lintAddSubOperator comments (simulator has no type row for STRING +=)"},
	},
	"sub": {
		tI: {both: []string{tI}, varOnly: []string{tF, tR, tT}, src: srcBoth},
		tF: {both: []string{tI, tF}, varOnly: []string{tR, tT}, src: srcBoth},
		tR: {both: []string{tR}, varOnly: []string{tI, tF, tT}, src: srcBoth},
		tT: {both: []string{tR}, varOnly: []string{tI, tF}, src: srcBoth},
	},
	"arith": {
		tI: {both: []string{tI}, varOnly: []string{tF}, src: srcBoth},
		tF: {both: []string{tI, tF}, src: srcBoth},
		tR: {both: []string{tI, tF}, src: srcBoth},
	},
	"bitwise": {
		tI: {both: []string{tI}, src: srcBoth},
	},
	"logical": {
		tB: {both: []string{tB}, src: srcBoth},
	},
	"equal": {
		tI:  {both: []string{tI}, src: "equality needs the same type on both sides"},
		tF:  {both: []string{tF}, src: "equality needs the same type on both sides"},
		tS:  {both: []string{tS}, src: "equality needs the same type on both sides"},
		tB:  {both: []string{tB}, src: "equality needs the same type on both sides"},
		tR:  {both: []string{tR}, src: "equality needs the same type on both sides"},
		tT:  {both: []string{tT}, src: "equality needs the same type on both sides"},
		tIP: {both: []string{tIP}, src: "equality needs the same type on both sides"},
		tBE: {both: []string{tBE, tRB}, src: "equality needs the same type on both sides (req.backend compares as BACKEND, fiddle 06865e2d)"},
		tRB: {both: []string{tBE, tRB}, src: "equality needs the same type on both sides (req.backend compares as BACKEND, fiddle 06865e2d)"},
	},
	"relational": {
		tI: {both: []string{tI}, varOnly: []string{tR}, src: "agreed by lintInfixExpression and interpreter/operator comments"},
		tF: {both: []string{tI, tF}, varOnly: []string{tR}, src: "agreed by lintInfixExpression and interpreter/operator comments"},
		tR: {both: []string{tR}, varOnly: []string{tI, tF}, src: "agreed by lintInfixExpression and interpreter/operator comments"},
	},
	"match": {
		tS:  {both: []string{tACL}, litOnly: []string{tS}, src: "regex patterns must be string literals; STRING/IP match an ACL"},
		tIP: {both: []string{tACL}, src: "regex patterns must be string literals; STRING/IP match an ACL"},
	},
}

// c05Unspec lists the cells where the two falco transcriptions disagree on the pinned tree and
// the quoted documentation does not decide: T is unspecified there and only L => S is required.
type unspecCell struct {
	group, left, right, form string // form: "lit" | "var" | "" (either)
	why                      string
}

var c05Unspec = []unspecCell{
	{"assign", tS, tBE, "var", "STRING = BACKEND variable: linter allows req.backend only, simulator any non-literal BACKEND"},
	{"add", tS, tBE, "var", "STRING += BACKEND variable: linter allows req.backend only, simulator any value"},
	{"equal", tIP, tS, "", "IP == STRING: simulator coerces the string to IP, linter wants equal types"},
	{"relational", tI, tR, "lit", "INTEGER < RTIME literal: linter accepts, simulator rejects literals across types"},
	{"relational", tF, tR, "lit", "FLOAT < RTIME literal: linter accepts, simulator rejects literals across types"},
	{"relational", tR, tI, "lit", "RTIME < INTEGER literal: linter accepts, simulator rejects literals across types"},
	{"relational", tR, tF, "lit", "RTIME < FLOAT literal: linter accepts, simulator rejects literals across types"},
	{"relational", tT, tT, "", "TIME < TIME: simulator compares, linter rejects"},
	{"match", tIP, tS, "lit", "IP ~ \"literal\": linter accepts, simulator rejects"},
}

// c05OpVerdict returns allow | deny | unspec and the table row it came from.
func c05OpVerdict(op, left, right, form string) (string, string) {
	g := c05OpGroup(op)
	for _, u := range c05Unspec {
		if u.group == g && u.left == left && u.right == right && (u.form == "" || u.form == form) {
			return "unspec", "unspecified: " + u.why
		}
	}
	row, ok := c05OpTable[g][left]
	if !ok {
		return "deny", "operator table: " + g + " is not defined for left type " + left
	}
	in := func(xs []string) bool {
		for _, x := range xs {
			if x == right {
				return true
			}
		}
		return false
	}
	switch {
	case in(row.both):
		return "allow", "operator table " + g + "[" + left + "]: " + right + " allowed as variable and literal (" + row.src + ")"
	case in(row.varOnly):
		if form == "lit" {
			return "deny", "operator table " + g + "[" + left + "]: " + right + " allowed as variable only (" + row.src + ")"
		}
		return "allow", "operator table " + g + "[" + left + "]: " + right + " allowed as variable only (" + row.src + ")"
	case in(row.litOnly):
		if form == "lit" {
			return "allow", "operator table " + g + "[" + left + "]: " + right + " allowed as literal only (" + row.src + ")"
		}
		return "deny", "operator table " + g + "[" + left + "]: " + right + " allowed as literal only (" + row.src + ")"
	}
	return "deny", "operator table " + g + "[" + left + "]: " + right + " not allowed (" + row.src + ")"
}

// ---------------------------------------------------------------------------
// scope-restricted statements (Fastly statement reference)

var c05StmtScopes = map[string][]string{
	// https://developer.fastly.com/reference/vcl/statements/restart/
	"restart": {"recv", "hit", "fetch", "error", "deliver"},
	// https://developer.fastly.com/reference/vcl/statements/error/
	"error": {"recv", "hit", "miss", "pass", "fetch"},
	// https://developer.fastly.com/reference/vcl/statements/esi/
	"esi": {"fetch"},
	// https://developer.fastly.com/reference/vcl/statements/synthetic/
	"synthetic": {"error"},
	// https://developer.fastly.com/reference/vcl/statements/synthetic-base64/
	"synthetic.base64": {"error"},
}

var c05StmtProbe = map[string]string{
	"restart":          "restart;",
	"error":            "error 601;",
	"esi":              "esi;",
	"synthetic":        `synthetic "body";`,
	"synthetic.base64": `synthetic.base64 "Ym9keQ==";`,
}

var c05StmtNames = []string{"restart", "error", "esi", "synthetic", "synthetic.base64"}

// return(action) per subroutine (Fastly subroutine reference pages, the "return states" of each)
var c05ReturnActions = []string{"lookup", "pass", "error", "restart", "hash", "deliver", "fetch", "deliver_stale", "hit_for_pass", "upgrade", "bogus"}

var c05ReturnTable = map[string][]string{
	"recv":    {"lookup", "pass", "error", "restart"},
	"hash":    {"hash"},
	"hit":     {"deliver", "pass", "error", "restart"},
	"miss":    {"fetch", "deliver_stale", "pass", "error"},
	"pass":    {"pass"},
	"fetch":   {"deliver", "deliver_stale", "hit_for_pass", "pass", "error", "restart"},
	"error":   {"deliver", "deliver_stale", "restart"},
	"deliver": {"deliver", "restart"},
	"log":     {"deliver"},
}

// cells of the return table that the sources available offline do not decide
var c05ReturnUnspec = map[string]string{
	"pass/error":   "return(error) in vcl_pass: the error statement is documented for PASS and the simulator follows it, the linter's list omits it",
	"recv/upgrade": "return(upgrade) in vcl_recv (WebSocket pass-through) is documented by Fastly but unknown to both falco tables",
}

// ---------------------------------------------------------------------------
// identifiers expected in ID positions of built-ins (Fastly function reference)

var c05IDArgs = map[string][]string{
	"crypto.decrypt_base64":           {"aes128", "cbc", "pkcs7"},
	"crypto.decrypt_hex":              {"aes128", "cbc", "pkcs7"},
	"crypto.encrypt_base64":           {"aes128", "cbc", "pkcs7"},
	"crypto.encrypt_hex":              {"aes128", "cbc", "pkcs7"},
	"digest.rsa_verify":               {"sha256", "url_nopad"},
	"digest.ecdsa_verify":             {"sha256", "der", "url_nopad"},
	"setcookie.delete_by_name":        {"resp"},
	"setcookie.get_value_by_name":     {"resp"},
	"std.collect":                     {"req.http.X-Probe"},
	"std.count":                       {"req.headers"},
	"ratelimit.check_rate":            {"rc", "pb"},
	"ratelimit.check_rates":           {"rc", "rc", "pb"},
	"ratelimit.penaltybox_add":        {"pb"},
	"ratelimit.penaltybox_has":        {"pb"},
	"ratelimit.ratecounter_increment": {"rc"},
	"header.get":                      {"req"},
	"header.set":                      {"req"},
	"header.unset":                    {"req"},
	"header.filter":                   {"req"},
	"header.filter_except":            {"req"},
}

// complete argument lists (per signature index of builtin.yml) for built-ins whose arguments must
// have a particular shape for the call to be meaningful. Value-dependent failures are outside
// C05; these only keep the probes realistic so that S exercises the function body.
var c05CallArgs = map[string][][]string{
	"crypto.decrypt_base64":              {{"aes128", "cbc", "pkcs7", `"000102030405060708090a0b0c0d0e0f"`, `"000102030405060708090a0b0c0d0e0f"`, `"Hf6DbfcOiTEKlwox+jNR/Q=="`}},
	"crypto.decrypt_hex":                 {{"aes128", "cbc", "pkcs7", `"000102030405060708090a0b0c0d0e0f"`, `"000102030405060708090a0b0c0d0e0f"`, `"1dfe836df70e89310a970a31fa3351fd"`}},
	"crypto.encrypt_base64":              {{"aes128", "cbc", "pkcs7", `"000102030405060708090a0b0c0d0e0f"`, `"000102030405060708090a0b0c0d0e0f"`, `"aGVsbG8="`}},
	"crypto.encrypt_hex":                 {{"aes128", "cbc", "pkcs7", `"000102030405060708090a0b0c0d0e0f"`, `"000102030405060708090a0b0c0d0e0f"`, `"68656c6c6f"`}},
	"accept.media_lookup":                {{`"text/html:text/plain"`, `"text/plain"`, `"image/*"`, `"text/html"`}},
	"digest.time_hmac_md5":               {{`"c2VjcmV0"`, "60", "0"}},
	"digest.time_hmac_sha1":              {{`"c2VjcmV0"`, "60", "0"}},
	"digest.time_hmac_sha256":            {{`"c2VjcmV0"`, "60", "0"}},
	"digest.time_hmac_sha512":            {{`"c2VjcmV0"`, "60", "0"}},
	"digest.hash_sha1_from_base64":       {{`"aGVsbG8="`}},
	"digest.hash_sha256_from_base64":     {{`"aGVsbG8="`}},
	"digest.hash_sha512_from_base64":     {{`"aGVsbG8="`}},
	"digest.hash_xxh32_from_base64":      {{`"aGVsbG8="`}},
	"digest.hash_xxh64_from_base64":      {{`"aGVsbG8="`}},
	"digest.hmac_sha256_with_base64_key": {{`"c2VjcmV0"`, `"abc"`}},
	"ratelimit.check_rate":               {{`"abc"`, "rc", "1", "10", "100", "pb", "2m"}},
	"ratelimit.check_rates":              {{`"abc"`, "rc", "1", "10", "100", "rc", "1", "60", "1000", "pb", "2m"}},
	"std.atof":                           {{`"1.5"`}},
	"std.atoi":                           {{`"12"`}},
	"std.ip":                             {{`"10.0.0.1"`, `"10.0.0.2"`}},
	"std.str2ip":                         {{`"10.0.0.1"`, `"10.0.0.2"`}},
	"std.itoa":                           {{"1", "10"}},
	"std.strtof":                         {{`"1.5"`, "10"}},
	"std.strtol":                         {{`"12"`, "10"}},
	"subfield":                           {{`"a=b"`, `"a"`, `";"`}},
	"time.runits":                        {{`"s"`, "10s"}},
	"time.units":                         {{`"s"`, "now"}},
	"uuid.version3":                      {{`"6ba7b810-9dad-11d1-80b4-00c04fd430c8"`, `"abc"`}},
	"uuid.version5":                      {{`"6ba7b810-9dad-11d1-80b4-00c04fd430c8"`, `"abc"`}},
}

// top-level declarations every probe program starts with
const c05Decls = `backend b { .host = "127.0.0.1"; .port = "8080"; }
director d random { { .backend = b; .weight = 1; } }
acl acl_x { "10.0.0.0"/8; }
table tbl { "a": "1" }
table tbl_integer INTEGER { "a": 1 }
table tbl_float FLOAT { "a": 1.5 }
table tbl_bool BOOL { "a": true }
table tbl_ip IP { "a": "10.0.0.1" }
table tbl_rtime RTIME { "a": 10s }
table tbl_acl ACL { "a": acl_x }
table tbl_backend BACKEND { "a": b }
table tbl_regex REGEX { "a": "x+" }
ratecounter rc { }
penaltybox pb { }
`

var c05TableFor = map[string]string{
	"table.lookup_integer": "tbl_integer", "table.lookup_float": "tbl_float", "table.lookup_bool": "tbl_bool",
	"table.lookup_ip": "tbl_ip", "table.lookup_rtime": "tbl_rtime", "table.lookup_acl": "tbl_acl",
	"table.lookup_backend": "tbl_backend", "table.lookup_regex": "tbl_regex",
}
