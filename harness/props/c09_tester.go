package props

import (
	"encoding/json"
	"fmt"
	"os"
	"path/filepath"
	"regexp"
	"strings"

	"pgregory.net/rapid"
	"verif/iso"
)

// C09 kind "tester": the test runner reads a test's scope, suite name and skip flag from annotation
// comments in front of the test subroutine (tester/metadata.go); ordinary comments in front of, between
// and behind those annotation lines, and inside the test bodies, must not change what `falco test` reports.

var c09TesterComments = []string{"// plain remark", "# another remark", "/* block remark */", "// todo: tidy this test", "/* two\n   lines */", "#", "// scope: recv (not an annotation)", "/** doc **/"}

// decorateTestFile inserts whole-line ordinary comments in front of annotation lines, `sub` lines and
// statements of a rendered C10 test file (one statement or annotation per line), and trailing comments
// behind statements.
func decorateTestFile(t *rapid.T, src string) (string, int, []string) {
	lines := strings.Split(src, "\n")
	var out []string
	n := 0
	slots := map[string]bool{}
	for _, l := range lines {
		tr := strings.TrimSpace(l)
		slot := ""
		switch {
		case strings.HasPrefix(tr, "// @") || strings.HasPrefix(tr, "# @") || strings.HasPrefix(tr, "//@") || strings.HasPrefix(tr, "#@"):
			slot = "before-annotation"
		case strings.HasPrefix(tr, "sub "):
			slot = "before-sub"
		case strings.HasSuffix(tr, ";") && !strings.HasPrefix(tr, "//") && !strings.HasPrefix(tr, "#"):
			slot = "before-statement"
		}
		if slot != "" && rapid.IntRange(0, 3).Draw(t, "tc") == 0 {
			k := 1
			if slot != "before-statement" {
				k = rapid.IntRange(1, 2).Draw(t, "tcn")
			}
			for i := 0; i < k; i++ {
				out = append(out, rapid.SampledFrom(c09TesterComments).Draw(t, "tctext"))
				n++
			}
			slots[slot] = true
			if slot == "before-sub" && rapid.IntRange(0, 3).Draw(t, "blank") == 0 {
				out = append(out, "")
			}
		}
		if slot == "before-statement" && rapid.IntRange(0, 9).Draw(t, "ttrail") == 0 {
			l += " // trailing remark"
			n++
			slots["after-statement"] = true
		}
		out = append(out, l)
	}
	var ss []string
	for s := range slots {
		ss = append(ss, "tester:"+s)
	}
	return strings.Join(out, "\n"), n, ss
}

func genC09Tester(t *rapid.T) C09Case {
	tc := genC10(t).(C10Case)
	order := make([]int, len(tc.Tests))
	for i := range order {
		order[i] = i
	}
	src, _ := c10Render(&tc, order)
	c := C09Case{Kind: "tester", Main: tc.Main, Plain: src}
	c.Decorated, c.NComments, c.Slots = decorateTestFile(t, src)
	return c
}

var c09LogPos = regexp.MustCompile(` \([^() ]+ \d+:\d+\)$`)
var c09ErrPos = regexp.MustCompile(`(line|position|Line|Position):? ?\d+`)

type c09Suite struct {
	Name  string   `json:"name"`
	Error string   `json:"error"`
	Scope string   `json:"scope"`
	Skip  bool     `json:"skip"`
	Logs  []string `json:"logs"`
}

type c09Report struct {
	Tests []struct {
		Suites []c09Suite `json:"suites"`
	} `json:"tests"`
	Summary map[string]int `json:"summary"`
}

// c09RunTests runs `falco test -json main.vcl` in a fresh directory and returns the report without file
// names, source positions and timings.
func c09RunTests(base, main, test string) (string, error) {
	dir, err := os.MkdirTemp(base, "c09t-")
	if err != nil {
		return "", fmt.Errorf("INFRA: %v", err)
	}
	defer os.RemoveAll(dir)
	if f := c10ConfigAbove(dir); f != "" {
		return "", fmt.Errorf("INFRA: a falco configuration file %s would be picked up", f)
	}
	if err := os.WriteFile(filepath.Join(dir, "main.vcl"), []byte(main), 0o644); err != nil {
		return "", fmt.Errorf("INFRA: %v", err)
	}
	if err := os.WriteFile(filepath.Join(dir, "main.test.vcl"), []byte(test), 0o644); err != nil {
		return "", fmt.Errorf("INFRA: %v", err)
	}
	sp := c10Exec(dir, "test", "-json", "main.vcl")
	if sp.err != nil {
		return "", fmt.Errorf("INFRA: cannot run falco: %v", sp.err)
	}
	if sp.timedOut {
		return "timed out", nil
	}
	var rep c09Report
	if err := json.Unmarshal(sp.stdout, &rep); err != nil {
		return fmt.Sprintf("exit=%d no JSON report; stderr: %s", sp.exit, c09ErrPos.ReplaceAllString(strings.ReplaceAll(clip(string(sp.stderr)), dir, "DIR"), "$1 N")), nil
	}
	var b strings.Builder
	fmt.Fprintf(&b, "exit=%d summary=%v\n", sp.exit, rep.Summary)
	for _, f := range rep.Tests {
		for _, s := range f.Suites {
			for i := range s.Logs {
				s.Logs[i] = c09LogPos.ReplaceAllString(s.Logs[i], "")
			}
			fmt.Fprintf(&b, "test %q scope=%s skip=%v error=%q logs=%q\n", s.Name, s.Scope, s.Skip, c09ErrPos.ReplaceAllString(strings.ReplaceAll(s.Error, dir, "DIR"), "$1 N"), s.Logs)
		}
	}
	return b.String(), nil
}

func checkC09Tester(c C09Case, col *iso.Collector) iso.Result {
	if os.Getenv("VERIF_FALCO") == "" {
		return iso.Failf("INFRA: VERIF_FALCO is not set (the check needs the built falco binary; checkconf must say \"cli\": True)")
	}
	base := os.Getenv("VERIF_WORKDIR")
	if base == "" {
		base = "/var/tmp"
	}
	plain, err := c09RunTests(base, c.Main, c.Plain)
	if err != nil {
		return iso.Failf("%v", err)
	}
	deco, err := c09RunTests(base, c.Main, c.Decorated)
	if err != nil {
		return iso.Failf("%v", err)
	}
	col.Count("falco_test_runs", 2)
	if plain != deco {
		col.FailKey(c09Key(c, "tester"), "ordinary comments in the test file change what `falco test` reports\n--- report (plain) ---\n%s\n--- report (decorated) ---\n%s\n--- test file (plain) ---\n%s\n--- test file (decorated) ---\n%s", plain, deco, c.Plain, c.Decorated)
	}
	if c.NComments > 0 && strings.Contains(c.Plain, "@") {
		col.Res.NonTrivial = true
	}
	return col.Done()
}
