package props

import (
	"encoding/json"
	"fmt"
	"sort"
	"strings"
	"time"

	"github.com/ysugimoto/falco/v2/ast"
	"github.com/ysugimoto/falco/v2/config"
	"github.com/ysugimoto/falco/v2/lexer"
	"github.com/ysugimoto/falco/v2/linter"
	lcontext "github.com/ysugimoto/falco/v2/linter/context"
	"github.com/ysugimoto/falco/v2/parser"
	"pgregory.net/rapid"

	"verif/iso"
)

// C11 — linting is total and deterministic; subroutine order does not matter.

type C11Case struct {
	Prelude string            `json:"prelude"`
	Subs    []string          `json:"subs"` // one text block per subroutine declaration
	Perm    []int             `json:"perm"` // permutation of Subs for the order-independence check
	Modules map[string]string `json:"modules,omitempty"`
	Feat    []string          `json:"feat,omitempty"`
}

func init() {
	register("C11",
		"lintable programs (lifecycle subs with #FASTLY macros, helper subs calling each other incl. recursion and mutual recursion, functional subs, gotos, unused and duplicate declarations, ~30% injected lint errors) with include graphs over <=4 modules served by a harness resolver (present, missing, self-including, mutually including, included at root and inside a sub); oracle: Lint returns within the deadline without panic (totality, isolated worker), five runs with fresh Linter/Context give equal located multisets (determinism), a random permutation of the subroutine declarations gives the same multiset of (rule, severity, message) (order independence), and a statement module included in vcl_deliver / vcl_fetch gives the same diagnostics as its statements written in place of the include statement. non-trivial: >=2 helper subs with >=1 call edge or an include edge, and >=2 diagnostics; distinct by case",
		genC11, checkC11, 20*time.Second)
}

func genC11(t *rapid.T) any {
	g := &lintGen{t: t, errPct: 30}
	c := C11Case{Prelude: lintPrelude, Modules: map[string]string{}}
	feat := map[string]bool{}
	nUser := rapid.IntRange(0, 4).Draw(t, "nuser")
	renderSub := func(header string, scope string, body []LStmt, extra []string) string {
		p := LProgram{Subs: []LSub{{Name: "X", Scope: scope, Stmts: body}}}
		txt := p.render()
		// strip prelude and wrapper produced by render(): keep the statement lines
		lines := strings.Split(txt, "\n")
		var keep []string
		in := false
		for _, l := range lines {
			if strings.HasPrefix(l, "sub X {") {
				in = true
				continue
			}
			if in {
				keep = append(keep, l)
			}
		}
		// drop the closing "}" and trailing blank
		for len(keep) > 0 && strings.TrimSpace(keep[len(keep)-1]) == "" {
			keep = keep[:len(keep)-1]
		}
		if len(keep) > 0 {
			keep = keep[:len(keep)-1]
		}
		return header + " {\n" + strings.Join(keep, "\n") + "\n" + strings.Join(extra, "\n") + "\n}\n"
	}
	calls := func(nTargets int, self int) []string {
		var out []string
		if nTargets == 0 {
			return out
		}
		n := rapid.IntRange(0, 2).Draw(t, "ncalls")
		for i := 0; i < n; i++ {
			k := rapid.IntRange(0, nTargets-1).Draw(t, "callee")
			if k == self {
				feat["recursion"] = true
			}
			out = append(out, fmt.Sprintf("  call helper_%d;", k))
			feat["call-edge"] = true
		}
		return out
	}
	for i := 0; i < nUser; i++ {
		body := append(g.declares(), g.block(0, 1, 4)...)
		extra := calls(nUser, i)
		if rapid.IntRange(0, 5).Draw(t, "goto") == 0 {
			extra = append(extra, "  goto end_label;", "  log \"skipped\";", "  end_label:")
			feat["goto"] = true
		}
		if rapid.IntRange(0, 5).Draw(t, "fncall") == 0 {
			extra = append(extra, "  set req.http.X-F = fn_s(\"a\");")
		}
		if rapid.IntRange(0, 3).Draw(t, "return") == 0 {
			extra = append(extra, "  if (req.http.X-R) {\n    return;\n  }")
			feat["return-in-helper"] = true
		}
		c.Subs = append(c.Subs, renderSub(fmt.Sprintf("sub helper_%d", i), "", body, extra))
		if rapid.IntRange(0, 9).Draw(t, "dup") == 0 {
			if rapid.Bool().Draw(t, "dupbody") {
				c.Subs = append(c.Subs, renderSub(fmt.Sprintf("sub helper_%d", i), "", append(g.declares(), g.block(0, 1, 3)...), calls(nUser, i)))
				feat["duplicate-sub-different-body"] = true
			} else {
				c.Subs = append(c.Subs, renderSub(fmt.Sprintf("sub helper_%d", i), "", g.declares(), nil))
			}
			feat["duplicate-sub"] = true
		}
	}
	if rapid.Bool().Draw(t, "fn") {
		c.Subs = append(c.Subs, "sub fn_s(STRING var.p) STRING {\n  if (var.p == \"x\") {\n    return fn_s(var.p \"y\");\n  }\n  return var.p;\n}\n")
		feat["functional-sub"] = true
	}
	if rapid.IntRange(0, 2).Draw(t, "regroup") == 0 {
		// capture groups: one subroutine matches with groups, a functional and a plain subroutine read re.group.N
		// without a match of their own (what they report must not depend on which subroutine was linted before)
		c.Subs = append(c.Subs, "sub captures {\n  if (req.http.X-A ~ \"^(a)(b)(c)\") {\n    set req.http.X-G = re.group.2;\n  }\n}\n")
		c.Subs = append(c.Subs, "sub fn_group STRING {\n  return re.group.1;\n}\n")
		if rapid.Bool().Draw(t, "regroup-plain") {
			c.Subs = append(c.Subs, "sub reads_group {\n  set req.http.X-G2 = re.group.3;\n}\n")
		}
		feat["capture-groups-across-subs"] = true
	}
	regroup := feat["capture-groups-across-subs"]
	if rapid.IntRange(0, 3).Draw(t, "unused") == 0 {
		c.Subs = append(c.Subs, "sub never_called {\n  set req.http.X-U = \"1\";\n}\n")
		feat["unused-sub"] = true
	}
	// lifecycle subs
	recvExtra := calls(nUser, -1)
	if regroup {
		recvExtra = append(recvExtra, "  call captures;", "  set req.http.X-FG = fn_group();")
		if strings.Contains(strings.Join(c.Subs, ""), "sub reads_group") {
			recvExtra = append(recvExtra, "  call reads_group;")
		}
	}
	inc := rapid.SampledFrom([]string{"", "", "root-present", "root-missing", "root-self", "root-mutual", "stmt-present", "stmt-self", "stmt-mutual", "stmt-missing", "stmt-self-nested", "stmt-mutual-nested", "stmt-sibling-then-self"}).Draw(t, "include")
	if inc != "" {
		feat["include:"+inc] = true
	}
	switch inc {
	case "stmt-present":
		recvExtra = append(recvExtra, "  include \"s1\";")
		c.Modules["s1"] = "set req.http.X-S1 = \"1\";\nset req.http.X-E = std.strlen();\n"
	case "stmt-self":
		recvExtra = append(recvExtra, "  include \"s1\";")
		c.Modules["s1"] = "set req.http.X-S1 = \"1\";\ninclude \"s1\";\n"
	case "stmt-mutual":
		recvExtra = append(recvExtra, "  include \"s1\";")
		c.Modules["s1"] = "set req.http.X-S1 = \"1\";\ninclude \"s2\";\n"
		c.Modules["s2"] = "set req.http.X-S2 = \"1\";\ninclude \"s1\";\n"
	case "stmt-self-nested":
		recvExtra = append(recvExtra, "  include \"s1\";")
		c.Modules["s1"] = "set req.http.X-S1 = \"1\";\nif (req.http.X-A) {\n  include \"s1\";\n}\n"
	case "stmt-mutual-nested":
		recvExtra = append(recvExtra, "  include \"s1\";")
		c.Modules["s1"] = "if (req.http.X-A) {\n  set req.http.X-S1 = \"1\";\n} else {\n  include \"s2\";\n}\n"
		c.Modules["s2"] = "switch (req.http.X-A) {\ncase \"a\":\n  include \"s1\";\n  break;\n}\n"
	case "stmt-sibling-then-self":
		recvExtra = append(recvExtra, "  include \"s1\";")
		c.Modules["s1"] = "include \"s2\";\ninclude \"s1\";\n"
		c.Modules["s2"] = "set req.http.X-S2 = \"1\";\n"
	case "stmt-missing":
		recvExtra = append(recvExtra, "  include \"nope\";")
	case "root-present":
		c.Prelude += "include \"m1\";\n"
		c.Modules["m1"] = "sub from_m1 {\n  set req.http.X-M1 = \"1\";\n  set req.http.X-E = std.nope(\"a\");\n}\n"
		recvExtra = append(recvExtra, "  call from_m1;")
	case "root-missing":
		c.Prelude += "include \"nope\";\n"
	case "root-self":
		c.Prelude += "include \"m1\";\n"
		c.Modules["m1"] = "include \"m1\";\nsub from_m1 {\n  set req.http.X-M1 = \"1\";\n}\n"
	case "root-mutual":
		c.Prelude += "include \"m1\";\n"
		c.Modules["m1"] = "include \"m2\";\nsub from_m1 {\n  set req.http.X-M1 = \"1\";\n}\n"
		c.Modules["m2"] = "include \"m1\";\nsub from_m2 {\n  set req.http.X-M2 = \"1\";\n}\n"
	}
	if rapid.Bool().Draw(t, "recv-return") {
		recvExtra = append(recvExtra, "  if (req.http.X-P) {\n    return(pass);\n  }", "  return(lookup);")
	}
	c.Subs = append(c.Subs, renderSub("sub vcl_recv", "recv", append(g.declares(), g.block(0, 1, 5)...), recvExtra))
	// a statement module included in a lifecycle subroutine other than vcl_recv, followed by statements that are
	// only valid in that subroutine's scope and by a use of a local declared before the include statement
	incLife := rapid.IntRange(0, 3).Draw(t, "include-in-lifecycle") == 0
	if incLife {
		c.Modules["sd"] = "set req.http.X-SD = \"1\";\n"
		feat["include-in-lifecycle-sub"] = true
	}
	if rapid.Bool().Draw(t, "deliver") || incLife {
		extra := calls(nUser, -1)
		if incLife {
			extra = append(extra, "  include \"sd\";", "  set resp.http.X-After = var.s \"1\";")
		}
		c.Subs = append(c.Subs, renderSub("sub vcl_deliver", "deliver", append(g.declares(), g.block(0, 1, 3)...), append(extra, "  return(deliver);")))
	}
	if rapid.IntRange(0, 3).Draw(t, "fetch") == 0 || incLife {
		extra := calls(nUser, -1)
		if incLife {
			extra = append(extra, "  include \"sd\";", "  set beresp.ttl = 10s;", "  set var.s = \"after\";")
		}
		c.Subs = append(c.Subs, renderSub("sub vcl_fetch", "fetch", append(g.declares(), g.block(0, 1, 3)...), extra))
	}
	c.Perm = rapid.Permutation(seq(len(c.Subs))).Draw(t, "perm")
	for k := range feat {
		c.Feat = append(c.Feat, k)
	}
	sort.Strings(c.Feat)
	return c
}

func seq(n int) []int {
	out := make([]int, n)
	for i := range out {
		out[i] = i
	}
	return out
}

type c11Run struct {
	diags []locDiag
	fatal string
	parse string
	panic string
}

func lintWithModules(src string, modules map[string]string) (r c11Run) {
	vcl, err := parser.New(lexer.NewFromString(src, lexer.WithFile("main.vcl"))).ParseVCL()
	if err != nil {
		r.parse = err.Error()
		return
	}
	return lintTree(vcl, src, modules)
}

func lintTree(vcl *ast.VCL, src string, modules map[string]string) (r c11Run) {
	defer func() {
		if e := recover(); e != nil {
			r.panic = fmt.Sprintf("%v", e)
		}
	}()
	lt := linter.New(&config.LinterConfig{})
	lt.Lint(vcl, lcontext.New(lcontext.WithResolver(&mapResolver{main: src, modules: modules})))
	if lt.FatalError != nil {
		r.fatal = fmt.Sprintf("%v", lt.FatalError.Error)
	}
	for _, e := range lt.Errors {
		r.diags = append(r.diags, locDiag{string(e.Rule), string(e.Severity), e.Message, e.Token.Line, e.Token.Position})
	}
	sortDiags(r.diags)
	return
}

func unlocated(ds []locDiag) []string {
	var out []string
	for _, d := range ds {
		out = append(out, fmt.Sprintf("[%s/%s] %s", d.Severity, d.Rule, d.Message))
	}
	sort.Strings(out)
	return out
}

func checkC11(raw json.RawMessage) iso.Result {
	var c C11Case
	if err := json.Unmarshal(raw, &c); err != nil {
		return iso.Failf("bad case: %v", err)
	}
	col := iso.NewCollector("C11")
	col.Label(c.Feat...)
	src := c.Prelude + strings.Join(c.Subs, "")
	first := lintWithModules(src, c.Modules)
	if first.parse != "" {
		col.Failf("harness: generated program does not parse: %s\n%s", first.parse, numbered(src))
		return col.Done()
	}
	if first.panic != "" {
		col.FailKey(c11Key(c, "panic"), "linter panicked: %s\n%s", first.panic, numbered(src))
		return col.Done()
	}
	// determinism
	for i := 0; i < 4; i++ {
		again := lintWithModules(src, c.Modules)
		if fmt.Sprint(again) != fmt.Sprint(first) {
			col.FailKey(c11Key(c, "nondeterministic"), "two lint runs of the same program differ\n run 1: %d diagnostics fatal=%q\n run %d: %d diagnostics fatal=%q\n%s\n%s", len(first.diags), first.fatal, i+2, len(again.diags), again.fatal, locDiff(first.diags, again.diags), numbered(src))
			return col.Done()
		}
	}
	// determinism over one parsed tree: linting must not change the tree it is given
	if vcl, err := parser.New(lexer.NewFromString(src, lexer.WithFile("main.vcl"))).ParseVCL(); err == nil {
		for i := 0; i < 3; i++ {
			again := lintTree(vcl, src, c.Modules)
			if fmt.Sprint(again) != fmt.Sprint(first) {
				col.FailKey(c11Key(c, "tree-mutated"), "linting the same parsed tree again (run %d, fresh Linter and Context) gives other diagnostics: linting changed its input\n first: %d diagnostics fatal=%q\n again: %d diagnostics fatal=%q\n%s\n%s", i+1, len(first.diags), first.fatal, len(again.diags), again.fatal, locDiff(first.diags, again.diags), numbered(src))
				return col.Done()
			}
		}
	}
	// inclusion is textual: the program with the module's statements written in place of the include statement
	// gives the same diagnostics (locations aside)
	if strings.Contains(src, "  include \"sd\";\n") {
		isrc := strings.ReplaceAll(src, "  include \"sd\";\n", "  "+c.Modules["sd"])
		in := lintWithModules(isrc, c.Modules)
		a, b := unlocated(first.diags), unlocated(in.diags)
		if in.panic != "" || first.fatal != in.fatal || strings.Join(a, "\n") != strings.Join(b, "\n") {
			col.FailKey(c11Key(c, "inline"), "writing the statements of module sd in place of `include \"sd\";` changes the diagnostics (panic %q, fatal %q vs %q)\n%s\n--- with include ---\n%s\n--- inlined ---\n%s", in.panic, first.fatal, in.fatal, strDiff(a, b), numbered(src), numbered(isrc))
			return col.Done()
		}
		col.Label("checked:include-equals-inlined")
	}
	// order independence
	var perm []string
	for _, i := range c.Perm {
		perm = append(perm, c.Subs[i])
	}
	psrc := c.Prelude + strings.Join(perm, "")
	p := lintWithModules(psrc, c.Modules)
	if p.panic != "" {
		col.FailKey(c11Key(c, "panic"), "linter panicked on the permuted program: %s\n%s", p.panic, numbered(psrc))
		return col.Done()
	}
	a, b := unlocated(first.diags), unlocated(p.diags)
	if first.fatal != p.fatal || strings.Join(a, "\n") != strings.Join(b, "\n") {
		col.FailKey(c11Key(c, "order"), "permuting the subroutine declarations changed the diagnostics (fatal %q vs %q)\n%s\n--- original ---\n%s\n--- permuted ---\n%s", first.fatal, p.fatal, strDiff(a, b), numbered(src), numbered(psrc))
		return col.Done()
	}
	col.Count("diagnostics", len(first.diags))
	edges := false
	for _, f := range c.Feat {
		if f == "call-edge" || strings.HasPrefix(f, "include:") {
			edges = true
		}
	}
	if edges && len(first.diags) >= 2 {
		col.Res.NonTrivial = true
	}
	return col.Done()
}

func strDiff(a, b []string) string {
	cnt := map[string]int{}
	for _, x := range a {
		cnt[x]++
	}
	for _, x := range b {
		cnt[x]--
	}
	var out []string
	for k, n := range cnt {
		if n > 0 {
			out = append(out, fmt.Sprintf(" only original (%d): %s", n, k))
		} else if n < 0 {
			out = append(out, fmt.Sprintf(" only permuted (%d): %s", -n, k))
		}
	}
	sort.Strings(out)
	return strings.Join(out, "\n")
}

// c11Key: classifier of known findings (filled in during triage).
func c11Key(c C11Case, sig string) string { return "" }
