package props

import (
	"fmt"
	"os"
	"strconv"
	"strings"
	"time"

	"pgregory.net/rapid"
)

// C20 — VCL generated from remote and Terraform resources is valid and faithful.
//
// The case is a set of Fastly resources (plain data). The check feeds it
// (i) through a fake snippet.Fetcher into snippet.Fetch + Snippets.EmbedSnippets,
// (ii) as a Terraform plan JSON through terraform.ParseStdin + NewTerraformFetcher
// into the same entry points, (iii, a third of the cases) as Fastly API JSON
// documents served by a fake http.RoundTripper to remote.NewFastlyApiFetcher
// (c20_api.go), and (iv, thorough tier, sampled) through the `falco terraform` CLI. The oracle parses every generated item with falco's
// parser and compares the declarations with the resource data (c20_check.go).

type C20Item struct {
	K string `json:"k"`
	V string `json:"v"`
}

type C20Dict struct {
	Name  string    `json:"name"`
	Items []C20Item `json:"items,omitempty"`
	// Fastly API path only: a private dictionary. Its items cannot be listed, so
	// the table generated from the API is empty; the other paths ignore the flag.
	WriteOnly bool `json:"write_only,omitempty"`
}

type C20Entry struct {
	IP      string `json:"ip"`
	Subnet  *int   `json:"subnet,omitempty"` // nil = no mask
	Neg     bool   `json:"neg,omitempty"`
	Comment string `json:"comment,omitempty"`
	// Terraform spelling of an absent subnet: false = "", true = null
	NullSubnet bool `json:"nullsubnet,omitempty"`
}

type C20Acl struct {
	Name    string     `json:"name"`
	Entries []C20Entry `json:"entries,omitempty"`
}

type C20Backend struct {
	Name    string  `json:"name"`
	Address *string `json:"address,omitempty"`
	Shield  *string `json:"shield,omitempty"`
}

type C20Director struct {
	Name     string   `json:"name"`
	Type     int      `json:"type"`
	Backends []string `json:"backends,omitempty"` // backend resource names
	Retries  int      `json:"retries"`
	Quorum   int      `json:"quorum"`
}

type C20Cond struct {
	Name      string `json:"name"`
	Type      string `json:"type"` // REQUEST | CACHE | RESPONSE
	Statement string `json:"statement"`
	Priority  int    `json:"priority"`
}

type C20Header struct {
	Name        string `json:"name"`
	Type        string `json:"type"`   // request | cache | response
	Action      string `json:"action"` // set | append | delete | regex | regex_repeat
	Dest        string `json:"dest"`
	Source      string `json:"source,omitempty"`
	Regex       string `json:"regex,omitempty"`
	Subst       string `json:"subst,omitempty"`
	IgnoreIfSet bool   `json:"ignore_if_set,omitempty"`
	Cond        string `json:"cond,omitempty"` // condition name, "" = none
	Priority    int    `json:"priority"`
}

type C20Resp struct {
	Name        string `json:"name"`
	Status      int    `json:"status"`
	Response    string `json:"response"`
	ContentType string `json:"content_type"`
	Content     string `json:"content,omitempty"`
	ReqCond     string `json:"req_cond,omitempty"`
	CacheCond   string `json:"cache_cond,omitempty"`
}

type C20Snip struct {
	Name     string `json:"name"`
	Type     string `json:"type"` // init recv hash hit miss pass fetch error deliver log none
	Content  string `json:"content"`
	Priority int    `json:"priority"`
	Dynamic  bool   `json:"dynamic,omitempty"` // Terraform: dynamicsnippet + fastly_service_dynamic_snippet_content
}

// C20Layout varies the shape of the Terraform plan (and two call options).
type C20Layout struct {
	V1         bool `json:"v1,omitempty"`          // resource type fastly_service_v1
	SvcDepth   int  `json:"svc_depth,omitempty"`   // service nested this deep in child_modules
	EntryDepth int  `json:"entry_depth,omitempty"` // entry/item resources nested this deep (other branch)
	Decoy      bool `json:"decoy,omitempty"`       // second service with equally named resources
	Foreign    bool `json:"foreign,omitempty"`     // same resource types from another provider + unrelated resources
	SetName    bool `json:"set_name,omitempty"`    // TerraformFetcher.SetName(service) (always with Decoy)
	TLS        bool `json:"tls,omitempty"`         // EmbedSnippets(enableTLS)
	ForceSSL   int  `json:"force_ssl,omitempty"`   // 0 no request setting, 1 force_ssl=false, 2 force_ssl=true
	CLI        bool `json:"cli,omitempty"`         // thorough tier: also run `falco terraform`
	API        bool `json:"api,omitempty"`         // also read the case through remote.NewFastlyApiFetcher over a fake api.fastly.com
	Version    int  `json:"version,omitempty"`     // API path: number of the active service version (0 = 1)
	Cache      bool `json:"cache,omitempty"`       // API path: also WriteCache + LookupCache by a second fetcher (XDG_CACHE_HOME in a temp dir)
}

type C20Case struct {
	Service   string        `json:"service"`
	Dicts     []C20Dict     `json:"dicts,omitempty"`
	Acls      []C20Acl      `json:"acls,omitempty"`
	Backends  []C20Backend  `json:"backends,omitempty"`
	Directors []C20Director `json:"directors,omitempty"`
	Conds     []C20Cond     `json:"conds,omitempty"`
	Headers   []C20Header   `json:"headers,omitempty"`
	Resps     []C20Resp     `json:"resps,omitempty"`
	Snips     []C20Snip     `json:"snips,omitempty"`
	Layout    C20Layout     `json:"layout"`
}

func init() {
	register("C20",
		"resource sets drawn by rapid: edge dictionaries (keys/values = printable text weighted toward \" % { } \\ newline %20 %u0041 \"} empty long unicode), ACLs (IPv4/IPv6, subnet absent/0/n, negated, comments with the same hostile text), backends and directors (names with - space . that falco sanitises, address/shield present/absent, membership), conditions, header rules (5 actions x 3 phases, ignore_if_set, condition), response objects, VCL snippets (typed, none, dynamic), request setting; fed through a fake snippet.Fetcher, as Terraform plan JSON (v1/vcl type, child modules, decoy service, foreign provider) and, in a third of the cases, as Fastly API JSON (fake RoundTripper under remote.NewFastlyApiFetcher: version, dictionary+items, write-only dictionary, acl+entries with subnet null/absent/0/n and negated 0/1 strings, backend, director, snippet incl. dynamic content, condition, header, response_object, request_settings, logging; optionally the WriteCache/LookupCache round trip) into snippet.Fetch + EmbedSnippets. oracle: every item parses (ParseVCL / ParseSnippetVCL); tables have exactly the input (key, decoded value) pairs, ACLs exactly the input address/mask/negation in order, backends/directors the sanitised name, host and members; nothing extra or missing. non-trivial: >=1 value with a character special in VCL strings (\" % { } \\ newline), or a name needing sanitising, or an IPv6/negated ACL entry; distinct by case",
		genC20, checkC20, 20*time.Second)
}

// ---------------------------------------------------------------------------
// Generator

var c20Reserved = map[string]bool{
	"acl": true, "backend": true, "director": true, "table": true, "sub": true, "add": true, "call": true,
	"declare": true, "error": true, "esi": true, "include": true, "import": true, "log": true, "restart": true,
	"return": true, "set": true, "synthetic": true, "unset": true, "if": true, "else": true, "elseif": true,
	"elsif": true, "true": true, "false": true, "remove": true, "penaltybox": true, "ratecounter": true,
	"goto": true, "switch": true, "case": true, "default": true, "break": true, "fallthrough": true, "pragma": true,
}

const (
	c20Letters = "abcdefghijklmnopqrstuvwxyzABCDEFGHIJKLMNOPQRSTUVWXYZ"
	c20Alnum   = "abcdefghijklmnopqrstuvwxyzABCDEFGHIJKLMNOPQRSTUVWXYZ0123456789_"
)

func c20Chars(t *rapid.T, label, alphabet string, min, max int) string {
	n := rapid.IntRange(min, max).Draw(t, label+"-len")
	var b strings.Builder
	for i := 0; i < n; i++ {
		b.WriteByte(alphabet[rapid.IntRange(0, len(alphabet)-1).Draw(t, label)])
	}
	return b.String()
}

// c20Ident draws a name made of identifier characters only (what Fastly
// accepts for dictionaries and ACLs), never a VCL keyword.
func c20Ident(t *rapid.T, label string) string {
	s := c20Chars(t, label+"-first", c20Letters, 1, 1) + c20Chars(t, label, c20Alnum, 0, pick(8, 20))
	if c20Reserved[strings.ToLower(s)] {
		s += "_"
	}
	return s
}

// c20LooseName draws a backend/director name: identifier segments joined by
// '-', ' ', '.' (Fastly accepts these; falco must sanitise them).
func c20LooseName(t *rapid.T, label string) string {
	s := c20Ident(t, label)
	n := rapid.IntRange(0, 3).Draw(t, label+"-segs")
	for i := 0; i < n; i++ {
		s += rapid.SampledFrom([]string{"-", " ", ".", "_", "--", " - ", ". "}).Draw(t, label+"-sep")
		s += c20Chars(t, label+"-seg", c20Alnum, 1, 6)
	}
	return s
}

func c20Sanitise(name string) string {
	var b strings.Builder
	for _, r := range name {
		if r >= 'a' && r <= 'z' || r >= 'A' && r <= 'Z' || r >= '0' && r <= '9' || r == '_' {
			b.WriteRune(r)
		} else {
			b.WriteByte('_')
		}
	}
	return b.String()
}

func c20NeedsSanitising(name string) bool { return c20Sanitise(name) != name }

// uniq makes name unique within used under the projection key.
func c20Uniq(used map[string]bool, name string, key func(string) string) string {
	for i := 0; used[key(name)]; i++ {
		name = fmt.Sprintf("%s_%d", name, i)
	}
	used[key(name)] = true
	return name
}

// Text fragments. Index 0 is the simplest.
var (
	c20Plain    = []string{"a", "value", "x y", " ", "0", "example.com", "Hello, World", "k1", "/path?q=1&r=2", "b"}
	c20Special  = []string{"{", "}", "\\", "\n", "{\"", "#", ";", "//", "/*", "*/", "\t", "\\n", "\\\"x", "}}", "{{ .Value }}", "'", "`", "$1", "\n\n", " \n "}
	c20QuotePct = []string{"\"", "%", "%20", "%u0041", "\"}", "%41", "%25", "%0A", "%00", "%zz", "%u{1F600}", "%C3%A9", "\",", "\": \"", "100%", "%%", "\"\"", "%2", "%u00"}
	c20Unicode  = []string{"é", "日本語", "ß", "→", "😀", "Ω"}
	c20Inject   = []string{"\n\"6.6.6.6\";", "\n!\"10.0.0.0\"/8;", "\nhello", "\n}", "\n# still a comment", "\n", "a\nb", "\n\"::1\"/128; #"}
)

type c20TextOpt struct {
	quotePct bool // may contain " and %
	newline  bool // may contain LF
	closer   bool // may contain the two characters "}
	inject   bool // ACL comment: prefer fragments that continue on a new line
	nonEmpty bool
}

func c20Text(t *rapid.T, label string, o c20TextOpt) string {
	n := rapid.IntRange(0, pick(4, 7)).Draw(t, label+"-n")
	var b strings.Builder
	for i := 0; i < n; i++ {
		k := rapid.IntRange(0, 11).Draw(t, label+"-kind")
		switch {
		case k <= 3:
			b.WriteString(rapid.SampledFrom(c20Plain).Draw(t, label+"-plain"))
		case k <= 6:
			b.WriteString(rapid.SampledFrom(c20Special).Draw(t, label+"-special"))
		case k <= 8:
			switch {
			case o.inject:
				b.WriteString(rapid.SampledFrom(c20Inject).Draw(t, label+"-inject"))
			case o.quotePct:
				b.WriteString(rapid.SampledFrom(c20QuotePct).Draw(t, label+"-qp"))
			default:
				b.WriteString(rapid.SampledFrom(c20Special).Draw(t, label+"-special2"))
			}
		case k == 9:
			b.WriteRune(rune(rapid.IntRange(0x20, 0x7e).Draw(t, label+"-ascii")))
		case k == 10:
			b.WriteString(rapid.SampledFrom(c20Unicode).Draw(t, label+"-uni"))
		default:
			if rapid.IntRange(0, 5).Draw(t, label+"-long") == 5 {
				ch := rapid.SampledFrom([]string{"x", "ab ", "}", "\\", "é"}).Draw(t, label+"-longch")
				ln := rapid.SampledFrom([]int{64, 255, 256, 1000, pick(3000, 8000)}).Draw(t, label+"-longn")
				b.WriteString(strings.Repeat(ch, ln/len(ch)))
			} else {
				b.WriteString(rapid.SampledFrom(c20Plain).Draw(t, label+"-plain2"))
			}
		}
	}
	s := b.String()
	if !o.quotePct {
		s = strings.NewReplacer("\"", "'", "%", "_").Replace(s)
	}
	if !o.newline {
		s = strings.ReplaceAll(s, "\n", " ")
	}
	if !o.closer {
		for strings.Contains(s, "\"}") {
			s = strings.ReplaceAll(s, "\"}", "\" }")
		}
	}
	if o.nonEmpty && s == "" {
		s = "k"
	}
	return s
}

func c20IP(t *rapid.T, label string) (ip string, v6 bool) {
	k := rapid.IntRange(0, 9).Draw(t, label+"-family")
	if k <= 5 {
		oct := func() int {
			if rapid.IntRange(0, 2).Draw(t, label+"-octk") == 0 {
				return rapid.SampledFrom([]int{0, 10, 127, 192, 255, 1}).Draw(t, label+"-oct")
			}
			return rapid.IntRange(0, 255).Draw(t, label+"-oct")
		}
		return fmt.Sprintf("%d.%d.%d.%d", oct(), oct(), oct(), oct()), false
	}
	if k <= 7 {
		return rapid.SampledFrom([]string{"::1", "::", "2001:db8::1", "fe80::1", "2001:db8::", "::ffff:192.0.2.1", "2001:DB8:0:0:8:800:200C:417A", "ff02::2", "2a04:4e42::", "64:ff9b::192.0.2.33"}).Draw(t, label+"-v6"), true
	}
	// eight explicit groups
	var gs []string
	for i := 0; i < 8; i++ {
		gs = append(gs, fmt.Sprintf("%x", rapid.IntRange(0, 0xffff).Draw(t, label+"-grp")))
	}
	return strings.Join(gs, ":"), true
}

var c20Shields = []string{"tyo-tokyo-jp", "iad-va-us", "bwi-va-us", "london_city-uk", "sjc-ca-us", "amsterdam-nl", "mdw-il-us"}

var c20CondStatements = map[string][]string{
	"REQUEST":  {`req.url ~ "^/api"`, `req.http.Host == "example.com"`, `!req.http.Cookie`, `req.url.path ~ "\.(png|jpg)$" && req.request == "GET"`, `client.ip ~ blocklist`, `req.http.X-Flag`},
	"CACHE":    {`beresp.status == 404`, `beresp.status >= 500 && beresp.status < 600`, `beresp.http.Content-Type ~ "^text/"`, `!beresp.http.Cache-Control`},
	"RESPONSE": {`resp.status == 503`, `resp.http.X-Cache ~ "HIT"`, `req.url ~ "^/static/"`},
}

var c20Sources = []string{`"1"`, `"value"`, `req.http.Origin`, `req.url`, `client.ip`, `"max-age=" "3600"`, `regsub(req.url, "^/", "")`, `"a" + req.http.B`, `now`, `"100%25"`, `{"long "string"}`, `req.http.Cookie:sid`, `if(req.http.A, "x", "y")`}

var c20Regexes = []string{`^/foo/([^/]+)/`, `.*`, `(\d+)`, `^https?://`, `\.(?:jpe?g|png)$`, `a|b`, `[{}]`, `\s+$`}

var c20Substs = []string{`$1`, ``, `/bar/\1`, `x`, `\0-\1`}

var c20ContentTypes = []string{"text/html", "application/json", "text/plain; charset=utf-8", "text/html; charset=UTF-8", "application/problem+json", ""}

// snippet contents: valid VCL for the snippet's scope, taken verbatim by falco
var c20InitSnips = []string{
	"sub c20_helper {\n  set req.http.X-Helper = \"1\";\n}",
	"table c20_init_table {\n  \"a\": \"b\",\n}",
	"acl c20_init_acl {\n  \"192.0.2.0\"/24;\n}",
	"# only a comment\n",
	"backend c20_init_backend {\n  .host = \"example.org\";\n}\nsub c20_helper2 {\n  return;\n}",
}

var c20ScopedSnips = []string{
	`set req.http.X-S = "1";`,
	"if (req.url ~ \"^/x\") {\n  set req.http.X-Y = {\"a \"quoted\" value\"};\n}",
	`unset req.http.Cookie;`,
	"# comment only",
	"set req.http.A = \"a%20b\";\nset req.http.B = req.http.A \"x\";",
	`log "syslog " req.service_id " ep :: " req.url;`,
	`declare local var.s STRING; set var.s = "x";`,
}

var c20SnipTypes = []string{"recv", "init", "none", "fetch", "deliver", "error", "hit", "miss", "pass", "hash", "log"}

func genC20(t *rapid.T) any {
	c := C20Case{Service: "svc"}

	// Avoid-weights (§1.7): each known trigger is enabled in 2.5 % of the cases
	// only, so that >= 90 % of the cases are free of all known triggers and are
	// checked in full. The value 0 (= the common, shrunk case) is "off".
	// VERIF_C20_HOSTILE=1 (development aid, e.g. to test a proposed repair with
	// VERIF_REPO) enables all of them in every case.
	all := os.Getenv("VERIF_C20_HOSTILE") == "1"
	hostileDict := rapid.IntRange(0, 39).Draw(t, "trigger-dict-quote-percent") == 39 || all
	hostileComment := rapid.IntRange(0, 39).Draw(t, "trigger-acl-comment-newline") == 39 || all
	dirtyMembers := rapid.IntRange(0, 39).Draw(t, "trigger-director-dirty-member") == 39 || all
	hostileContent := rapid.IntRange(0, 39).Draw(t, "trigger-response-closer") == 39 || all

	ident := func(s string) string { return s }

	// --- dictionaries
	usedDict := map[string]bool{}
	for i, n := 0, rapid.IntRange(0, 3).Draw(t, "ndicts"); i < n; i++ {
		d := C20Dict{Name: c20Uniq(usedDict, c20Ident(t, "dict-name"), ident)}
		usedKeys := map[string]bool{}
		for j, m := 0, rapid.IntRange(0, pick(5, 14)).Draw(t, "nitems"); j < m; j++ {
			o := c20TextOpt{quotePct: hostileDict, newline: true, closer: hostileDict}
			ko := o
			ko.nonEmpty = true
			k := c20Uniq(usedKeys, c20Text(t, "dict-key", ko), ident)
			d.Items = append(d.Items, C20Item{K: k, V: c20Text(t, "dict-value", o)})
		}
		d.WriteOnly = rapid.IntRange(0, 5).Draw(t, "dict-write-only") == 5
		c.Dicts = append(c.Dicts, d)
	}

	// --- ACLs
	usedAcl := map[string]bool{}
	for i, n := 0, rapid.IntRange(0, 3).Draw(t, "nacls"); i < n; i++ {
		a := C20Acl{Name: c20Uniq(usedAcl, c20Ident(t, "acl-name"), ident)}
		for j, m := 0, rapid.IntRange(0, pick(5, 12)).Draw(t, "nentries"); j < m; j++ {
			ip, v6 := c20IP(t, "acl-ip")
			e := C20Entry{IP: ip}
			switch rapid.IntRange(0, 3).Draw(t, "subnet-kind") {
			case 0:
				e.NullSubnet = rapid.Bool().Draw(t, "subnet-null")
			case 1:
				z := 0
				e.Subnet = &z
			default:
				max := 32
				if v6 {
					max = 128
				}
				s := rapid.IntRange(1, max).Draw(t, "subnet")
				e.Subnet = &s
			}
			e.Neg = rapid.IntRange(0, 3).Draw(t, "negated") == 3
			if rapid.IntRange(0, 2).Draw(t, "has-comment") > 0 {
				e.Comment = c20Text(t, "acl-comment", c20TextOpt{quotePct: true, newline: hostileComment, closer: true, inject: hostileComment})
			}
			a.Entries = append(a.Entries, e)
		}
		c.Acls = append(c.Acls, a)
	}

	// --- backends
	usedBackend := map[string]bool{}
	var cleanBackends, allBackends []string
	for i, n := 0, rapid.IntRange(0, 4).Draw(t, "nbackends"); i < n; i++ {
		var name string
		if rapid.Bool().Draw(t, "backend-loose") {
			name = c20LooseName(t, "backend-name")
		} else {
			name = c20Ident(t, "backend-name")
		}
		b := C20Backend{Name: c20Uniq(usedBackend, name, c20Sanitise)}
		switch rapid.IntRange(0, 5).Draw(t, "address-kind") {
		case 0:
		case 1:
			a, _ := c20IP(t, "backend-ip")
			b.Address = &a
		default:
			a := strings.ToLower(c20Chars(t, "host", c20Letters, 1, 8)) + rapid.SampledFrom([]string{".com", ".example.org", ".internal", "-origin.s3.amazonaws.com"}).Draw(t, "tld")
			b.Address = &a
		}
		switch rapid.IntRange(0, 4).Draw(t, "shield-kind") {
		case 0, 1:
		case 2:
			e := ""
			b.Shield = &e
		default:
			s := rapid.SampledFrom(c20Shields).Draw(t, "shield")
			b.Shield = &s
		}
		c.Backends = append(c.Backends, b)
		allBackends = append(allBackends, b.Name)
		if !c20NeedsSanitising(b.Name) {
			cleanBackends = append(cleanBackends, b.Name)
		}
	}

	// --- directors (members are existing backends)
	usedDir := map[string]bool{}
	{
		for i, n := 0, rapid.IntRange(0, 3).Draw(t, "ndirectors"); i < n; i++ {
			var name string
			if rapid.Bool().Draw(t, "director-loose") {
				name = c20LooseName(t, "director-name")
			} else {
				name = c20Ident(t, "director-name")
			}
			if san := c20Sanitise(name); strings.HasPrefix(san, "F_") || strings.HasPrefix(san, "ssl_shield_") || c20Reserved[san] {
				name = "d" + name
			}
			d := C20Director{
				Name:    c20Uniq(usedDir, name, c20Sanitise),
				Type:    rapid.SampledFrom([]int{1, 1, 3, 4, 2}).Draw(t, "director-type"),
				Retries: rapid.SampledFrom([]int{5, 0, 1, 10}).Draw(t, "retries"),
				Quorum:  rapid.SampledFrom([]int{75, 0, 1, 50, 100}).Draw(t, "quorum"),
			}
			pool := cleanBackends
			if dirtyMembers {
				pool = allBackends
			}
			if len(pool) > 0 {
				for j, m := 0, rapid.IntRange(0, 3).Draw(t, "nmembers"); j < m; j++ {
					d.Backends = append(d.Backends, pool[rapid.IntRange(0, len(pool)-1).Draw(t, "member")])
				}
			}
			c.Directors = append(c.Directors, d)
		}
	}

	// --- conditions, header rules, response objects
	condNames := map[string][]string{}
	usedCond := map[string]bool{}
	for i, n := 0, rapid.IntRange(0, 3).Draw(t, "nconds"); i < n; i++ {
		typ := rapid.SampledFrom([]string{"REQUEST", "CACHE", "RESPONSE"}).Draw(t, "cond-type")
		name := c20Uniq(usedCond, rapid.SampledFrom([]string{"cond", "Generated by IP block list", "is api", "404 \"page\"", "c-1"}).Draw(t, "cond-name"), ident)
		c.Conds = append(c.Conds, C20Cond{
			Name: name, Type: typ,
			Statement: rapid.SampledFrom(c20CondStatements[typ]).Draw(t, "cond-stmt"),
			Priority:  rapid.IntRange(0, 100).Draw(t, "cond-prio"),
		})
		condNames[typ] = append(condNames[typ], name)
	}
	pickCond := func(typ, label string) string {
		names := condNames[typ]
		if len(names) == 0 || rapid.Bool().Draw(t, label+"-none") {
			return ""
		}
		return names[rapid.IntRange(0, len(names)-1).Draw(t, label)]
	}
	usedHeader := map[string]bool{}
	for i, n := 0, rapid.IntRange(0, 3).Draw(t, "nheaders"); i < n; i++ {
		typ := rapid.SampledFrom([]string{"request", "cache", "response"}).Draw(t, "header-type")
		h := C20Header{
			Name:        c20Uniq(usedHeader, rapid.SampledFrom([]string{"h", "add header", "X-Foo rule", "strip-cookies"}).Draw(t, "header-name"), ident),
			Type:        typ,
			Action:      rapid.SampledFrom([]string{"set", "append", "delete", "regex", "regex_repeat"}).Draw(t, "header-action"),
			Dest:        "http." + rapid.SampledFrom([]string{"X-Foo", "Cache-Control", "x_under", "Set-Cookie", "X-1"}).Draw(t, "header-dest"),
			Source:      rapid.SampledFrom(c20Sources).Draw(t, "header-source"),
			IgnoreIfSet: rapid.Bool().Draw(t, "ignore-if-set"),
			Cond:        pickCond(strings.ToUpper(typ), "header-cond"),
			Priority:    rapid.IntRange(0, 100).Draw(t, "header-prio"),
		}
		if h.Action == "regex" || h.Action == "regex_repeat" {
			h.Regex = rapid.SampledFrom(c20Regexes).Draw(t, "header-regex")
			h.Subst = rapid.SampledFrom(c20Substs).Draw(t, "header-subst")
		}
		c.Headers = append(c.Headers, h)
	}
	usedResp := map[string]bool{}
	for i, n := 0, rapid.IntRange(0, 2).Draw(t, "nresps"); i < n; i++ {
		r := C20Resp{
			Name:        c20Uniq(usedResp, rapid.SampledFrom([]string{"r", "Generated by synthetic response for robots.txt", "maintenance page"}).Draw(t, "resp-name"), ident),
			Status:      rapid.SampledFrom([]int{200, 403, 404, 503, 301}).Draw(t, "resp-status"),
			Response:    rapid.SampledFrom([]string{"OK", "Forbidden", "Not Found", "Service Unavailable"}).Draw(t, "resp-response"),
			ContentType: rapid.SampledFrom(c20ContentTypes).Draw(t, "resp-ctype"),
		}
		if rapid.IntRange(0, 3).Draw(t, "resp-has-content") > 0 {
			r.Content = c20Text(t, "resp-content", c20TextOpt{quotePct: true, newline: true, closer: hostileContent})
			if hostileContent && rapid.Bool().Draw(t, "resp-json") {
				r.Content = `{"error":"` + r.Content + `"}`
			}
		}
		switch rapid.IntRange(0, 2).Draw(t, "resp-cond-kind") {
		case 1:
			r.ReqCond = pickCond("REQUEST", "resp-req-cond")
		case 2:
			r.CacheCond = pickCond("CACHE", "resp-cache-cond")
		}
		c.Resps = append(c.Resps, r)
	}

	// --- VCL snippets
	usedSnip := map[string]bool{}
	for i, n := 0, rapid.IntRange(0, 3).Draw(t, "nsnips"); i < n; i++ {
		typ := rapid.SampledFrom(c20SnipTypes).Draw(t, "snip-type")
		s := C20Snip{
			Name:     c20Uniq(usedSnip, rapid.SampledFrom([]string{"snip", "my snippet", "example_recv", "s-2"}).Draw(t, "snip-name"), ident),
			Type:     typ,
			Priority: rapid.SampledFrom([]int{100, 0, 10, 1000}).Draw(t, "snip-prio"),
			Dynamic:  rapid.IntRange(0, 3).Draw(t, "snip-dynamic") == 3,
		}
		if typ == "init" {
			s.Content = rapid.SampledFrom(c20InitSnips).Draw(t, "snip-init-content")
		} else {
			s.Content = rapid.SampledFrom(c20ScopedSnips).Draw(t, "snip-content")
		}
		c.Snips = append(c.Snips, s)
	}

	// --- plan layout / call options
	l := &c.Layout
	l.V1 = rapid.IntRange(0, 3).Draw(t, "layout-v1") == 3
	l.SvcDepth = rapid.SampledFrom([]int{0, 0, 1, 2}).Draw(t, "layout-svc-depth")
	l.EntryDepth = rapid.SampledFrom([]int{0, 0, 1, 2}).Draw(t, "layout-entry-depth")
	l.Decoy = rapid.IntRange(0, 3).Draw(t, "layout-decoy") == 3
	l.Foreign = rapid.IntRange(0, 3).Draw(t, "layout-foreign") == 3
	l.SetName = l.Decoy || rapid.Bool().Draw(t, "layout-set-name")
	l.ForceSSL = rapid.SampledFrom([]int{0, 0, 1, 2}).Draw(t, "layout-force-ssl")
	l.TLS = rapid.IntRange(0, 2).Draw(t, "layout-tls") == 2
	// a third of the cases also go through falco's Fastly API client
	l.API = rapid.IntRange(0, 2).Draw(t, "layout-api") == 2
	if l.API {
		l.Version = rapid.SampledFrom([]int{1, 2, 17, 243}).Draw(t, "layout-version")
		l.Cache = rapid.IntRange(0, 3).Draw(t, "layout-cache") == 3
	}
	if Thorough {
		every := 2000
		if n, err := strconv.Atoi(os.Getenv("VERIF_C20_CLI_EVERY")); err == nil && n > 0 {
			every = n
		}
		l.CLI = rapid.IntRange(1, every).Draw(t, "layout-cli") == every
	}
	return c
}
