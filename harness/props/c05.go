package props

import (
	"encoding/json"
	"fmt"
	"os"
	"path/filepath"
	"regexp"
	"sort"
	"strings"
	"sync"
	"time"

	"github.com/ysugimoto/falco/v2/ast"
	"github.com/ysugimoto/falco/v2/config"
	"github.com/ysugimoto/falco/v2/lexer"
	"github.com/ysugimoto/falco/v2/linter"
	lcontext "github.com/ysugimoto/falco/v2/linter/context"
	"github.com/ysugimoto/falco/v2/parser"
	"github.com/ysugimoto/falco/v2/resolver"
	"gopkg.in/yaml.v3"
	"pgregory.net/rapid"

	"verif/iso"
)

// C05 — linter, reference tables and simulator agree on types, scopes and signatures.
//
// A case is one CELL of one of two finite products (see enumC05):
//   product A: operator x left kind x right type x right form, in vcl_recv
//   product B: predefined variable x {get,set,unset}, built-in function x signature (+ one
//              wrong-arity and one wrong-type call), scope-restricted statement, each x scope set
//              (nine single scopes in the lifecycle subroutine, 36 two-scope annotations of a user sub)
// Per cell: T (harness tables), L (linter accepts the probe line), S (simulator runs it).
// Required: L == T (unless T is unspecified) and L => S.

type C05Case struct {
	Product string   `json:"product"`         // A | B
	Kind    string   `json:"kind"`            // assign | compare | var-get | var-set | var-unset | func | func-arity | func-type | stmt | return
	Name    string   `json:"name"`            // variable (YAML key) / function / statement / action; A: "<left kind>/<right kind>"
	Op      string   `json:"op,omitempty"`    // A: operator
	Left    string   `json:"left,omitempty"`  // A: left type
	Right   string   `json:"right,omitempty"` // A: right type
	Form    string   `json:"form,omitempty"`  // A: lit | var
	Sig     int      `json:"sig,omitempty"`   // func: index of the signature in builtin.yml
	Scopes  []string `json:"scopes"`          // one scope (lifecycle sub) or two (annotated user sub)
	Prelude []string `json:"prelude,omitempty"`
	Probe   string   `json:"probe"` // the one-line probe statement
	T       string   `json:"t"`     // allow | deny | unspec
	Why     string   `json:"why"`   // table row / reason T came from
}

func init() {
	register("C05",
		"cells of two finite products. A: {15 assignment, 8 comparison operators} x left kind {local INTEGER FLOAT STRING BOOL RTIME TIME IP BACKEND, header, predefined variable of each type} x right type x right form {literal, local, predefined variable}, in vcl_recv. B: every entry of __generator__/predefined.yml x {get,set,unset}, every signature of __generator__/builtin.yml (+ one wrong-arity, one wrong-type call per function), restart/error/esi/synthetic/synthetic.base64/return(action), each x {nine lifecycle subroutines, 36 two-scope `// @scope: a, b` annotations of a user sub}. Each cell is a one-use program; T = verdict of the harness's own tables (YAML read with yaml.v3; operator/statement tables transcribed as data from the Fastly documentation quoted in falco's comments; T(a,b) = T(a) and T(b)), L = no ERROR diagnostic on the probe line, S = ProcessTestSubroutine in each scope ends without an error of class type/undefined/out-of-scope/arity/argument-type/not-implemented/panic (for return(action) also: the lifecycle dispatch of that scope knows the state). Oracle: L == T (skipped where T is unspecified) and L => S. non-trivial: T is deny or unspecified, or a two-scope cell, or set/unset, or an operator other than = and ==; distinct by cell",
		genC05, checkC05, 20*time.Second)
	enums["C05"] = enumC05
}

// ---------------------------------------------------------------------------
// reference tables read from the YAML

type c05VarSpec struct {
	On         []string `yaml:"on"`
	Get        string   `yaml:"get"`
	Set        string   `yaml:"set"`
	Unset      bool     `yaml:"unset"`
	Deprecated bool     `yaml:"deprecated"`
}

type c05FnSpec struct {
	On        []string   `yaml:"on"`
	Arguments [][]string `yaml:"arguments"`
	Return    string     `yaml:"return"`
}

var (
	c05Once     sync.Once
	c05Vars     map[string]c05VarSpec
	c05VarNames []string
	c05Fns      map[string]c05FnSpec
	c05FnNames  []string
)

func c05Load() {
	c05Once.Do(func() {
		read := func(name string, into any) {
			b, err := os.ReadFile(filepath.Join(RepoDir(), "__generator__", name))
			if err != nil {
				panic(err)
			}
			if err := yaml.Unmarshal(b, into); err != nil {
				panic(err)
			}
		}
		c05Vars = map[string]c05VarSpec{}
		read("predefined.yml", &c05Vars)
		for k := range c05Vars {
			c05VarNames = append(c05VarNames, k)
		}
		sort.Strings(c05VarNames)
		c05Fns = map[string]c05FnSpec{}
		read("builtin.yml", &c05Fns)
		for k := range c05Fns {
			c05FnNames = append(c05FnNames, k)
		}
		sort.Strings(c05FnNames)
	})
}

func c05On(on []string, scope string) bool {
	for _, s := range on {
		if strings.EqualFold(s, scope) {
			return true
		}
	}
	return false
}

func c05OnAll(on []string, scopes []string) (bool, string) {
	for _, s := range scopes {
		if !c05On(on, s) {
			return false, s
		}
	}
	return true, ""
}

// all scope sets: nine singles, then the 36 pairs
func c05ScopeSets() [][]string {
	var out [][]string
	for _, s := range allScopeNames {
		out = append(out, []string{s})
	}
	for i := range allScopeNames {
		for j := i + 1; j < len(allScopeNames); j++ {
			out = append(out, []string{allScopeNames[i], allScopeNames[j]})
		}
	}
	return out
}

// ---------------------------------------------------------------------------
// product A

type c05Operand struct {
	kind string // lit | local | predef | header
	typ  string
	text string   // operand text in the probe
	pre  []string // prelude lines
}

func c05LocalInit(name, typ string, left bool) []string {
	v := map[string][2]string{
		tI: {"6", "3"}, tF: {"2.5", "1.5"}, tS: {`"10.0.0.1"`, `"10.0.0.1"`}, tB: {"true", "true"}, tR: {"10s", "5s"},
		tT: {"now", "now"}, tIP: {`"10.0.0.1"`, `"10.0.0.1"`}, tBE: {"b", "b"},
	}[typ]
	val := v[1]
	if left {
		val = v[0]
	}
	return []string{fmt.Sprintf("declare local %s %s;", name, typ), fmt.Sprintf("set %s = %s;", name, val)}
}

var c05LocalTypes = []string{tI, tF, tS, tB, tR, tT, tIP, tBE}

// predefined variables used as operands in vcl_recv (readable in RECV per predefined.yml; the
// settable ones are the left operands of assignment cells that can be allowed)
var c05PredefOperand = map[string]string{
	tI: "client.socket.cwnd", tF: "client.geo.latitude", tS: "req.url", tB: "req.esi", tR: "req.grace", tT: "now", tIP: "server.ip", tRB: "req.backend",
}
var c05PredefTypes = []string{tI, tF, tS, tB, tR, tT, tIP, tRB}

func c05Lefts() []c05Operand {
	var out []c05Operand
	for _, t := range c05LocalTypes {
		out = append(out, c05Operand{"local", t, "var.l", c05LocalInit("var.l", t, true)})
	}
	out = append(out, c05Operand{"header", tS, "req.http.X-L", []string{`set req.http.X-L = "10.0.0.1";`}})
	for _, t := range c05PredefTypes {
		out = append(out, c05Operand{"predef", t, c05PredefOperand[t], nil})
	}
	return out
}

func c05Rights() []c05Operand {
	out := []c05Operand{
		{"lit", tI, "7", nil}, {"lit", tF, "1.5", nil}, {"lit", tS, `"10.0.0.1"`, nil}, {"lit", tB, "true", nil}, {"lit", tR, "5s", nil},
		{"lit", tBE, "b", nil}, {"lit", tACL, "acl_x", nil},
	}
	for _, t := range c05LocalTypes {
		out = append(out, c05Operand{"local", t, "var.r", c05LocalInit("var.r", t, false)})
	}
	for _, t := range c05PredefTypes {
		out = append(out, c05Operand{"predef", t, c05PredefOperand[t], nil})
	}
	return out
}

func c05EnumA(emit func(C05Case)) {
	c05Load()
	lefts, rights := c05Lefts(), c05Rights()
	ops := append(append([]string{}, c05AssignOps...), c05CompareOps...)
	for _, op := range ops {
		isAssign := c05OpGroup(op) != "equal" && c05OpGroup(op) != "relational" && c05OpGroup(op) != "match"
		for _, l := range lefts {
			for _, r := range rights {
				form := "var"
				if r.kind == "lit" {
					form = "lit"
				}
				c := C05Case{Product: "A", Name: l.kind + ":" + l.typ + "/" + r.kind + ":" + r.typ, Op: op, Left: l.typ, Right: r.typ, Form: form, Scopes: []string{"recv"}}
				c.Prelude = append(append([]string{}, l.pre...), r.pre...)
				if isAssign {
					c.Kind = "assign"
					c.Probe = fmt.Sprintf("set %s %s %s;", l.text, op, r.text)
				} else {
					c.Kind = "compare"
					c.Probe = fmt.Sprintf("if (%s %s %s) { }", l.text, op, r.text)
				}
				c.T, c.Why = c05OpVerdict(op, l.typ, r.typ, form)
				if isAssign && l.kind == "predef" {
					// the YAML decides whether the variable can be written at all
					if spec := c05Vars[l.text]; spec.Set == "" {
						c.T, c.Why = "deny", "predefined.yml: "+l.text+" has no set type (read-only)"
					}
				}
				emit(c)
			}
		}
	}
}

// ---------------------------------------------------------------------------
// product B

func c05Instantiate(name string) string {
	switch {
	case strings.HasPrefix(name, "backend.%any%."):
		return strings.Replace(name, "%any%", "b", 1)
	case strings.HasPrefix(name, "director.%any%."):
		return strings.Replace(name, "%any%", "d", 1)
	case strings.HasPrefix(name, "ratecounter.%any%."):
		return strings.Replace(name, "%any%", "rc", 1)
	}
	return strings.Replace(name, "%any%", "X-Probe", 1)
}

// a value of the given type, with the prelude it needs
func c05ValueOf(typ string) (string, []string) {
	switch typ {
	case tI:
		return "1", nil
	case tF:
		return "1.5", nil
	case tS:
		return `"abc"`, nil
	case tB:
		return "true", nil
	case tR:
		return "10s", nil
	case tT:
		return "now", nil
	case tIP:
		return "var.ip", []string{"declare local var.ip IP;", `set var.ip = "10.0.0.1";`}
	case tBE, tRB:
		return "b", nil
	case tACL:
		return "acl_x", nil
	}
	return `"abc"`, nil
}

func c05LocalType(yamlType string) string {
	switch yamlType {
	case tRB:
		return tBE
	case "":
		return tS
	}
	return yamlType
}

func c05EnumVars(emit func(C05Case)) {
	c05Load()
	sets := c05ScopeSets()
	for _, key := range c05VarNames {
		spec := c05Vars[key]
		name := c05Instantiate(key)
		for _, acc := range []string{"get", "set", "unset", "cmp"} {
			var prelude []string
			var probe string
			var capable bool
			var capWhy string
			switch acc {
			case "get":
				capable = spec.Get != ""
				capWhy = "get: " + spec.Get
				if spec.Get == "ID" {
					// an ID-typed header collection is read through std.count (Fastly: req.headers)
					prelude = []string{"declare local var.g INTEGER;"}
					probe = fmt.Sprintf("set var.g = std.count(%s);", name)
				} else {
					prelude = []string{fmt.Sprintf("declare local var.g %s;", c05LocalType(spec.Get))}
					probe = fmt.Sprintf("set var.g = %s;", name)
				}
			case "set":
				capable = spec.Set != ""
				capWhy = "set: " + spec.Set
				vt := spec.Set
				if vt == "" {
					vt = spec.Get
				}
				var val string
				val, prelude = c05ValueOf(vt)
				probe = fmt.Sprintf("set %s = %s;", name, val)
			case "unset":
				capable = spec.Unset
				capWhy = fmt.Sprintf("unset: %v", spec.Unset)
				probe = fmt.Sprintf("unset %s;", name)
			case "cmp":
				// the variable as the left operand of == with a literal of its table type: a value of another
				// type (STRING = INTEGER is a legal assignment and would hide it) makes the comparison fail
				lit := map[string]string{tS: `"zz"`, tI: "1", tF: "1.5", tR: "1s"}[spec.Get]
				if lit == "" {
					continue
				}
				capable = true
				capWhy = "get: " + spec.Get + " compared with a " + spec.Get + " literal"
				probe = fmt.Sprintf("if (%s == %s) { }", name, lit)
			}
			for _, ss := range sets {
				c := C05Case{Product: "B", Kind: "var-" + acc, Name: key, Scopes: ss, Prelude: prelude, Probe: probe}
				onAll, missing := c05OnAll(spec.On, ss)
				switch {
				case !capable:
					c.T, c.Why = "deny", "predefined.yml "+key+": no "+acc+" ("+capWhy+")"
				case !onAll:
					c.T, c.Why = "deny", "predefined.yml "+key+": on "+strings.Join(spec.On, ",")+" lacks "+strings.ToUpper(missing)
				default:
					c.T, c.Why = "allow", "predefined.yml "+key+": on "+strings.Join(spec.On, ",")+"; "+capWhy
				}
				emit(c)
			}
		}
	}
}

// c05Args renders the arguments of one signature
func c05Args(fn string, sig []string) ([]string, []string) {
	var args, prelude []string
	for _, full := range c05CallArgs[fn] {
		if len(full) == len(sig) {
			return append([]string{}, full...), nil
		}
	}
	ids := c05IDArgs[fn]
	idN := 0
	for _, ty := range sig {
		switch ty {
		case "ID":
			a := "req"
			if idN < len(ids) {
				a = ids[idN]
			}
			idN++
			args = append(args, a)
		case "TABLE":
			t := "tbl"
			if v, ok := c05TableFor[fn]; ok {
				t = v
			}
			args = append(args, t)
		case "STRING_LIST":
			args = append(args, `"a"`, `"b"`)
		case tS:
			args = append(args, `"abc"`)
		default:
			v, pre := c05ValueOf(ty)
			args = append(args, v)
			for _, p := range pre {
				dup := false
				for _, q := range prelude {
					if q == p {
						dup = true
					}
				}
				if !dup {
					prelude = append(prelude, p)
				}
			}
		}
	}
	return args, prelude
}

// c05CallProbe wraps a call so that its result is consumed by a value of the declared return type
func c05CallProbe(call, ret string, prelude []string) (string, []string) {
	switch ret {
	case "":
		return call + ";", prelude
	case tACL:
		return fmt.Sprintf("if (var.m ~ %s) { }", call), append(prelude, "declare local var.m IP;", `set var.m = "10.0.0.1";`)
	case "REGEX":
		return fmt.Sprintf("if (var.m ~ %s) { }", call), append(prelude, "declare local var.m STRING;", `set var.m = "xx";`)
	}
	return fmt.Sprintf("set var.g = %s;", call), append(prelude, fmt.Sprintf("declare local var.g %s;", c05LocalType(ret)))
}

func c05EnumFuncs(emit func(C05Case)) {
	c05Load()
	sets := c05ScopeSets()
	for _, fn := range c05FnNames {
		spec := c05Fns[fn]
		sigs := spec.Arguments
		if len(sigs) == 0 {
			sigs = [][]string{{}}
		}
		for si, sig := range sigs {
			args, pre := c05Args(fn, sig)
			probe, prelude := c05CallProbe(fn+"("+strings.Join(args, ", ")+")", spec.Return, pre)
			for _, ss := range sets {
				c := C05Case{Product: "B", Kind: "func", Name: fn, Sig: si, Scopes: ss, Prelude: prelude, Probe: probe}
				if ok, missing := c05OnAll(spec.On, ss); ok {
					c.T, c.Why = "allow", fmt.Sprintf("builtin.yml %s: on %s; arguments[%d] = %v; return %s", fn, strings.Join(spec.On, ","), si, sig, spec.Return)
				} else {
					c.T, c.Why = "deny", fmt.Sprintf("builtin.yml %s: on %s lacks %s", fn, strings.Join(spec.On, ","), strings.ToUpper(missing))
				}
				emit(c)
			}
		}
		// one wrong-arity and one wrong-type call, in the nine single scopes
		maxSig, variadic := []string{}, false
		for _, sig := range sigs {
			if len(sig) >= len(maxSig) {
				maxSig = sig
			}
			for _, ty := range sig {
				if ty == "STRING_LIST" {
					variadic = true
				}
			}
		}
		{
			args, pre := c05Args(fn, maxSig)
			why := fmt.Sprintf("builtin.yml %s: no signature with %d arguments", fn, len(args)+1)
			if variadic {
				args, pre = nil, nil
				why = fmt.Sprintf("builtin.yml %s: no signature without arguments", fn)
			} else {
				args = append(args, `"extra"`)
			}
			probe, prelude := c05CallProbe(fn+"("+strings.Join(args, ", ")+")", spec.Return, pre)
			for _, s := range allScopeNames {
				emit(C05Case{Product: "B", Kind: "func-arity", Name: fn, Scopes: []string{s}, Prelude: prelude, Probe: probe, T: "deny", Why: why})
			}
		}
		// wrong type: a STRING literal where INTEGER/FLOAT/BOOL/TABLE/ACL/BACKEND is declared (no implicit
		// conversion from STRING to those), else an ACL name where STRING is declared
		for _, sig := range sigs {
			pos, repl, why := -1, "", ""
			for i, ty := range sig {
				switch ty {
				case tI, tF, tB, "TABLE", tACL, tBE:
					pos, repl, why = i, `"x"`, "STRING literal given for "+ty
				}
				if pos >= 0 {
					break
				}
			}
			if pos < 0 {
				for i, ty := range sig {
					if ty == tS {
						pos, repl, why = i, "acl_x", "ACL given for STRING"
						break
					}
				}
			}
			if pos < 0 {
				continue
			}
			// argument index in the rendered list (STRING_LIST renders two arguments, but only after pos matters)
			args, pre := c05Args(fn, sig)
			idx := 0
			for i := 0; i < pos; i++ {
				if sig[i] == "STRING_LIST" {
					idx += 2
				} else {
					idx++
				}
			}
			args[idx] = repl
			probe, prelude := c05CallProbe(fn+"("+strings.Join(args, ", ")+")", spec.Return, pre)
			for _, s := range allScopeNames {
				emit(C05Case{Product: "B", Kind: "func-type", Name: fn, Scopes: []string{s}, Prelude: prelude, Probe: probe, T: "deny",
					Why: fmt.Sprintf("builtin.yml %s: argument %d of %v: %s", fn, pos+1, sig, why)})
			}
			break
		}
	}
}

func c05In(xs []string, x string) bool {
	for _, y := range xs {
		if y == x {
			return true
		}
	}
	return false
}

func c05EnumStmts(emit func(C05Case)) {
	sets := c05ScopeSets()
	for _, st := range c05StmtNames {
		for _, ss := range sets {
			c := C05Case{Product: "B", Kind: "stmt", Name: st, Scopes: ss, Probe: c05StmtProbe[st]}
			c.T, c.Why = "allow", "statement reference: "+st+" is available in "+strings.Join(c05StmtScopes[st], ",")
			for _, s := range ss {
				if !c05In(c05StmtScopes[st], s) {
					c.T = "deny"
				}
			}
			emit(c)
		}
	}
	for _, act := range c05ReturnActions {
		for _, ss := range sets {
			c := C05Case{Product: "B", Kind: "return", Name: act, Scopes: ss, Probe: "return(" + act + ");"}
			c.T = "allow"
			var whys []string
			for _, s := range ss {
				whys = append(whys, "vcl_"+s+" returns "+strings.Join(c05ReturnTable[s], ","))
				if u, ok := c05ReturnUnspec[s+"/"+act]; ok {
					if c.T == "allow" {
						c.T = "unspec"
					}
					whys = append(whys, "unspecified: "+u)
				} else if !c05In(c05ReturnTable[s], act) {
					c.T = "deny"
				}
			}
			c.Why = "subroutine reference: " + strings.Join(whys, "; ")
			emit(c)
		}
	}
}

// enumC05 enumerates both products completely, in a fixed order. VERIF_C05_PART selects
// "A" (product A + statements + functions) or "V" (the variable cells of product B) for the
// quick tier's two campaigns; empty = everything.
func enumC05(emit func(c any)) {
	part := os.Getenv("VERIF_C05_PART")
	e := func(c C05Case) { emit(c) }
	if part == "" || part == "A" {
		c05EnumA(e)
		c05EnumStmts(e)
		c05EnumFuncs(e)
	}
	if part == "" || part == "V" {
		c05EnumVars(e)
	}
}

var (
	c05AllOnce  sync.Once
	c05AllCells []C05Case
)

func genC05(t *rapid.T) any {
	c05AllOnce.Do(func() {
		c05EnumA(func(c C05Case) { c05AllCells = append(c05AllCells, c) })
		c05EnumStmts(func(c C05Case) { c05AllCells = append(c05AllCells, c) })
		c05EnumFuncs(func(c C05Case) { c05AllCells = append(c05AllCells, c) })
		c05EnumVars(func(c C05Case) { c05AllCells = append(c05AllCells, c) })
	})
	return c05AllCells[rapid.IntRange(0, len(c05AllCells)-1).Draw(t, "cell")]
}

// ---------------------------------------------------------------------------
// worker side

// c05Program renders the one-use program; returns the text, the probe line and the sub name
func c05Program(c C05Case) (string, int, string) {
	var b strings.Builder
	b.WriteString(c05Decls)
	sub := "vcl_" + c.Scopes[0]
	if len(c.Scopes) > 1 {
		sub = "probe_sub"
		fmt.Fprintf(&b, "// @scope: %s\n", strings.Join(c.Scopes, ", "))
	}
	fmt.Fprintf(&b, "sub %s {\n", sub)
	if len(c.Scopes) == 1 {
		fmt.Fprintf(&b, "  #FASTLY %s\n", strings.ToUpper(c.Scopes[0]))
	}
	for _, p := range c.Prelude {
		b.WriteString("  " + p + "\n")
	}
	line := strings.Count(b.String(), "\n") + 1
	b.WriteString("  " + c.Probe + "\n")
	b.WriteString("}\n")
	if len(c.Scopes) > 1 {
		for _, s := range c.Scopes {
			fmt.Fprintf(&b, "sub vcl_%s {\n  #FASTLY %s\n  call probe_sub;\n}\n", s, strings.ToUpper(s))
		}
	}
	return b.String(), line, sub
}

var c05SimClasses = []struct {
	class string
	re    *regexp.Regexp
}{
	{"panic", regexp.MustCompile(`PANIC`)},
	{"undefined", regexp.MustCompile(`undefined variable `)},
	{"undefined", regexp.MustCompile(`is not found or could not (set|add|unset)`)},
	{"undefined", regexp.MustCompile(`Variable \S+ could not set value`)},
	{"undefined", regexp.MustCompile(`cannot unset local variable`)},
	{"out-of-scope", regexp.MustCompile(`is not accessible in \w+ scope`)},
	{"func-undefined", regexp.MustCompile(`Function \S+ is not defined`)},
	{"func-scope", regexp.MustCompile(`Function \S+ could not call on \S+ scope`)},
	{"arity", regexp.MustCompile(`\] (Expects \d+ arguments|Expects between \d+ and \d+ arguments|At least \d+ arguments|Could not accept any arguments)`)},
	{"argtype", regexp.MustCompile(`\] Argument \d+ expects \S+ type`)},
	{"argtype", regexp.MustCompile(`cannot convert to string because the value is literal`)},
	{"argtype", regexp.MustCompile(`argument must be an Ident`)},
	{"not-implemented", regexp.MustCompile(`Not implemented|not implemented`)},
	{"type", regexp.MustCompile(`invalid (assignment|addition|subtraction|multiplication|division|remainder)`)},
	{"type", regexp.MustCompile(`(literal|identifier) could not `)},
	{"type", regexp.MustCompile(`could not use \w+ assignment for type`)},
	{"type", regexp.MustCompile(`could not use assignment for type`)},
	{"type", regexp.MustCompile(`left and right type must be`)},
	{"type", regexp.MustCompile(`invalid operator, got`)},
	{"type", regexp.MustCompile(`invalid type comparison`)},
	{"type", regexp.MustCompile(`could not be a literal|must be a literal|could not use literal`)},
	{"type", regexp.MustCompile(`BACKEND literal \S+ cannot be assigned`)},
	{"type", regexp.MustCompile(`Cannot use \S+ type for string concatenation|could not use (as literal )?for (left|right) concatenation`)},
	{"type", regexp.MustCompile(`If condition returns not boolean`)},
	{"stmt-scope", regexp.MustCompile(`statement is only available in|could only be enable on FETCH directive`)},
	{"undefined-expr", regexp.MustCompile(`Undefined expression found`)},
}

func c05ClassifySim(msg string) string {
	for _, c := range c05SimClasses {
		if c.re.MatchString(msg) {
			return c.class
		}
	}
	return ""
}

func c05FindSub(vcl *ast.VCL, name string) *ast.SubroutineDeclaration {
	for _, s := range vcl.Statements {
		if d, ok := s.(*ast.SubroutineDeclaration); ok && d.Name.Value == name {
			return d
		}
	}
	return nil
}

// c05Lint returns the ERROR diagnostics located on the probe line
func c05Lint(src string, line int) (errs []string, harnessErr string) {
	vcl, err := parser.New(lexer.NewFromString(src, lexer.WithFile("main.vcl"))).ParseVCL()
	if err != nil {
		return nil, "parse error: " + err.Error()
	}
	lt := linter.New(&config.LinterConfig{})
	lt.Lint(vcl, lcontext.New(lcontext.WithResolver(resolver.NewStaticResolver("main.vcl", src))))
	if lt.FatalError != nil {
		return nil, fmt.Sprintf("fatal: %v", lt.FatalError.Error)
	}
	for _, e := range lt.Errors {
		if string(e.Severity) == "Error" && e.Token.Line == line {
			errs = append(errs, strings.SplitN(e.Message, "\n", 2)[0])
		}
	}
	sort.Strings(errs)
	return errs, ""
}

// c05Sim runs the sub in one scope and returns the error text ("" = ran)
func c05Sim(src, sub, scope string) string {
	vcl, err := parser.New(lexer.NewFromString(src, lexer.WithFile("main.vcl"))).ParseVCL()
	if err != nil {
		return "HARNESS parse error: " + err.Error()
	}
	decl := c05FindSub(vcl, sub)
	if decl == nil {
		return "HARNESS sub not found"
	}
	ip, _, err := newTestInterp(src)
	if err != nil {
		return "HARNESS init: " + err.Error()
	}
	var rerr error
	func() {
		defer func() {
			if r := recover(); r != nil {
				rerr = fmt.Errorf("PANIC in ProcessTestSubroutine: %v", r)
			}
		}()
		rerr = ip.ProcessTestSubroutine(scopeByName[scope], decl)
	}()
	if rerr == nil {
		return ""
	}
	return rerr.Error()
}

// c05SimLifecycle drives the lifecycle entry point of one scope (ProcessRecv … ProcessLog) for a
// return(action) cell and reports only whether the simulator's state dispatch knows the action the
// subroutine returned ("returned unexpected state <action> in <SCOPE>"). Everything that happens
// downstream (other subroutines, the origin fetch against the harness's loopback server) is ignored.
func c05SimLifecycle(src, scope, action string) string {
	src = strings.Replace(src, `backend b { .host = "127.0.0.1"; .port = "8080"; }`+"\n", backendDecl(), 1)
	ip, _, err := newTestInterp(src)
	if err != nil {
		return "HARNESS init: " + err.Error()
	}
	var rerr error
	func() {
		defer func() {
			if r := recover(); r != nil {
				rerr = nil // driving one lifecycle step in isolation is not a supported entry point: crashes are not judged here
			}
		}()
		switch scope {
		case "recv":
			rerr = ip.ProcessRecv()
		case "hash":
			rerr = ip.ProcessHash()
		case "hit":
			rerr = ip.ProcessHit()
		case "miss":
			rerr = ip.ProcessMiss()
		case "pass":
			rerr = ip.ProcessPass()
		case "fetch":
			rerr = ip.ProcessFetch()
		case "error":
			rerr = ip.ProcessError()
		case "deliver":
			rerr = ip.ProcessDeliver()
		case "log":
			rerr = ip.ProcessLog()
		}
	}()
	// (the state's name is not always rendered: "returned unexpected state  in FETCH")
	suffix := " in " + strings.ToUpper(scope)
	find := func(err error) string {
		if err == nil {
			return ""
		}
		for _, l := range strings.Split(err.Error(), "\n") {
			if i := strings.Index(l, "returned unexpected state "); i >= 0 && strings.Contains(l[i:], suffix) {
				return l
			}
		}
		return ""
	}
	_ = action
	if l := find(rerr); l != "" {
		return l
	}
	// the scopes a fresh simulator reaches on its own (lookup -> miss -> fetch -> deliver -> log) are also
	// driven through a whole request: one step in isolation may stop before the dispatch (no backend response)
	switch scope {
	case "miss", "fetch", "deliver", "log":
		ip2, _, err := newTestInterp(src)
		if err != nil {
			return ""
		}
		var werr error
		func() {
			defer func() {
				if r := recover(); r != nil {
					werr = nil // crashes are C08's business
				}
			}()
			werr = ip2.ProcessRecv()
		}()
		return find(werr)
	}
	return ""
}

func checkC05(raw json.RawMessage) iso.Result {
	var c C05Case
	if err := json.Unmarshal(raw, &c); err != nil {
		return iso.Failf("bad case: %v", err)
	}
	col := iso.NewCollector("C05")
	if len(c.Scopes) == 0 || len(c.Scopes) > 2 || (c.T != "allow" && c.T != "deny" && c.T != "unspec") {
		col.Failf("harness: malformed cell %+v", c)
		return col.Done()
	}
	for _, s := range c.Scopes {
		if _, ok := scopeByName[s]; !ok {
			col.Failf("harness: unknown scope %q", s)
			return col.Done()
		}
	}
	col.Label("product:"+c.Product, "kind:"+c.Kind, "T:"+c.T, fmt.Sprintf("scopes:%d", len(c.Scopes)))
	if c.Product == "A" {
		col.Label("op:" + c.Op)
	}
	if c.T != "allow" || len(c.Scopes) > 1 || c.Kind == "var-set" || c.Kind == "var-unset" || (c.Product == "A" && c.Op != "=" && c.Op != "==") {
		col.Res.NonTrivial = true
	}
	src, line, sub := c05Program(c)
	lerrs, herr := c05Lint(src, line)
	if herr != "" {
		col.Failf("harness: probe program cannot be linted: %s\n%s", herr, numbered(src))
		return col.Done()
	}
	L := len(lerrs) == 0
	if L {
		col.Label("L:accept")
	} else {
		col.Label("L:reject")
	}
	cell := func() string {
		return fmt.Sprintf("cell: product %s kind %s name %s op %q scopes %v\n T = %s   (%s)\n L = %v   %v\n--- program (probe on line %d) ---\n%s",
			c.Product, c.Kind, c.Name, c.Op, c.Scopes, c.T, c.Why, L, lerrs, line, numbered(src))
	}
	if c.T != "unspec" && L != (c.T == "allow") {
		what := "linter ACCEPTS a use the reference tables forbid"
		if !L {
			what = "linter REJECTS a use the reference tables allow"
		}
		col.FailKey(c05LintKey(c, L, lerrs), "L != T: %s\n%s", what, cell())
	}
	if L {
		for _, s := range c.Scopes {
			msg := c05Sim(src, sub, s)
			if msg == "" {
				col.Label("S:ran")
				continue
			}
			if strings.HasPrefix(msg, "HARNESS") {
				col.Failf("harness: %s\n%s", msg, cell())
				continue
			}
			first := strings.SplitN(msg, "\n", 2)[0]
			class := c05ClassifySim(msg)
			if class == "" {
				col.Label("S:value-dependent-error")
				col.Label("S:other:" + c05Shorten(first))
				continue
			}
			col.Label("S:" + class)
			col.FailKey(c05SimKey(c, s, class, first), "L => S: the linter accepts, the simulator fails in scope %s with a %s error: %s\n%s", s, class, first, cell())
		}
		if c.Kind == "return" && len(c.Scopes) == 1 {
			if msg := c05SimLifecycle(src, c.Scopes[0], c.Name); strings.HasPrefix(msg, "HARNESS") {
				col.Failf("harness: %s\n%s", msg, cell())
			} else if msg != "" {
				col.Label("S:lifecycle-state")
				col.FailKey(c05SimKey(c, c.Scopes[0], "lifecycle-state", msg), "L => S: the linter accepts the action, the simulator's lifecycle does not know it in scope %s: %s\n%s", c.Scopes[0], msg, cell())
			} else {
				col.Label("S:lifecycle-dispatched")
			}
		}
	}
	return col.Done()
}

var c05Digits = regexp.MustCompile(`[0-9]+`)

func c05Shorten(s string) string {
	if i := strings.IndexByte(s, '"'); i >= 0 {
		s = s[:i]
	}
	s = c05Digits.ReplaceAllString(s, "N")
	if len(s) > 60 {
		s = s[:60]
	}
	return s
}

// ---------------------------------------------------------------------------
// narrow classifiers of known findings (KNOWN_FINDINGS.txt). Each key is bound to
// (feature predicate on the cell) AND (signature predicate on the failure); everything else
// is reported as a violation.

// c05ScopeAllows: does the harness table allow the statement / function / return action in scope s
func c05ScopeAllows(c C05Case, s string) bool {
	switch c.Kind {
	case "stmt":
		return c05In(c05StmtScopes[c.Name], s)
	case "return":
		return c05In(c05ReturnTable[s], c.Name)
	case "func":
		c05Load()
		return c05On(c05Fns[c.Name].On, s)
	}
	return false
}

func c05AnyScopeAllows(c C05Case) bool {
	for _, s := range c.Scopes {
		if c05ScopeAllows(c, s) {
			return true
		}
	}
	return false
}

func c05HasMsg(msgs []string, sub string) bool {
	for _, m := range msgs {
		if strings.Contains(m, sub) {
			return true
		}
	}
	return false
}

func c05LintKey(c C05Case, L bool, lerrs []string) string {
	switch {
	case c.Kind == "stmt" && c.Name == "esi" && L && c.T == "deny":
		// lintEsiStatement has no scope check at all
		return "lint.esi-accepted-outside-fetch"
	case c.Kind == "stmt" && c.Name != "esi" && len(c.Scopes) == 2 && L && c.T == "deny" && c05AnyScopeAllows(c):
		// restart/error/synthetic test `mode & allowed == 0`: one allowed scope of two is enough
		return "lint.statement-scope-any-instead-of-all"
	case c.Kind == "func" && len(c.Scopes) == 2 && L && c.T == "deny" && c05AnyScopeAllows(c):
		// Context.GetFunction tests `Scopes & curMode == 0`
		return "lint.function-scope-any-instead-of-all"
	case c.Kind == "return" && len(c.Scopes) == 2 && !L && c.T == "allow" && c05HasMsg(lerrs, "is invalid in UNKNOWN, expected"):
		// lintReturnStatement switches on the exact mode: no action is known for a two-scope mode
		return "lint.return-action-rejected-in-two-scope-sub"
	case c.Kind == "var-cmp" && c.Name == "backend.%any%.healthy" && !L && c.T == "allow" && len(lerrs) == 1 && strings.Contains(lerrs[0], "Type mismatch between BOOL and INTEGER"):
		// same root cause seen through the comparison probe
		return "table.backend-healthy-typed-integer"
	case c.Kind == "var-get" && c.Name == "backend.%any%.healthy" && !L && c.T == "allow" && len(lerrs) == 1 && strings.Contains(lerrs[0], "requires type INTEGER but BOOL was assigned"):
		// predefined.yml types backend.{name}.healthy INTEGER, linter/context/dynamic.go (and Fastly) BOOL
		return "table.backend-healthy-typed-integer"
	}
	return ""
}

// variable families the simulator does not define at all (every scope)
var c05UndefinedFamilies = []string{"geoip.", "fastly.bot."}

func c05SimKey(c C05Case, scope, class, msg string) string {
	isVar := c.Kind == "var-get" || c.Kind == "var-set"
	switch {
	case class == "stmt-scope" && c.Kind == "stmt" && c.Name == "esi" && scope != "fetch":
		return "lint.esi-accepted-outside-fetch"
	case class == "stmt-scope" && c.Kind == "stmt" && c.Name != "esi" && len(c.Scopes) == 2 && !c05ScopeAllows(c, scope) && c05AnyScopeAllows(c):
		return "lint.statement-scope-any-instead-of-all"
	case class == "func-scope" && c.Kind == "func" && len(c.Scopes) == 2 && !c05ScopeAllows(c, scope) && c05AnyScopeAllows(c):
		return "lint.function-scope-any-instead-of-all"
	case (class == "undefined" && isVar && strings.Contains(msg, "undefined variable "+c05Instantiate(c.Name))) ||
		// in a comparison an undefined variable evaluates to NULL: same root causes seen through the comparison probe
		(class == "type" && c.Kind == "var-cmp" && strings.Contains(msg, "invalid type comparison NULL and ")):
		for _, fam := range c05UndefinedFamilies {
			if strings.HasPrefix(c.Name, fam) {
				return "sim.variable-undefined:" + strings.TrimSuffix(fam, ".")
			}
		}
		switch {
		case strings.HasPrefix(c.Name, "tls.client.certificate.") && scope != "recv":
			// defined in RecvScopeVariables only
			return "sim.variable-undefined:tls.client.certificate-outside-recv"
		case c.Name == "fastly_info.version":
			return "sim.variable-undefined:fastly_info.version"
		case c.Name == "req.digest.ratio" && (scope == "recv" || scope == "hash"):
			return "sim.variable-undefined:req.digest.ratio-in-recv-hash"
		case c.Name == "waf.sql_injection_score" && scope == "log" && (c.Kind == "var-get" || c.Kind == "var-cmp"):
			return "sim.variable-undefined:waf.sql_injection_score-in-log"
		case c.Name == "beresp.saintmode" && c.Kind == "var-set":
			// ProcessSetStatement reads the (write-only) variable before assigning
			return "sim.write-only-variable-read-before-set:beresp.saintmode"
		}
	case class == "undefined" && c.Kind == "var-set" && c.Name == "esi.allow_inside_cdata" && scope == "deliver" && strings.Contains(msg, "is not found or could not set"):
		return "sim.variable-not-settable:esi.allow_inside_cdata-in-deliver"
	case class == "type" && c.Kind == "var-cmp" && c.Name == "client.identified" && strings.Contains(msg, "invalid type comparison BOOL and INTEGER"):
		// same root cause seen through the comparison probe
		return "sim.value-type-differs-from-table:client.identified"
	case class == "type" && c.Kind == "var-get" && c.Name == "client.identified" && strings.Contains(msg, "invalid assignment for INTEGER type, got BOOL"):
		// predefined.yml (and the linter) type it INTEGER, the simulator returns BOOL
		return "sim.value-type-differs-from-table:client.identified"
	case class == "type" && c.Kind == "var-set" && c.Name == "req.hash" && strings.Contains(msg, "invalid operator, got ="):
		return "sim.req-hash-plain-assignment-rejected"
	case class == "type" && c.Kind == "compare" && c05OpGroup(c.Op) == "relational" && c.T == "unspec" && c.Form == "lit" && strings.Contains(msg, "type could not be a literal"):
		return "sim.relational-literal-across-types-rejected"
	case class == "type" && c.Kind == "compare" && c05OpGroup(c.Op) == "match" && c.Left == tIP && c.Right == tS && c.Form == "lit" && strings.Contains(msg, "invalid type comparison IP and STRING"):
		return "sim.ip-match-string-literal-rejected"
	case class == "panic" && c.Kind == "func" && (c.Name == "crypto.encrypt_hex" || c.Name == "crypto.encrypt_base64") && strings.Contains(msg, "input not full blocks"):
		// encryptCBC computes the PKCS#7 pad size with `&` instead of `%`
		return "sim.crash:crypto-encrypt-cbc-pkcs7-padding"
	case class == "lifecycle-state" && c.Kind == "return" && c.Name == "deliver_stale" && scope == "error":
		// ProcessError dispatches DELIVER and RESTART only
		return "sim.lifecycle-state-unknown:deliver_stale-in-error"
	case class == "out-of-scope" && c.Kind == "func" && strings.HasPrefix(c.Name, "setcookie.") && strings.Contains(msg, "resp is not accessible in"):
		// the linter accepts the ID `resp` wherever the function is allowed
		return "lint.setcookie-container-scope-unchecked"
	}
	return ""
}
