package props

import (
	"fmt"
	"regexp"
	"sort"
	"strings"

	"pgregory.net/rapid"
)

// C10 generator: a main VCL built from small "features" whose input->output
// function the generator knows (a tiny reference model per feature, written
// here, independent of falco), and test subroutines whose verdict, logs and
// failing step are known by construction.

// Known-finding keys (classifiers live in c10.go).
const (
	c10KeyStateMsg  = "assert-state-custom-message-panics"
	c10KeyIfExprCov = "coverage-ifexpr-condition-evaluated-ahead"
	c10KeyEqualFold = "assert-equal_fold-compares-case-sensitively"
)

// ---------------------------------------------------------------------------
// reference model of the generated main VCL

type c10Val struct {
	set     bool
	s       string
	unknown bool // value not determined by construction (e.g. wall clock): never asserted/logged exactly
}

type c10Env struct {
	table map[string]string // contents of table tbl
	vars  map[string]string // tentative variables (documented defaults, overridden by testing.inject_variable)
	host  string            // req.http.Host
	fixed string            // now.sec after testing.fixed_time ("" = wall clock)
	mock  string            // marker written by the mock of usub ("" = not mocked)
}

type c10In struct {
	name string
	dom  []string
}

type c10Feat struct {
	kind  string
	ins   []c10In
	out   string // output variable ("" = none)
	lines []string
	eval  func(in map[string]string, env *c10Env) c10Val
	// wild: with these inputs the output depends on semantics the generator
	// does not claim to know (only cross-run identity is checked) and the
	// feature is a trigger of the named known finding.
	wild    func(in map[string]string) bool
	wildKey string
	logf    func(in map[string]string) string // text logged by the main VCL ("" = none)
}

type c10Sub struct {
	scope  string // recv | fetch | deliver
	prefix string // req.http | beresp.http | resp.http
	feats  []*c10Feat
	calls  int // unconditional `call usub;`
	// return feature: value of req.http.Go<scope> -> state
	goName string
	goArms []string // subset of "pass","err","restart"
	dflt   string   // default state
	errC   int
	errMsg string
}

type c10Main struct {
	subs       map[string]*c10Sub
	tableInit  map[string]string
	tableKeys  []string
	ufArms     []c10UfArm
	src        string
	bareBlocks int
}

type c10UfArm struct {
	kind string // "eq" | "re"
	c    string
	v    string
}

var c10Defaults = map[string]string{
	"server.region":           "US",
	"server.datacenter":       "FALCO",
	"client.geo.country_code": "unknown",
	"client.geo.city":         "unknown",
}
var c10VarNames = []string{"server.region", "server.datacenter", "client.geo.country_code", "client.geo.city"}

var c10Words = []string{"abc", "foobarbaz", "Hello-World", "x1y2z3", "alpha-beta", "Tango", "mixedCASE", "v-42"}
var c10Consts = []string{"a", "b", "c", "d", "e"}

// values used by global-facility touches; observers assert the defaults differ from all of these
var c10Regions = []string{"Zz-Region-1", "Zz-Region-2"}
var c10Hosts = []string{"c10.example.com", "other.example.net"}
var c10Times = []string{"1000000000", "1234567890"}
var c10TableSetKeys = []string{"k1", "k2", "kx", "ky"}

func (m *c10Main) ufunc(a string) string {
	for _, arm := range m.ufArms {
		switch arm.kind {
		case "eq":
			if a == arm.c {
				return arm.v
			}
		case "re":
			if strings.HasPrefix(a, arm.c) {
				return arm.v + "-" + a[len(arm.c):]
			}
		}
	}
	return "other"
}

type c10SubResult struct {
	outs     map[string]c10Val
	state    string
	calls    int
	ucalled  string
	mainLogs []string
	wildOuts map[string]string // out -> known-finding key
	errC     int
	errMsg   string
}

func (s *c10Sub) run(in map[string]string, env *c10Env) c10SubResult {
	r := c10SubResult{outs: map[string]c10Val{}, wildOuts: map[string]string{}}
	r.calls = s.calls
	for _, f := range s.feats {
		if f.kind == "condcall" {
			if in[f.ins[0].name] == "go" {
				r.calls++
			}
			continue
		}
		if f.logf != nil {
			if l := f.logf(in); l != "" {
				r.mainLogs = append(r.mainLogs, l)
			}
		}
		if f.out == "" {
			continue
		}
		if f.wild != nil && f.wild(in) {
			r.wildOuts[f.out] = f.wildKey
			r.outs[f.out] = c10Val{set: true, unknown: true}
			continue
		}
		r.outs[f.out] = f.eval(in, env)
	}
	if r.calls > 0 {
		if env.mock != "" {
			r.ucalled = env.mock
		} else {
			r.ucalled = "yes"
		}
	}
	r.state = s.dflt
	g := in[s.goName]
	for _, a := range s.goArms {
		if a == g {
			switch a {
			case "pass":
				r.state = "pass"
			case "err":
				r.state = "error"
				r.errC, r.errMsg = s.errC, s.errMsg
			case "restart":
				r.state = "restart"
			}
		}
	}
	return r
}

// ---------------------------------------------------------------------------

type c10g struct {
	t     *rapid.T
	n     int
	m     *c10Main
	tests []C10Test
	pre   []string
	// helpers already created: marker -> test index
	mockIdx map[string]int
	mtables map[string]map[string]string // test-file tables for table_merge
	mtOrder []string
}

func (g *c10g) id() int { g.n++; return g.n }

func (g *c10g) intn(lo, hi int, label string) int {
	return rapid.IntRange(lo, hi).Draw(g.t, label)
}

func (g *c10g) chance(num, den int, label string) bool {
	// true with probability num/den; shrinks toward false
	return rapid.IntRange(0, den-1).Draw(g.t, label) >= den-num
}

func (g *c10g) pickS(xs []string, label string) string {
	return xs[rapid.IntRange(0, len(xs)-1).Draw(g.t, label)]
}

func q(s string) string { return "\"" + s + "\"" }

// other returns a string that differs from w and is neither a substring,
// prefix nor suffix relation of it in any direction that matters.
func c10Other(w string) string { return "q9" + w + "q7" }

func c10SwapCase(w string) string {
	b := []byte(w)
	for i, c := range b {
		switch {
		case c >= 'a' && c <= 'z':
			b[i] = c - 32
		case c >= 'A' && c <= 'Z':
			b[i] = c + 32
		}
	}
	return string(b)
}

// ---------------------------------------------------------------------------
// main VCL

func (g *c10g) genMain() {
	m := &c10Main{subs: map[string]*c10Sub{}, tableInit: map[string]string{}}
	g.m = m
	var L []string
	add := func(s ...string) { L = append(L, s...) }

	add("backend origin_a {", "  .host = \"a.example.com\";", "  .port = \"443\";", "}", "")
	if g.chance(1, 3, "backend2") {
		add("backend origin_b {", "  .host = \"b.example.com\";", "  .port = \"443\";", "}", "")
	}
	nk := g.intn(1, 3, "ntable")
	add("table tbl STRING {")
	for i := 1; i <= nk; i++ {
		k := fmt.Sprintf("k%d", i)
		m.tableInit[k] = fmt.Sprintf("v%d", i)
		m.tableKeys = append(m.tableKeys, k)
		add(fmt.Sprintf("  %s: %s,", q(k), q(m.tableInit[k])))
	}
	add("}", "")
	add("sub usub {", "  set req.http.U-Called = \"yes\";", "}", "")
	// a runtime error one call statement below the subroutine a test invokes (valid in DELIVER only)
	add("// @scope: deliver", "sub c10_rt_inner {", "  set resp.http.X-Rt-Inner = \"1\";", "}", "")
	add("// @scope: deliver", "sub c10_rt_outer {", "  call c10_rt_inner;", "  set req.http.Rt-Outer = \"after\";", "}", "")

	// functional subroutine
	nArms := g.intn(1, 3, "ufarms")
	add("sub ufunc(STRING var.a) STRING {")
	for i := 0; i < nArms; i++ {
		kw := "if"
		if i > 0 {
			kw = "} else if"
		}
		if g.chance(1, 3, "ufre") {
			c := "y" + c10Consts[i]
			v := "re" + c10Consts[i]
			m.ufArms = append(m.ufArms, c10UfArm{"re", c, v})
			add(fmt.Sprintf("  %s (var.a ~ \"^%s(.*)$\") {", kw, c), fmt.Sprintf("    return %s \"-\" re.group.1;", q(v)))
		} else {
			c := "x" + c10Consts[i]
			v := "is-" + c
			m.ufArms = append(m.ufArms, c10UfArm{"eq", c, v})
			add(fmt.Sprintf("  %s (var.a == %s) {", kw, q(c)), fmt.Sprintf("    return %s;", q(v)))
		}
	}
	add("  }", "  return \"other\";", "}", "")

	for _, sc := range []struct{ scope, prefix, tag, dflt string }{
		{"recv", "req.http", "r", "lookup"},
		{"fetch", "beresp.http", "f", "deliver"},
		{"deliver", "resp.http", "d", "deliver"},
	} {
		s := &c10Sub{scope: sc.scope, prefix: sc.prefix, dflt: sc.dflt}
		m.subs[sc.scope] = s
		add("sub vcl_"+sc.scope+" {", "  #FASTLY "+sc.scope)
		if sc.scope == "recv" {
			s.calls = g.intn(1, 2, "calls")
		} else {
			s.calls = g.intn(0, 1, "calls")
		}
		for i := 0; i < s.calls; i++ {
			add("  call usub;")
		}
		nf := g.intn(1, pick(4, 5), "nfeat")
		for i := 1; i <= nf; i++ {
			f := g.genFeat(s, fmt.Sprintf("%s%d", sc.tag, i))
			s.feats = append(s.feats, f)
			// a bare nested block does not change what its statements do
			bare := g.chance(1, 5, "bare-block")
			for _, l := range f.lines {
				if strings.Contains(l, "declare local") {
					bare = false
				}
			}
			if bare {
				add("  {")
				for _, l := range f.lines {
					add("    " + l)
				}
				add("  }")
				m.bareBlocks++
				continue
			}
			for _, l := range f.lines {
				add("  " + l)
			}
		}
		// return feature
		s.goName = "Go" + sc.tag
		var cand []string
		switch sc.scope {
		case "recv":
			cand = []string{"pass", "err", "restart"}
		case "fetch":
			cand = []string{"pass", "err", "restart"}
		case "deliver":
			cand = []string{"restart"}
		}
		first := true
		for _, a := range cand {
			if !g.chance(2, 3, "goarm") {
				continue
			}
			s.goArms = append(s.goArms, a)
			kw := "  if"
			if !first {
				kw = "  } else if"
			}
			first = false
			add(fmt.Sprintf("%s (req.http.%s == %s) {", kw, s.goName, q(a)))
			switch a {
			case "pass":
				add("    return (pass);")
			case "err":
				s.errC = 600 + g.intn(1, 9, "errc")
				s.errMsg = "custom-" + sc.tag
				add(fmt.Sprintf("    error %d %s;", s.errC, q(s.errMsg)))
			case "restart":
				add("    restart;")
			}
		}
		if !first {
			add("  }")
		}
		add("  return ("+sc.dflt+");", "}", "")
	}
	m.src = strings.Join(L, "\n")
}

func (g *c10g) genFeat(s *c10Sub, tag string) *c10Feat {
	kinds := []string{"chain", "switch", "ifexpr", "capture", "table", "var", "func", "host", "time", "condcall", "mainlog", "chain", "ifexpr", "truthchain"}
	k := g.pickS(kinds, "featkind")
	// avoid-weight: the trigger of the coverage known finding is drawn rarely
	if g.chance(1, 40, "ifexpr-capture") {
		k = "ifexpr-capture"
	}
	in := "I" + tag
	out := s.prefix + ".O" + tag
	f := &c10Feat{kind: k, out: out}
	rin := "req.http." + in
	switch k {
	case "truthchain":
		// else-if conditions that are a bare header, a negated header and a conjunction of both
		f.lines = []string{
			fmt.Sprintf("if (%s == \"a\") {", rin),
			fmt.Sprintf("  set %s = \"va\";", out),
			fmt.Sprintf("} else if (!%sb) {", rin),
			fmt.Sprintf("  set %s = \"vnot\";", out),
			fmt.Sprintf("} elsif (%sc && !%sd) {", rin, rin),
			fmt.Sprintf("  set %s = \"vand\";", out),
			fmt.Sprintf("} elseif (%sc) {", rin),
			fmt.Sprintf("  set %s = \"vtruthy\";", out),
			"} else {",
			fmt.Sprintf("  set %s = \"velse\";", out),
			"}",
		}
		f.ins = []c10In{{in, []string{"a", "zz-none"}}, {in + "b", []string{"1", "<unset>"}}, {in + "c", []string{"1", "<unset>"}}, {in + "d", []string{"1", "<unset>"}}}
		f.eval = func(iv map[string]string, env *c10Env) c10Val {
			switch {
			case iv[in] == "a":
				return c10Val{set: true, s: "va"}
			case iv[in+"b"] == "<unset>":
				return c10Val{set: true, s: "vnot"}
			case iv[in+"c"] == "1" && iv[in+"d"] == "<unset>":
				return c10Val{set: true, s: "vand"}
			case iv[in+"c"] == "1":
				return c10Val{set: true, s: "vtruthy"}
			}
			return c10Val{set: true, s: "velse"}
		}
	case "chain":
		n := g.intn(1, 3, "arms")
		hasElse := g.chance(1, 2, "else")
		nested := -1
		if g.chance(1, 3, "nested") {
			nested = g.intn(0, n-1, "nestedarm")
		}
		useRe := g.chance(1, 4, "chainre")
		dom := []string{}
		for i := 0; i < n; i++ {
			c := c10Consts[i]
			dom = append(dom, c)
			kw := "if"
			if i > 0 {
				kw = "} else if"
			}
			if useRe {
				f.lines = append(f.lines, fmt.Sprintf("%s (%s ~ \"^%s$\") {", kw, rin, c))
			} else {
				f.lines = append(f.lines, fmt.Sprintf("%s (%s == %s) {", kw, rin, q(c)))
			}
			if i == nested {
				f.lines = append(f.lines,
					fmt.Sprintf("  if (%sb == \"1\") {", rin),
					fmt.Sprintf("    set %s = %s;", out, q("v"+c+"n")),
					"  } else {",
					fmt.Sprintf("    set %s = %s;", out, q("v"+c)),
					"  }")
			} else {
				f.lines = append(f.lines, fmt.Sprintf("  set %s = %s;", out, q("v"+c)))
			}
		}
		if hasElse {
			f.lines = append(f.lines, "} else {", fmt.Sprintf("  set %s = \"velse\";", out))
		}
		f.lines = append(f.lines, "}")
		dom = append(dom, "zz-none")
		f.ins = []c10In{{in, dom}}
		if nested >= 0 {
			f.ins = append(f.ins, c10In{in + "b", []string{"1", "0"}})
		}
		f.eval = func(iv map[string]string, env *c10Env) c10Val {
			for i := 0; i < n; i++ {
				if iv[in] == c10Consts[i] {
					if i == nested && iv[in+"b"] == "1" {
						return c10Val{set: true, s: "v" + c10Consts[i] + "n"}
					}
					return c10Val{set: true, s: "v" + c10Consts[i]}
				}
			}
			if hasElse {
				return c10Val{set: true, s: "velse"}
			}
			return c10Val{}
		}
	case "switch":
		n := g.intn(1, 3, "cases")
		hasDefault := g.chance(1, 2, "default")
		ft := make([]bool, n)
		f.lines = append(f.lines, fmt.Sprintf("switch (%s) {", rin))
		dom := []string{}
		for i := 0; i < n; i++ {
			c := c10Consts[i]
			dom = append(dom, c)
			f.lines = append(f.lines, fmt.Sprintf("case %s:", q(c)), fmt.Sprintf("  set %s = %s;", out, q("s"+c)))
			if i < n-1 && g.chance(1, 3, "fallthrough") {
				ft[i] = true
				f.lines = append(f.lines, "  fallthrough;")
			} else {
				f.lines = append(f.lines, "  break;")
			}
		}
		if hasDefault {
			f.lines = append(f.lines, "default:", fmt.Sprintf("  set %s = \"sdefault\";", out), "  break;")
		}
		f.lines = append(f.lines, "}")
		dom = append(dom, "zz-none")
		f.ins = []c10In{{in, dom}}
		f.eval = func(iv map[string]string, env *c10Env) c10Val {
			for i := 0; i < n; i++ {
				if iv[in] == c10Consts[i] {
					j := i
					for ft[j] {
						j++
					}
					return c10Val{set: true, s: "s" + c10Consts[j]}
				}
			}
			if hasDefault {
				return c10Val{set: true, s: "sdefault"}
			}
			return c10Val{}
		}
	case "ifexpr":
		useRe := g.chance(1, 3, "ifexprre")
		prefixed := g.chance(1, 3, "ifexprpre")
		cond := fmt.Sprintf("%s == \"1\"", rin)
		if useRe {
			cond = fmt.Sprintf("%s ~ \"^1\"", rin)
		}
		pre := ""
		if prefixed {
			pre = "\"p-\" "
		}
		f.lines = []string{fmt.Sprintf("set %s = %sif(%s, \"yes\", \"no\");", out, pre, cond)}
		f.ins = []c10In{{in, []string{"1", "0"}}}
		f.eval = func(iv map[string]string, env *c10Env) c10Val {
			v := "no"
			if iv[in] == "1" {
				v = "yes"
			}
			if prefixed {
				v = "p-" + v
			}
			return c10Val{set: true, s: v}
		}
	case "capture":
		hasElse := g.chance(1, 2, "else")
		f.lines = []string{
			fmt.Sprintf("if (%s ~ \"^/(a+)/(b+)\") {", rin),
			fmt.Sprintf("  set %s = re.group.2 \"-\" re.group.1;", out),
		}
		if hasElse {
			f.lines = append(f.lines, "} else {", fmt.Sprintf("  set %s = \"nomatch\";", out))
		}
		f.lines = append(f.lines, "}")
		f.ins = []c10In{{in, []string{"/aa/b", "/a/bbb/c", "/x/b", "zz-none"}}}
		re := regexp.MustCompile("^/(a+)/(b+)")
		f.eval = func(iv map[string]string, env *c10Env) c10Val {
			if mm := re.FindStringSubmatch(iv[in]); mm != nil {
				return c10Val{set: true, s: mm[2] + "-" + mm[1]}
			}
			if hasElse {
				return c10Val{set: true, s: "nomatch"}
			}
			return c10Val{}
		}
	case "ifexpr-capture":
		// reads a capture group and then evaluates an if-expression whose
		// condition is itself a regex match with a group
		f.lines = []string{
			fmt.Sprintf("if (%s ~ \"^/(a+)\") {", rin),
			fmt.Sprintf("  set req.http.Seen%s = \"1\";", tag),
			"}",
			fmt.Sprintf("set %s = \"g\" re.group.1 if(%sb ~ \"^(y+)\", \"Y\", \"N\");", out, rin),
		}
		f.ins = []c10In{{in, []string{"/aa", "zz-none"}}, {in + "b", []string{"nn", "yy"}}}
		f.wildKey = c10KeyIfExprCov
		f.wild = func(iv map[string]string) bool {
			// the extra evaluation only has an observable effect when the condition's regex matches
			return iv[in+"b"] == "yy"
		}
		f.eval = func(iv map[string]string, env *c10Env) c10Val {
			// condition does not match: captures are those of the first match (or none)
			if iv[in] == "/aa" {
				return c10Val{set: true, s: "gaaN"}
			}
			// re.group.1 never set in this subroutine: the generator does not
			// claim to know how an unset group concatenates
			return c10Val{set: true, unknown: true}
		}
	case "table":
		f.lines = []string{fmt.Sprintf("set %s = table.lookup(tbl, %s, \"dflt\");", out, rin)}
		dom := append([]string{}, c10TableSetKeys...)
		dom = append(dom, "k3", "k9", "nokey")
		f.ins = []c10In{{in, dom}}
		f.eval = func(iv map[string]string, env *c10Env) c10Val {
			if v, ok := env.table[iv[in]]; ok {
				return c10Val{set: true, s: v}
			}
			return c10Val{set: true, s: "dflt"}
		}
	case "var":
		vn := g.pickS(c10VarNames, "varname")
		f.lines = []string{fmt.Sprintf("set %s = %s;", out, vn)}
		f.kind = "var:" + vn
		f.eval = func(iv map[string]string, env *c10Env) c10Val { return c10Val{set: true, s: env.vars[vn]} }
	case "func":
		f.lines = []string{fmt.Sprintf("set %s = ufunc(%s);", out, rin)}
		dom := []string{"nomatch"}
		for _, a := range g.m.ufArms {
			if a.kind == "eq" {
				dom = append(dom, a.c)
			} else {
				dom = append(dom, a.c+"tail", a.c)
			}
		}
		f.ins = []c10In{{in, dom}}
		m := g.m
		f.eval = func(iv map[string]string, env *c10Env) c10Val { return c10Val{set: true, s: m.ufunc(iv[in])} }
	case "host":
		f.lines = []string{fmt.Sprintf("set %s = req.http.Host;", out)}
		f.eval = func(iv map[string]string, env *c10Env) c10Val { return c10Val{set: true, s: env.host} }
	case "time":
		f.lines = []string{fmt.Sprintf("set %s = now.sec;", out)}
		f.eval = func(iv map[string]string, env *c10Env) c10Val {
			if env.fixed == "" {
				return c10Val{set: true, unknown: true}
			}
			return c10Val{set: true, s: env.fixed}
		}
	case "condcall":
		f.out = ""
		f.lines = []string{fmt.Sprintf("if (%s == \"go\") {", rin), "  call usub;", "}"}
		f.ins = []c10In{{in, []string{"no", "go"}}}
	case "mainlog":
		f.out = ""
		f.lines = []string{fmt.Sprintf("log \"main-%s \" %s;", tag, rin)}
		f.ins = []c10In{{in, []string{"m1", "m2"}}}
		f.logf = func(iv map[string]string) string { return "main-" + tag + " " + iv[in] }
	}
	return f
}

// ---------------------------------------------------------------------------
// test bodies

type c10Body struct {
	g       *c10g
	scopes  []string // lower case
	lines   []string
	dead    []bool
	why     []string
	logs    [][]string
	labels  map[string]bool
	trig    map[string]bool
	needs   map[int]bool
	foldMsg []string
}

func (g *c10g) newBody(scopes []string) *c10Body {
	return &c10Body{g: g, scopes: scopes, dead: make([]bool, len(scopes)), why: make([]string, len(scopes)),
		logs: make([][]string, len(scopes)), labels: map[string]bool{}, trig: map[string]bool{}, needs: map[int]bool{}}
}

func (b *c10Body) add(l ...string) { b.lines = append(b.lines, l...) }

func (b *c10Body) anyAlive() bool {
	for _, d := range b.dead {
		if !d {
			return true
		}
	}
	return false
}

// failIn marks the next statement as failing in the scopes selected by sel.
func (b *c10Body) failIn(why string, sel func(scope string) bool) {
	for i, sc := range b.scopes {
		if !b.dead[i] && sel(sc) {
			b.dead[i] = true
			b.why[i] = why
		}
	}
}

func (b *c10Body) fail(why string) { b.failIn(why, func(string) bool { return true }) }

// logv emits a log statement whose value is val ("\x00" prefix = wildcard).
func (b *c10Body) logv(expr, val string) {
	b.add("log " + expr + ";")
	for i := range b.scopes {
		if !b.dead[i] {
			b.logs[i] = append(b.logs[i], val)
		}
	}
	if b.anyAlive() {
		b.labels["log"] = true
	}
}

func (b *c10Body) label(l string) {
	if b.anyAlive() {
		b.labels[l] = true
	} else {
		b.labels["unreached"] = true
	}
}

const c10Wild = "\x00*"

func (g *c10g) msgArg(label string) string {
	if g.chance(1, 5, label) {
		return fmt.Sprintf(", \"custom message %d\"", g.id())
	}
	return ""
}

// strAssert emits one assertion about a STRING expression whose value is val.
func (b *c10Body) strAssert(expr, val string, hold bool) {
	g := b.g
	kinds := []string{"equal", "strict_equal", "not_equal", "not_strict_equal", "equal_fold", "contains", "not_contains",
		"starts_with", "ends_with", "match", "not_match", "assert", "true", "false", "is_notset"}
	k := g.pickS(kinds, "strkind")
	other := c10Other(val)
	n := len(val)
	var line string
	switch k {
	case "equal", "strict_equal":
		e := val
		if !hold {
			e = other
		}
		line = fmt.Sprintf("assert.%s(%s, %s%s);", k, expr, q(e), g.msgArg("msg"))
	case "not_equal", "not_strict_equal":
		e := other
		if !hold {
			e = val
		}
		line = fmt.Sprintf("assert.%s(%s, %s%s);", k, expr, q(e), g.msgArg("msg"))
	case "equal_fold":
		e := val
		trigger := false
		// avoid-weight: operands that differ in case only are the trigger of a known finding
		if hold && c10SwapCase(val) != val && g.chance(1, 16, "foldcase") {
			e = c10SwapCase(val)
			trigger = true
		}
		if !hold {
			e = other
		}
		msg := g.msgArg("msg")
		line = fmt.Sprintf("assert.equal_fold(%s, %s%s);", expr, q(e), msg)
		if trigger && b.anyAlive() {
			b.trig[c10KeyEqualFold] = true
			if msg != "" {
				b.foldMsg = append(b.foldMsg, strings.Trim(msg, ", \""))
			}
			k = "equal_fold-case-differs"
		}
	case "contains", "not_contains":
		sub := val
		if n >= 3 {
			lo := g.intn(0, n-2, "sublo")
			hi := g.intn(lo+1, n, "subhi")
			sub = val[lo:hi]
		}
		present := hold == (k == "contains")
		if !present {
			sub = "q9" + sub
		}
		line = fmt.Sprintf("assert.%s(%s, %s%s);", k, expr, q(sub), g.msgArg("msg"))
	case "starts_with":
		p := val[:g.intn(1, n, "plen")]
		if !hold {
			p = "q" + p
		}
		line = fmt.Sprintf("assert.starts_with(%s, %s%s);", expr, q(p), g.msgArg("msg"))
	case "ends_with":
		p := val[n-g.intn(1, n, "slen"):]
		if !hold {
			p = p + "q"
		}
		line = fmt.Sprintf("assert.ends_with(%s, %s%s);", expr, q(p), g.msgArg("msg"))
	case "match", "not_match":
		// patterns on which anchored and unanchored matching agree
		matching := hold == (k == "match")
		var pat string
		if matching {
			switch g.intn(0, 2, "pat") {
			case 0:
				pat = "^" + regexp.QuoteMeta(val) + "$"
			case 1:
				pat = "^" + regexp.QuoteMeta(val[:1]) + ".*$"
			default:
				pat = "^.*" + regexp.QuoteMeta(val[n-1:]) + "$"
			}
		} else {
			pat = g.pickS([]string{"^q9+$", "q7q7", "^$"}, "pat")
		}
		if strings.ContainsAny(pat, "\\\"") {
			pat = "^.+$"
			if !matching {
				pat = "^q9+$"
			}
		}
		line = fmt.Sprintf("assert.%s(%s, %s%s);", k, expr, q(pat), g.msgArg("msg"))
	case "assert":
		switch {
		case hold && g.chance(1, 3, "truthy"):
			line = fmt.Sprintf("assert(%s);", expr)
		case hold:
			line = fmt.Sprintf("assert(%s == %s);", expr, q(val))
		case g.chance(1, 2, "neq"):
			line = fmt.Sprintf("assert(%s != %s);", expr, q(val))
		default:
			line = fmt.Sprintf("assert(%s == %s);", expr, q(other))
		}
	case "true":
		e := val
		if !hold {
			e = other
		}
		if !hold && g.chance(1, 4, "typemismatch") {
			// documented: "Fail because expression value is not BOOL true"
			line = fmt.Sprintf("assert.true(%s);", expr)
			k = "true-on-string"
		} else {
			line = fmt.Sprintf("assert.true(%s == %s%s);", expr, q(e), g.msgArg("msg"))
		}
	case "false":
		e := other
		if !hold {
			e = val
		}
		if !hold && g.chance(1, 4, "typemismatch") {
			line = fmt.Sprintf("assert.false(%s);", expr)
			k = "false-on-string"
		} else {
			line = fmt.Sprintf("assert.false(%s == %s%s);", expr, q(e), g.msgArg("msg"))
		}
	case "is_notset":
		// a set value is not NotSet: only the failing direction applies here
		if hold {
			line = fmt.Sprintf("assert.equal(%s, %s);", expr, q(val))
			k = "equal"
		} else {
			line = fmt.Sprintf("assert.is_notset(%s);", expr)
		}
	}
	b.emitAssert(k, line, hold)
}

func (b *c10Body) emitAssert(kind, line string, hold bool) {
	if hold {
		b.label("a:" + kind + ":hold")
	} else {
		b.label("a:" + kind + ":fail")
	}
	if strings.Contains(line, "custom message") {
		b.label("custom-message")
	}
	b.add(line)
	if !hold {
		b.fail("assert:" + kind)
	}
}

// directUnit: set up a fresh value and assert on it (no subroutine call).
func (b *c10Body) directUnit(hold bool) {
	g := b.g
	id := g.id()
	switch g.intn(0, 9, "direct") {
	case 0: // INTEGER local
		v := g.intn(0, 99, "int")
		name := fmt.Sprintf("var.i%d", id)
		b.add(fmt.Sprintf("declare local %s INTEGER;", name), fmt.Sprintf("set %s = %d;", name, v))
		k := g.pickS([]string{"equal", "strict_equal", "not_equal", "not_strict_equal", "equal-type-mismatch", "not_equal-type-mismatch"}, "intkind")
		switch k {
		case "equal", "strict_equal":
			e := v
			if !hold {
				e = v + 1
			}
			b.emitAssert(k+"-int", fmt.Sprintf("assert.%s(%s, %d%s);", k, name, e, g.msgArg("msg")), hold)
		case "not_equal", "not_strict_equal":
			e := v + 1
			if !hold {
				e = v
			}
			b.emitAssert(k+"-int", fmt.Sprintf("assert.%s(%s, %d%s);", k, name, e, g.msgArg("msg")), hold)
		case "equal-type-mismatch":
			// documented: "Fail because value type is not equal"
			if hold {
				b.emitAssert("equal-int", fmt.Sprintf("assert.equal(%s, %d);", name, v), true)
			} else {
				b.emitAssert(k, fmt.Sprintf("assert.strict_equal(%s, \"%d\");", name, v), false)
			}
		case "not_equal-type-mismatch":
			if hold {
				b.emitAssert("not_equal-int", fmt.Sprintf("assert.not_equal(%s, %d);", name, v+1), true)
			} else {
				b.emitAssert(k, fmt.Sprintf("assert.not_strict_equal(%s, \"%d\");", name, v+1), false)
			}
		}
	case 1: // BOOL local
		k := g.pickS([]string{"true", "false", "equal", "assert"}, "boolkind")
		val := g.chance(1, 2, "boolval")
		switch k {
		case "true", "assert":
			val = hold
		case "false":
			val = !hold
		}
		name := fmt.Sprintf("var.b%d", id)
		b.add(fmt.Sprintf("declare local %s BOOL;", name), fmt.Sprintf("set %s = %v;", name, val))
		switch k {
		case "true":
			b.emitAssert("true-bool", fmt.Sprintf("assert.true(%s%s);", name, g.msgArg("msg")), hold)
		case "false":
			b.emitAssert("false-bool", fmt.Sprintf("assert.false(%s%s);", name, g.msgArg("msg")), hold)
		case "equal":
			e := val
			if !hold {
				e = !val
			}
			b.emitAssert("equal-bool", fmt.Sprintf("assert.equal(%s, %v);", name, e), hold)
		case "assert":
			b.emitAssert("assert-bool", fmt.Sprintf("assert(%s);", name), hold)
		}
	case 2: // NotSet
		switch g.intn(0, 2, "notset") {
		case 0:
			h := fmt.Sprintf("req.http.Never%d", id)
			if hold {
				b.emitAssert("is_notset-header", fmt.Sprintf("assert.is_notset(%s);", h), true)
			} else {
				b.add(fmt.Sprintf("set %s = \"\";", h))
				b.emitAssert("is_notset-empty", fmt.Sprintf("assert.is_notset(%s);", h), false)
			}
		case 1:
			h := fmt.Sprintf("req.http.Gone%d", id)
			b.add(fmt.Sprintf("set %s = \"x\";", h))
			if hold {
				b.add(fmt.Sprintf("unset %s;", h))
			}
			b.emitAssert("is_notset-unset", fmt.Sprintf("assert.is_notset(%s);", h), hold)
		default:
			name := fmt.Sprintf("var.s%d", id)
			b.add(fmt.Sprintf("declare local %s STRING;", name))
			if !hold {
				b.add(fmt.Sprintf("set %s = \"\";", name))
			}
			b.emitAssert("is_notset-local", fmt.Sprintf("assert.is_notset(%s);", name), hold)
		}
	case 3: // JSON
		good := g.pickS([]string{"[1,2,3]", "{\"a\":1}", "{\"a\":[1,{\"b\":null}]}", "\"s\"", "12"}, "json")
		bad := g.pickS([]string{"[1,2,3,]", "{a:1}", "{\"a\":1", "nope"}, "badjson")
		v := good
		if !hold {
			v = bad
		}
		h := fmt.Sprintf("req.http.J%d", id)
		b.add(fmt.Sprintf("set %s = {\"%s\"};", h, v))
		b.emitAssert("is_json", fmt.Sprintf("assert.is_json(%s%s);", h, g.msgArg("msg")), hold)
	case 4: // nothing called yet
		k := g.pickS([]string{"not_subroutine_called", "subroutine_called", "not_restart", "restart", "not_error", "error", "state", "not_state"}, "nocall")
		var line string
		var holds bool
		switch k {
		case "not_subroutine_called":
			line, holds = fmt.Sprintf("assert.not_subroutine_called(\"never_called_sub\"%s);", g.msgArg("msg")), true
		case "subroutine_called":
			line, holds = fmt.Sprintf("assert.subroutine_called(\"never_called_sub\"%s);", g.msgArg("msg")), false
		case "not_restart":
			line, holds = "assert.not_restart();", true
		case "restart":
			line, holds = "assert.restart();", false
		case "not_error":
			line, holds = "assert.not_error();", true
		case "error":
			line, holds = "assert.error(601);", false
		case "state":
			line, holds = "assert.state(lookup);", false
		case "not_state":
			line, holds = "assert.not_state(lookup);", true
		}
		if holds != hold {
			// fall back to a string assertion in the requested direction
			b.directString(hold)
			return
		}
		b.emitAssert(k+"-nocall", line, holds)
	case 5: // functional subroutine called from the test
		dom := []string{"nomatch"}
		for _, a := range g.m.ufArms {
			dom = append(dom, a.c)
			if a.kind == "re" {
				dom = append(dom, a.c+"tail")
			}
		}
		arg := g.pickS(dom, "ufarg")
		name := fmt.Sprintf("var.r%d", id)
		b.add(fmt.Sprintf("declare local %s STRING;", name),
			fmt.Sprintf("set %s = testing.call_subroutine(\"ufunc\", %s);", name, q(arg)))
		b.label("call-functional")
		b.strAssert(name, g.m.ufunc(arg), hold)
	default:
		b.directString(hold)
	}
}

func (b *c10Body) directString(hold bool) {
	g := b.g
	id := g.id()
	w := g.pickS(c10Words, "word")
	expr := fmt.Sprintf("req.http.V%d", id)
	if g.chance(1, 4, "localstr") {
		expr = fmt.Sprintf("var.v%d", id)
		b.add(fmt.Sprintf("declare local %s STRING;", expr))
	}
	b.add(fmt.Sprintf("set %s = %s;", expr, q(w)))
	if g.chance(1, 4, "logval") {
		b.logv(fmt.Sprintf("\"L%d \" %s", id, expr), fmt.Sprintf("L%d %s", id, w))
	}
	b.strAssert(expr, w, hold)
}

// runtimeError emits a statement that raises a runtime error (verified
// against the documented behaviour / interpreter: not a parse error).
func (b *c10Body) runtimeError(allowScoped bool) {
	g := b.g
	kinds := []string{"call-undefined-via-testing", "call-undefined-statement", "undeclared-local", "undefined-function",
		"undefined-table", "call-arg-count", "table_set-unknown-table", "mock-unknown-sub", "scoped-variable", "scoped-variable-below-call", "scoped-variable-below-call", "scoped-variable-below-call"}
	k := g.pickS(kinds, "rtkind")
	if (k == "scoped-variable" || k == "scoped-variable-below-call") && !allowScoped {
		k = "call-undefined-via-testing"
	}
	b.runtimeErrorKind(k)
}

func (b *c10Body) runtimeErrorKind(k string) {
	g := b.g
	id := g.id()
	b.label("rt:" + k)
	switch k {
	case "call-undefined-via-testing":
		b.add(fmt.Sprintf("testing.call_subroutine(\"nosuch_sub_%d\");", id))
	case "call-undefined-statement":
		b.add(fmt.Sprintf("call nosuch_sub_%d;", id))
	case "undeclared-local":
		b.add(fmt.Sprintf("set var.undeclared%d = \"x\";", id))
	case "undefined-function":
		b.add(fmt.Sprintf("set req.http.X%d = nosuch.func%d(\"a\");", id, id))
	case "undefined-table":
		b.add(fmt.Sprintf("set req.http.X%d = table.lookup(nosuch_table_%d, \"a\", \"b\");", id, id))
	case "call-arg-count":
		b.add("testing.call_subroutine(\"ufunc\");")
	case "table_set-unknown-table":
		b.add(fmt.Sprintf("testing.table_set(nosuch_table_%d, \"a\", \"b\");", id))
	case "mock-unknown-sub":
		b.add(fmt.Sprintf("testing.mock(\"nosuch_sub_%d\", \"nosuch_mock_%d\");", id, id))
	case "scoped-variable-below-call":
		// the failing statement sits in a subroutine entered through a call statement of the invoked subroutine
		b.add("testing.call_subroutine(\"c10_rt_outer\");")
		b.failIn("runtime:"+k, func(sc string) bool { return sc != "deliver" })
		// (no statement behind it that fails on its own where the call fails: a swallowed error must show)
		return
	case "scoped-variable":
		// resp.http.* exists in DELIVER only, beresp.http.* in FETCH only (of the scopes used here)
		v, okScope := "resp.http", "deliver"
		if g.chance(1, 2, "beresp") {
			v, okScope = "beresp.http", "fetch"
		}
		b.add(fmt.Sprintf("set %s.X%d = \"1\";", v, id))
		b.failIn("runtime:"+k, func(sc string) bool { return sc != okScope })
		// where the variable exists the statement is an ordinary assignment
		b.add(fmt.Sprintf("assert.equal(%s.X%d, \"1\");", v, id))
		return
	}
	b.fail("runtime:" + k)
}

// ---------------------------------------------------------------------------
// tests

var c10AllScopes = []string{"recv", "hash", "hit", "miss", "pass", "fetch", "error", "deliver", "log"}

func (g *c10g) finish(b *c10Body, name string, skip bool, extraLabels ...string) {
	id := g.id()
	subName := fmt.Sprintf("t%d_%s", id, name)
	reported := subName
	var hdr []string
	lead := "//"
	if g.chance(1, 6, "sharp") {
		lead = "#"
		b.labels["annotation-sharp"] = true
	}
	sep := ","
	if g.chance(1, 3, "scopesep") {
		sep = ", "
	}
	ann := []string{lead + " @scope: " + strings.Join(b.scopes, sep)}
	if g.chance(1, 4, "suite") {
		reported = fmt.Sprintf("suite %d %s", id, name)
		ann = append(ann, lead+" @suite: "+reported)
		b.labels["suite-name"] = true
	}
	if skip {
		ann = append(ann, lead+" @skip")
	}
	if g.chance(1, 5, "plaincomment") {
		hdr = append(hdr, lead+" generated test "+name)
	}
	if len(ann) > 1 && g.chance(1, 3, "annorder") {
		ann[0], ann[len(ann)-1] = ann[len(ann)-1], ann[0]
	}
	hdr = append(hdr, ann...)
	var sb strings.Builder
	for _, h := range hdr {
		sb.WriteString(h + "\n")
	}
	sb.WriteString("sub " + subName + " {\n")
	for _, l := range b.lines {
		sb.WriteString("  " + l + "\n")
	}
	sb.WriteString("}\n")
	t := C10Test{Name: reported, Src: sb.String(), Skip: skip}
	for i, sc := range b.scopes {
		e := C10Expect{Scope: strings.ToUpper(sc)}
		if !skip {
			e.Fail = b.dead[i]
			e.Why = b.why[i]
			e.Logs = append([]string{}, b.logs[i]...)
		}
		t.Expect = append(t.Expect, e)
	}
	if skip {
		t.Labels = append(t.Labels, "skip")
		if len(b.scopes) > 1 {
			t.Labels = append(t.Labels, "skip-multi-scope")
		}
	} else {
		for l := range b.labels {
			t.Labels = append(t.Labels, l)
		}
		for k := range b.trig {
			t.Trig = append(t.Trig, k)
		}
		sort.Strings(t.Trig)
		t.FoldMsg = b.foldMsg
		if len(b.scopes) > 1 {
			t.Labels = append(t.Labels, "multi-scope")
			verd := map[bool]bool{}
			for _, d := range b.dead {
				verd[d] = true
			}
			if len(verd) == 2 {
				t.Labels = append(t.Labels, "multi-scope-verdict-differs")
			}
		}
		t.Labels = append(t.Labels, extraLabels...)
	}
	for _, sc := range b.scopes {
		t.Labels = append(t.Labels, "scope:"+sc)
	}
	sort.Strings(t.Labels)
	for n := range b.needs {
		t.Needs = append(t.Needs, n)
	}
	sort.Ints(t.Needs)
	g.tests = append(g.tests, t)
}

func (g *c10g) newEnv() *c10Env {
	e := &c10Env{table: map[string]string{}, vars: map[string]string{}, host: "localhost"}
	for k, v := range g.m.tableInit {
		e.table[k] = v
	}
	for k, v := range c10Defaults {
		e.vars[k] = v
	}
	return e
}

// mockHelper returns the index of a helper test (a subroutine in the test
// file used as mock target; falco also runs it as a test of its own).
func (g *c10g) mockHelper() (int, string) {
	marker := g.pickS([]string{"mocked-1", "mocked-2"}, "mockmarker")
	if idx, ok := g.mockIdx[marker]; ok {
		return idx, marker
	}
	name := "mock_usub_" + marker[len(marker)-1:]
	src := "// @scope: recv\nsub " + name + " {\n  set req.http.U-Called = " + q(marker) + ";\n}\n"
	g.tests = append(g.tests, C10Test{Name: name, Src: src, Helper: true,
		Expect: []C10Expect{{Scope: "RECV"}}, Labels: []string{"helper-mock-target"}})
	g.mockIdx[marker] = len(g.tests) - 1
	return len(g.tests) - 1, marker
}

func (g *c10g) mergeTable() (string, map[string]string) {
	name := g.pickS([]string{"mtbl_1", "mtbl_2"}, "mtable")
	if t, ok := g.mtables[name]; ok {
		return name, t
	}
	t := map[string]string{}
	n := g.intn(1, 2, "mtn")
	var lines []string
	lines = append(lines, "table "+name+" STRING {")
	for i := 0; i < n; i++ {
		k := g.pickS(c10TableSetKeys, "mtkey")
		if _, dup := t[k]; dup {
			continue
		}
		t[k] = fmt.Sprintf("merged-%s-%s", name[len(name)-1:], k)
		lines = append(lines, fmt.Sprintf("  %s: %s,", q(k), q(t[k])))
	}
	lines = append(lines, "}", "")
	g.pre = append(g.pre, lines...)
	g.mtables[name] = t
	g.mtOrder = append(g.mtOrder, name)
	return name, t
}

// touch applies 0..2 runner-global facilities inside a test.
func (g *c10g) touch(b *c10Body, env *c10Env, s *c10Sub, n int) {
	for i := 0; i < n; i++ {
		fac := g.pickS([]string{"inject_variable", "table_set", "table_merge", "mock", "fixed_time", "override_host", "set_backend_health", "get_env"}, "facility")
		switch fac {
		case "inject_variable":
			vn := g.pickS(c10VarNames, "injvar")
			val := g.pickS(c10Regions, "injval")
			b.add(fmt.Sprintf("testing.inject_variable(%s, %s);", q(vn), q(val)))
			env.vars[vn] = val
			if g.chance(1, 2, "directcheck") {
				b.strAssert(vn, val, true)
			}
		case "table_set":
			k := g.pickS(c10TableSetKeys, "tskey")
			v := fmt.Sprintf("set-%d", g.id())
			b.add(fmt.Sprintf("testing.table_set(tbl, %s, %s);", q(k), q(v)))
			env.table[k] = v
			if g.chance(1, 2, "directcheck") {
				b.strAssert(fmt.Sprintf("table.lookup(tbl, %s, \"none\")", q(k)), v, true)
			}
		case "table_merge":
			name, t := g.mergeTable()
			b.add(fmt.Sprintf("testing.table_merge(tbl, %s);", name))
			keys := make([]string, 0, len(t))
			for k := range t {
				keys = append(keys, k)
			}
			sort.Strings(keys)
			for _, k := range keys {
				env.table[k] = t[k]
			}
			if g.chance(1, 2, "directcheck") {
				k := keys[g.intn(0, len(keys)-1, "mkey")]
				b.strAssert(fmt.Sprintf("table.lookup(tbl, %s, \"none\")", q(k)), t[k], true)
			}
		case "mock":
			if s == nil || s.calls == 0 {
				continue
			}
			idx, marker := g.mockHelper()
			b.needs[idx] = true
			b.add(fmt.Sprintf("testing.mock(\"usub\", %s);", q(g.tests[idx].Name)))
			env.mock = marker
		case "fixed_time":
			tm := g.pickS(c10Times, "time")
			b.add(fmt.Sprintf("testing.fixed_time(%s);", tm))
			env.fixed = tm
			if g.chance(1, 2, "directcheck") {
				b.strAssert("now.sec", tm, true)
			}
		case "override_host":
			h := g.pickS(c10Hosts, "host")
			b.add(fmt.Sprintf("testing.override_host(%s);", q(h)))
			env.host = h
			if g.chance(1, 2, "directcheck") {
				b.strAssert("req.http.Host", h, true)
			}
		case "set_backend_health":
			b.add("testing.set_backend_health(origin_a, false);")
			b.emitAssert("false-backend-health", "assert.false(backend.origin_a.healthy);", true)
		case "get_env":
			b.strAssert("testing.get_env(\"C10_ENV\")", "c10-env-value", true)
		}
		b.label("fac:" + fac)
	}
}

// callTest: set every input, optionally touch global facilities, call the
// lifecycle subroutine, assert on its outputs.
func (g *c10g) callTest(observer bool) {
	scope := g.pickS([]string{"recv", "recv", "fetch", "deliver"}, "scope")
	s := g.m.subs[scope]
	b := g.newBody([]string{scope})
	env := g.newEnv()
	in := map[string]string{}
	for _, f := range s.feats {
		for _, i := range f.ins {
			v := g.pickS(i.dom, "in")
			// avoid-weight for the coverage known finding
			if f.kind == "ifexpr-capture" && strings.HasSuffix(i.name, "b") && v == "yy" && !g.chance(1, 3, "keeptrigger") {
				v = "nn"
			}
			in[i.name] = v
			if v == "<unset>" {
				b.add(fmt.Sprintf("unset req.http.%s;", i.name))
				continue
			}
			b.add(fmt.Sprintf("set req.http.%s = %s;", i.name, q(v)))
		}
	}
	gv := g.pickS(append([]string{"none"}, s.goArms...), "go")
	in[s.goName] = gv
	b.add(fmt.Sprintf("set req.http.%s = %s;", s.goName, q(gv)))
	nt := 0
	if !observer {
		nt = g.intn(0, 2, "ntouch")
		g.touch(b, env, s, nt)
	}
	if g.chance(1, 8, "prelog") {
		id := g.id()
		b.logv(fmt.Sprintf("\"before-call %d\"", id), fmt.Sprintf("before-call %d", id))
	}
	b.add(fmt.Sprintf("testing.call_subroutine(\"vcl_%s\");", scope))
	r := s.run(in, env)
	for _, l := range r.mainLogs {
		for i := range b.scopes {
			if !b.dead[i] {
				b.logs[i] = append(b.logs[i], l)
			}
		}
		b.label("main-vcl-log")
	}
	// outputs whose value depends on semantics the generator does not claim to
	// know are only logged (value "*"): the log must be the same in every run
	wildNames := make([]string, 0, len(r.wildOuts))
	for o := range r.wildOuts {
		wildNames = append(wildNames, o)
	}
	sort.Strings(wildNames)
	for _, o := range wildNames {
		if b.anyAlive() {
			b.trig[r.wildOuts[o]] = true
			b.logv(o, c10Wild)
			b.label("wild-output-logged")
		}
	}
	b.label("call:vcl_" + scope)
	b.label("state:" + r.state)

	// candidate assertions
	outs := make([]string, 0, len(r.outs))
	for o := range r.outs {
		outs = append(outs, o)
	}
	sort.Strings(outs)
	nAssert := g.intn(1, 4, "nassert")
	failAt := -1
	if g.chance(2, 5, "failing") {
		failAt = g.intn(0, nAssert-1, "failat")
	}
	for a := 0; a < nAssert; a++ {
		hold := a != failAt
		switch c := g.intn(0, 5, "about"); {
		case c <= 2 && len(outs) > 0:
			o := outs[g.intn(0, len(outs)-1, "out")]
			v := r.outs[o]
			switch {
			case v.unknown:
				if _, wild := r.wildOuts[o]; wild {
					// already logged above
				} else {
					// wall clock or unset capture group: only a statement that holds whatever the value is
					b.emitAssert("not_equal-unknown", fmt.Sprintf("assert.not_equal(%s, %s);", o, q("q9-never")), true)
				}
			case v.set:
				if g.chance(1, 4, "logout") {
					b.logv(o, v.s)
				}
				b.strAssert(o, v.s, hold)
			default:
				if hold {
					b.emitAssert("is_notset-output", fmt.Sprintf("assert.is_notset(%s);", o), true)
				} else {
					b.emitAssert("equal-on-notset", fmt.Sprintf("assert.equal(%s, \"vx\");", o), false)
				}
			}
		case c == 3:
			g.stateAssert(b, r, hold)
		case c == 4 && env.mock == "":
			g.callCountAssert(b, r, hold)
		default:
			if r.calls > 0 {
				b.strAssert("req.http.U-Called", r.ucalled, hold)
			} else if hold {
				b.emitAssert("is_notset-output", "assert.is_notset(req.http.U-Called);", true)
			} else {
				b.emitAssert("equal-on-notset", "assert.equal(req.http.U-Called, \"yes\");", false)
			}
		}
	}
	if r.state == "error" && g.chance(1, 3, "inspect") {
		b.label("fac:inspect")
		b.emitAssert("equal-inspect", fmt.Sprintf("assert.equal(testing.inspect(\"obj.status\"), %d);", r.errC), true)
	}
	// mock then restore inside one test
	if env.mock != "" && r.state != "restart" && g.chance(2, 3, "restore") {
		if g.chance(1, 2, "restoreall") {
			b.add("testing.restore_all_mocks();")
			b.label("fac:restore_all_mocks")
		} else {
			b.add("testing.restore_mock(\"usub\");")
			b.label("fac:restore_mock")
		}
		b.add("set req.http.U-Called = \"reset\";")
		b.add(fmt.Sprintf("testing.call_subroutine(\"vcl_%s\");", scope))
		for _, l := range r.mainLogs {
			for i := range b.scopes {
				if !b.dead[i] {
					b.logs[i] = append(b.logs[i], l)
				}
			}
		}
		b.strAssert("req.http.U-Called", "yes", true)
	}
	if observer {
		g.finish(b, "observe_"+scope, false, "observer-call")
	} else {
		g.finish(b, "call_"+scope, g.chance(1, 10, "skip"))
	}
}

func (g *c10g) stateAssert(b *c10Body, r c10SubResult, hold bool) {
	states := []string{"lookup", "pass", "error", "restart", "deliver"}
	otherState := func() string {
		for {
			s := g.pickS(states, "otherstate")
			if s != r.state {
				return s
			}
		}
	}
	msg := ""
	// avoid-weight: a custom message on assert.state/not_state is the trigger of a known finding
	if g.chance(1, 50, "statemsg") {
		msg = fmt.Sprintf(", \"custom message %d\"", g.id())
	}
	kinds := []string{"state", "not_state", "not_error", "not_restart"}
	switch r.state {
	case "error":
		kinds = []string{"state", "not_state", "error", "error", "inspect", "inspect", "not_restart"}
	case "restart":
		kinds = []string{"state", "not_state", "restart", "restart", "not_error"}
	}
	k := g.pickS(kinds, "statekind")
	switch k {
	case "state":
		st := r.state
		if !hold {
			st = otherState()
		}
		if msg != "" && b.anyAlive() {
			b.trig[c10KeyStateMsg] = true
		}
		b.emitAssert("state", fmt.Sprintf("assert.state(%s%s);", st, msg), hold)
	case "not_state":
		st := otherState()
		if !hold {
			st = r.state
		}
		if msg != "" && b.anyAlive() {
			b.trig[c10KeyStateMsg] = true
		}
		b.emitAssert("not_state", fmt.Sprintf("assert.not_state(%s%s);", st, msg), hold)
	case "not_error":
		// state is not error here
		if hold {
			b.emitAssert("not_error", fmt.Sprintf("assert.not_error(%s);", strings.TrimPrefix(g.msgArg("msg"), ", ")), true)
		} else {
			b.emitAssert("error-not-raised", "assert.error(601);", false)
		}
	case "not_restart":
		if hold {
			b.emitAssert("not_restart", fmt.Sprintf("assert.not_restart(%s);", strings.TrimPrefix(g.msgArg("msg"), ", ")), true)
		} else {
			b.emitAssert("restart-not-raised", fmt.Sprintf("assert.restart(%s);", strings.TrimPrefix(g.msgArg("msg"), ", ")), false)
		}
	case "error":
		switch {
		case hold && g.chance(1, 2, "withresp"):
			b.emitAssert("error", fmt.Sprintf("assert.error(%d, %s%s);", r.errC, q(r.errMsg), g.msgArg("msg")), true)
		case hold:
			b.emitAssert("error", fmt.Sprintf("assert.error(%d);", r.errC), true)
		case g.chance(1, 3, "wrongresp"):
			b.emitAssert("error", fmt.Sprintf("assert.error(%d, %s);", r.errC, q(r.errMsg+"-x")), false)
		case g.chance(1, 2, "noterror"):
			b.emitAssert("not_error", "assert.not_error();", false)
		default:
			b.emitAssert("error", fmt.Sprintf("assert.error(%d);", r.errC+20), false)
		}
	case "inspect":
		e := r.errC
		if !hold {
			e++
		}
		b.label("fac:inspect")
		b.emitAssert("equal-inspect", fmt.Sprintf("assert.equal(testing.inspect(\"obj.status\"), %d);", e), hold)
	case "restart":
		if hold {
			b.emitAssert("restart", fmt.Sprintf("assert.restart(%s);", strings.TrimPrefix(g.msgArg("msg"), ", ")), true)
		} else {
			b.emitAssert("not_restart", "assert.not_restart();", false)
		}
	}
}

func (g *c10g) callCountAssert(b *c10Body, r c10SubResult, hold bool) {
	n := r.calls
	switch {
	case n == 0 && hold:
		b.emitAssert("not_subroutine_called", fmt.Sprintf("assert.not_subroutine_called(\"usub\"%s);", g.msgArg("msg")), true)
	case n == 0:
		if g.chance(1, 2, "times") {
			b.emitAssert("subroutine_called", "assert.subroutine_called(\"usub\", 1);", false)
		} else {
			b.emitAssert("subroutine_called", fmt.Sprintf("assert.subroutine_called(\"usub\"%s);", g.msgArg("msg")), false)
		}
	case hold && n == 1 && g.chance(1, 2, "notimes"):
		b.emitAssert("subroutine_called", fmt.Sprintf("assert.subroutine_called(\"usub\"%s);", g.msgArg("msg")), true)
	case hold:
		b.emitAssert("subroutine_called-times", fmt.Sprintf("assert.subroutine_called(\"usub\", %d%s);", n, g.msgArg("msg")), true)
	case g.chance(1, 2, "notcalled"):
		b.emitAssert("not_subroutine_called", fmt.Sprintf("assert.not_subroutine_called(\"usub\"%s);", g.msgArg("msg")), false)
	default:
		b.emitAssert("subroutine_called-times", fmt.Sprintf("assert.subroutine_called(\"usub\", %d);", n+1+g.intn(0, 1, "off")), false)
	}
}

// observeDefaults: a sibling test that looks at the documented defaults of
// everything another test may have overridden.
func (g *c10g) observeDefaults() {
	scope := g.pickS([]string{"recv", "fetch", "deliver"}, "scope")
	b := g.newBody([]string{scope})
	n := g.intn(1, 4, "nobs")
	for i := 0; i < n; i++ {
		k := g.pickS([]string{"var", "table", "host", "time", "health", "table-absent"}, "obskind")
		switch k {
		case "var":
			vn := g.pickS(c10VarNames, "var")
			if g.chance(1, 2, "logit") {
				b.logv(vn, c10Defaults[vn])
			}
			b.strAssert(vn, c10Defaults[vn], true)
		case "table":
			key := g.pickS(g.m.tableKeys, "key")
			b.strAssert(fmt.Sprintf("table.lookup(tbl, %s, \"none\")", q(key)), g.m.tableInit[key], true)
		case "table-absent":
			key := g.pickS([]string{"kx", "ky", "k9"}, "key")
			b.strAssert(fmt.Sprintf("table.lookup(tbl, %s, \"none\")", q(key)), "none", true)
		case "host":
			b.strAssert("req.http.Host", "localhost", true)
		case "time":
			b.emitAssert("not_equal-time", fmt.Sprintf("assert.not_equal(now.sec, %s);", q(g.pickS(c10Times, "time"))), true)
		case "health":
			b.emitAssert("true-backend-health", "assert.true(backend.origin_a.healthy);", true)
		}
		b.label("obs:" + k)
	}
	g.finish(b, "defaults_"+scope, false, "observer")
}

// directTest: assertions and runtime errors without calling main VCL
// subroutines; optionally on several scopes.
func (g *c10g) directTest() {
	var scopes []string
	switch g.intn(0, 3, "nscopes") {
	case 0, 1:
		scopes = []string{g.pickS([]string{"recv", "fetch", "deliver"}, "scope")}
	case 2:
		scopes = append(scopes, rapid.Permutation([]string{"recv", "fetch", "deliver"}).Draw(g.t, "scopes")[:2]...)
	default:
		k := g.intn(2, 4, "k")
		scopes = append(scopes, rapid.Permutation(c10AllScopes).Draw(g.t, "scopes")[:k]...)
	}
	b := g.newBody(scopes)
	onlyTrio := true
	for _, s := range scopes {
		if s != "recv" && s != "fetch" && s != "deliver" {
			onlyTrio = false
		}
	}
	n := g.intn(1, 4, "nunits")
	failAt := -1
	if g.chance(1, 2, "failing") {
		failAt = g.intn(0, n-1, "failat")
	}
	if len(scopes) == 1 && g.chance(1, 4, "touch") {
		g.touch(b, g.newEnv(), nil, 1)
	}
	for u := 0; u < n; u++ {
		if g.chance(1, 4, "log") {
			id := g.id()
			b.logv(fmt.Sprintf("\"plain log %d\"", id), fmt.Sprintf("plain log %d", id))
		}
		if u == failAt {
			if onlyTrio && len(scopes) > 1 && g.chance(1, 2, "scopedvar") {
				b.runtimeErrorKind("scoped-variable")
			} else if g.chance(1, 2, "runtime") {
				b.runtimeError(onlyTrio)
			} else {
				b.directUnit(false)
			}
		} else {
			b.directUnit(true)
		}
	}
	g.finish(b, "direct", g.chance(1, 8, "skip"))
}

// ---------------------------------------------------------------------------

func genC10(t *rapid.T) any {
	g := &c10g{t: t, mockIdx: map[string]int{}, mtables: map[string]map[string]string{}}
	g.genMain()
	nTests := rapid.IntRange(1, 8).Draw(t, "ntests")
	for len(g.tests) < nTests {
		switch c := g.intn(0, 9, "plan"); {
		case c <= 3:
			g.callTest(false)
		case c <= 6:
			g.directTest()
		case c == 7:
			g.callTest(true)
		default:
			g.observeDefaults()
		}
	}
	c := C10Case{Main: g.m.src + "\n", Pre: strings.Join(g.pre, "\n"), Tests: g.tests}
	if c.Pre != "" {
		c.Pre += "\n"
	}

	// runs
	n := len(g.tests)
	var real []int
	identity := make([]int, n)
	for i := range g.tests {
		identity[i] = i
		if !g.tests[i].Helper {
			real = append(real, i)
		}
	}
	covFlag := func() string {
		if g.chance(1, 3, "covflag") {
			return "--coverage"
		}
		return "-coverage"
	}
	c.Runs = append(c.Runs,
		C10Run{Order: identity, Kind: "full"},
		C10Run{Order: identity, Kind: "full", Coverage: true, CovFlag: covFlag()},
		C10Run{Order: identity, Kind: "full", Plain: true, Coverage: g.chance(1, 2, "plaincov"), CovFlag: "--coverage"})
	withHelpers := func(order []int) []int {
		need := map[int]bool{}
		in := map[int]bool{}
		for _, i := range order {
			in[i] = true
		}
		for _, i := range order {
			for _, h := range g.tests[i].Needs {
				if !in[h] {
					need[h] = true
				}
			}
		}
		hs := make([]int, 0, len(need))
		for h := range need {
			hs = append(hs, h)
		}
		sort.Ints(hs)
		out := append([]int{}, order...)
		for _, h := range hs {
			at := g.intn(0, len(out), "helperat")
			out = append(out[:at], append([]int{h}, out[at:]...)...)
		}
		return out
	}
	for _, i := range real {
		o := withHelpers([]int{i})
		cov := g.chance(1, 2, "singlecov")
		c.Runs = append(c.Runs, C10Run{Order: o, Kind: "single", Coverage: cov, CovFlag: "-coverage"})
		if len(real) <= 4 {
			c.Runs = append(c.Runs, C10Run{Order: o, Kind: "single", Coverage: !cov, CovFlag: "--coverage"})
		}
	}
	if len(real) >= 2 {
		for j := 0; j < 2; j++ {
			perm := rapid.Permutation(real).Draw(t, "perm")
			size := len(real)
			kind := "permutation"
			if j == 1 && len(real) > 2 {
				size = g.intn(2, len(real)-1, "subsetsize")
				kind = "subset"
			}
			o := withHelpers(perm[:size])
			c.Runs = append(c.Runs,
				C10Run{Order: o, Kind: kind},
				C10Run{Order: o, Kind: kind, Coverage: true, CovFlag: covFlag()})
		}
	}
	return c
}
