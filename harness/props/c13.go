package props

import (
	"encoding/json"
	"fmt"
	"sort"
	"strings"
	"time"

	"github.com/ysugimoto/falco/v2/interpreter"
	"github.com/ysugimoto/falco/v2/interpreter/value"
	"pgregory.net/rapid"

	"verif/iso"
	"verif/ref"
)

// C13 — evaluation changes only what it names (frame conditions).

type C13Step struct {
	Src      string   `json:"src"`
	Kind     string   `json:"kind"`
	MayWrite []string `json:"may_write"` // names the statement is allowed to change
	Match    bool     `json:"match"`     // contains ~ / !~ / regsub: re.group.* may change
	Reads    bool     `json:"reads"`     // reads >=1 pooled variable other than its target through an operator or call
}

type C13Case struct {
	Steps []C13Step `json:"steps"`
	// kind "objects" (c13_objects.go): header writes on one HTTP object during a real request
	Kind   string     `json:"kind,omitempty"`
	Path   string     `json:"path,omitempty"`
	ObjOps []C13ObjOp `json:"obj_ops,omitempty"`
}

const c13Subs = `
sub helper_a(STRING var.p, INTEGER var.q) {
  declare local var.i1 INTEGER;
  declare local var.s1 STRING;
  set var.i1 = 99;
  set var.s1 = "inner";
  set var.p = var.p "x";
  set var.q += 1;
  if (var.p ~ "(.)(.*)") {
    set req.http.Helper = re.group.1 var.q;
  }
}
sub helper_b {
  declare local var.i2 INTEGER;
  set var.i2 = 7;
  if (req.http.H1 ~ "^(.)") {
    set req.http.Helper = re.group.1;
  }
  call helper_a("zz", 3);
}
sub helper_re(REGEX var.pat) {
  if (req.http.H1 ~ var.pat) {
    set req.http.Helper = "re-matched";
  }
}
sub fn_t(TIME var.when) STRING {
  set var.when += 1h;
  return "at " var.when + 5m " done";
}
sub fn_s(STRING var.p) STRING {
  declare local var.s2 STRING;
  set var.s2 = "fn-local";
  set var.p = var.p "!";
  if (var.p ~ "(.+)!") {
    return re.group.1 var.s2;
  }
  return var.p;
}
sub helper_be(BACKEND var.pbe) {
  set var.pbe = b2;
  set req.http.Helper = "be";
}
sub helper_be2(BACKEND var.pbe) {
  set var.pbe = b;
  set req.http.Helper = "be2";
}
sub helper_all(FLOAT var.pf, BOOL var.pb, RTIME var.pr, IP var.pip) {
  set var.pf += 1.5;
  set var.pb = !var.pb;
  set var.pr += 1s;
  set var.pip = "9.9.9.9";
  set req.http.Helper = "all";
}
sub fn_i(INTEGER var.n) INTEGER {
  set var.n *= 2;
  return var.n;
}
`

func init() {
	register("C13",
		"straight-line and branching core-language programs over a pool of locals of every type and req headers, plus calls of user subroutines with typed parameters (procedural and functional) that assign to their parameters and own locals and run regex matches, and side-effect-free built-ins; the interpreter is driven statement by statement and the rendering/type/set-ness of every pooled name and re.group.0-3 is snapshotted before and after each statement; oracle (frame conditions): a statement changes only the names it assigns (re.group.* only if it contains a regex match), a call leaves caller locals, capture groups and argument variables unchanged (parameters of type STRING, INTEGER, FLOAT, BOOL, RTIME, IP, TIME, REGEX and BACKEND, each assigned by the callee); TIME, BACKEND and REGEX locals, req.backend and the declared backend identifiers are part of the snapshot and are exercised by time arithmetic inside concatenations, backend assignments and REGEX assignments/parameters; every built-in of builtin.yml whose argument and return types are scalar (STRING INTEGER FLOAT BOOL RTIME TIME IP; not strpad/randomstr/strrep, whose result size is an argument) is called with pooled variables as its arguments; two variables of a numeric type are seeded with extreme values (1e200, 1e308, 2^63-1, ...) and combined by every compound operator; unary minus/plus is applied to if(), grouped and already signed operands. kind objects: during a real request (miss, pass and error paths) set/add/unset of header A or B on one of req/bereq/beresp/obj/resp leaves the same-named headers of the other objects unchanged. non-trivial: the statement reads >=1 pooled variable other than its target through an operator or call; distinct by program",
		genC13, checkC13, 10*time.Second)
}

// collectTargets lists every name assigned inside a statement and whether it contains a regex match.
func collectTargets(s *ref.Stmt, targets map[string]bool, match *bool) {
	var wexpr func(e *ref.Expr)
	wexpr = func(e *ref.Expr) {
		if e == nil {
			return
		}
		if e.K == "match" {
			*match = true
		}
		wexpr(e.A)
		wexpr(e.Bx)
		wexpr(e.C)
	}
	switch s.K {
	case "set", "unset", "declare":
		targets[s.Name] = true
		wexpr(s.E)
	case "log":
		wexpr(s.E)
	case "if":
		for i := range s.Arms {
			wexpr(s.Arms[i].Cond)
			for j := range s.Arms[i].Body {
				collectTargets(&s.Arms[i].Body[j], targets, match)
			}
		}
		for j := range s.Else {
			collectTargets(&s.Else[j], targets, match)
		}
	case "switch":
		wexpr(s.E)
		for i := range s.Cases {
			if s.Cases[i].Regex {
				*match = true
			}
			for j := range s.Cases[i].Body {
				collectTargets(&s.Cases[i].Body[j], targets, match)
			}
		}
	}
}

func readsOther(s *ref.Stmt) bool {
	n := 0
	var wexpr func(e *ref.Expr)
	wexpr = func(e *ref.Expr) {
		if e == nil {
			return
		}
		if (e.K == "var" || e.K == "hdr") && e.Name != s.Name {
			n++
		}
		wexpr(e.A)
		wexpr(e.Bx)
		wexpr(e.C)
	}
	switch s.K {
	case "set":
		if s.E.K == "var" || s.E.K == "hdr" {
			return false // plain copy, no operator
		}
		wexpr(s.E)
	case "log":
		wexpr(s.E)
	case "if":
		for i := range s.Arms {
			wexpr(s.Arms[i].Cond)
		}
	case "switch":
		wexpr(s.E)
	}
	return n > 0
}

func genC13(t *rapid.T) any {
	if rapid.IntRange(0, 5).Draw(t, "objects") == 0 {
		return genC13Objects(t)
	}
	g := &coreGen{t: t}
	var c C13Case
	add := func(s *ref.Stmt) {
		targets := map[string]bool{}
		match := false
		collectTargets(s, targets, &match)
		var names []string
		for k := range targets {
			names = append(names, k)
		}
		sort.Strings(names)
		c.Steps = append(c.Steps, C13Step{Src: ref.RenderStmts([]ref.Stmt{*s}, ""), Kind: s.K, MayWrite: names, Match: match, Reads: readsOther(s)})
	}
	for _, s := range g.prelude() {
		s := s
		add(&s)
	}
	// locals of the types the core language does not model: TIME, BACKEND, REGEX (frame conditions only)
	c.Steps = append(c.Steps, C13Step{Kind: "declare-extra", MayWrite: c13Extra,
		Src: "declare local var.t1 TIME;\ndeclare local var.t2 TIME;\ndeclare local var.be1 BACKEND;\ndeclare local var.re1 REGEX;\ndeclare local var.re2 REGEX;\n" +
			"set var.t1 = std.integer2time(1000);\nset var.t2 = std.integer2time(2000);\nset var.be1 = b;\n"})
	n := rapid.IntRange(1, pick(15, 30)).Draw(t, "nsteps")
	for i := 0; i < n; i++ {
		if rapid.IntRange(0, 5).Draw(t, "extra") == 0 {
			tv := pickS(g, []string{"var.t1", "var.t2"}, "tv")
			ov := map[string]string{"var.t1": "var.t2", "var.t2": "var.t1"}[tv]
			rv := pickS(g, []string{"var.re1", "var.re2"}, "rv")
			st := pickS(g, pool.Strs, "xs")
			type xs struct {
				src string
				w   []string
			}
			x := rapid.SampledFrom([]xs{
				{fmt.Sprintf("set %s = \"e=\" %s + 5m \";\";\n", st, tv), []string{st}},
				{fmt.Sprintf("set %s = %s + 10s \"|\" %s + 1h \"|\";\n", st, tv, ov), []string{st}},
				{fmt.Sprintf("set req.http.H1 = \"t=\" %s + 30s \".\";\n", tv), []string{"req.http.H1"}},
				{fmt.Sprintf("set %s = %s + 5m;\n", tv, ov), []string{tv}},
				{fmt.Sprintf("set %s += 1s;\n", tv), []string{tv}},
				{fmt.Sprintf("set %s = if(%s > %s, \"later\", \"earlier\");\n", st, tv, ov), []string{st}},
				{"set req.backend = b2;\n", []string{"req.backend"}},
				{"set req.backend = b;\n", []string{"req.backend"}},
				{"set req.backend = var.be1;\n", []string{"req.backend"}},
				{"set var.be1 = b2;\n", []string{"var.be1"}},
				{"set var.be1 = req.backend;\n", []string{"var.be1"}},
				{fmt.Sprintf("set %s = \"^a(b+)\";\n", rv), []string{rv}},
				{fmt.Sprintf("set %s = \"x$\";\n", rv), []string{rv}},
				{"call helper_re(\"^lit\");\n", []string{"req.http.Helper"}},
				// parameters of the remaining types, each assigned by the callee: the argument variables keep their values
				{"call helper_be(var.be1);\n", []string{"req.http.Helper"}},
				{"call helper_be2(var.be1);\n", []string{"req.http.Helper"}},
				{fmt.Sprintf("call helper_all(%s, %s, %s, %s);\n", pickS(g, pool.Floats, "af"), pickS(g, pool.Bools, "ab"), pickS(g, pool.RTimes, "ar"), pool.IPs[0]), []string{"req.http.Helper"}},
				{fmt.Sprintf("set %s = fn_t(%s);\n", st, tv), []string{st}},
			}).Draw(t, "extrastep")
			c.Steps = append(c.Steps, C13Step{Src: x.src, Kind: "extra-types", MayWrite: x.w, Reads: true, Match: strings.Contains(x.src, "helper_re")})
			continue
		}
		switch rapid.IntRange(0, 15).Draw(t, "special") {
		case 10, 13, 14, 15: // any built-in of builtin.yml over scalar types, every argument a pooled variable
			if st, ok := genC13Builtin(t, g); ok {
				c.Steps = append(c.Steps, st)
			}
		case 11: // extreme operands reaching an operator through variables: seed, seed, operate
			c.Steps = append(c.Steps, genC13Extreme(t, g)...)
		case 12: // sign operators over operands that are not bare identifiers
			c.Steps = append(c.Steps, genC13Sign(t, g))
		case 0: // procedural call with arguments
			sa := pickS(g, pool.Strs[:2], "argS")
			ia := pickS(g, pool.Ints, "argI")
			c.Steps = append(c.Steps, C13Step{Src: fmt.Sprintf("call helper_a(%s, %s);\n", sa, ia), Kind: "call", MayWrite: []string{"req.http.Helper"}, Reads: true})
		case 1:
			c.Steps = append(c.Steps, C13Step{Src: "call helper_b;\n", Kind: "call", MayWrite: []string{"req.http.Helper"}, Reads: true})
		case 2: // functional subroutine in an expression
			tgt := pickS(g, pool.Strs, "fnT")
			arg := pickS(g, pool.Strs[:2], "fnA")
			c.Steps = append(c.Steps, C13Step{Src: fmt.Sprintf("set %s = fn_s(%s);\n", tgt, arg), Kind: "fncall", MayWrite: []string{tgt}, Reads: tgt != arg})
		case 3:
			tgt := pickS(g, pool.Ints, "fnT")
			arg := pickS(g, pool.Ints, "fnA")
			c.Steps = append(c.Steps, C13Step{Src: fmt.Sprintf("set %s = fn_i(%s);\n", tgt, arg), Kind: "fncall", MayWrite: []string{tgt}, Reads: tgt != arg})
		case 4: // prefix minus / built-in functions over pooled variables
			tgt := pickS(g, pool.Ints, "pT")
			src := pickS(g, pool.Ints, "pS")
			form := rapid.SampledFrom([]string{"set %s = -%s;\n", "set %s += -%s;\n", "set %s = std.strlen(\"ab\" %s);\n"}).Draw(t, "pform")
			c.Steps = append(c.Steps, C13Step{Src: fmt.Sprintf(form, tgt, src), Kind: "prefix", MayWrite: []string{tgt}, Reads: tgt != src})
		case 5:
			tgt := pickS(g, pool.Strs, "bT")
			src := pickS(g, pool.Strs[:2], "bS")
			form := rapid.SampledFrom([]string{"set %s = std.toupper(%s);\n", "set %s = std.tolower(%s) \"z\";\n", "set %s = substr(%s, 0, 2);\n", "set %s = std.strrev(%s);\n", "set %s = regsub(%s, \"(a)\", \"\\1\\1\");\n"}).Draw(t, "bform")
			c.Steps = append(c.Steps, C13Step{Src: fmt.Sprintf(form, tgt, src), Kind: "builtin", MayWrite: []string{tgt}, Match: strings.Contains(form, "regsub"), Reads: tgt != src})
		case 6: // float prefix minus
			tgt := pickS(g, pool.Floats, "fT")
			src := pickS(g, pool.Floats, "fS")
			c.Steps = append(c.Steps, C13Step{Src: fmt.Sprintf("set %s = -%s;\n", tgt, src), Kind: "prefix", MayWrite: []string{tgt}, Reads: tgt != src})
		default:
			s := g.stmt(1)
			add(&s)
		}
	}
	return c
}

// c13VarsOf: pooled variables by VCL type (TIME: the extra locals).
func c13VarsOf(typ string) []string {
	switch typ {
	case "STRING":
		return append(append([]string{}, pool.Strs...), pool.Hdrs...)
	case "INTEGER":
		return pool.Ints
	case "FLOAT":
		return pool.Floats
	case "BOOL":
		return pool.Bools
	case "RTIME":
		return pool.RTimes
	case "IP":
		return pool.IPs
	case "TIME":
		return []string{"var.t1", "var.t2"}
	}
	return nil
}

// genC13Builtin: `set <pooled variable of the return type> = fn(<pooled variables>);` for a built-in whose
// declared argument and return types are all scalar (no ID / TABLE / ACL / BACKEND argument: those name
// objects the function is meant to change). Only the target may change.
func genC13Builtin(t *rapid.T, g *coreGen) (C13Step, bool) {
	loadBuiltins()
	name := rapid.SampledFrom(builtinNames).Draw(t, "fn")
	spec := builtinTable[name]
	// built-ins whose result size is an INTEGER argument are left to C08 (a pooled 2^31-1 asks for gigabytes)
	if strings.Contains(name, "strpad") || strings.Contains(name, "randomstr") || strings.Contains(name, "strrep") || len(spec.Arguments) == 0 {
		return C13Step{}, false
	}
	sig := spec.Arguments[rapid.IntRange(0, len(spec.Arguments)-1).Draw(t, "sig")]
	var args []string
	for _, a := range sig {
		vs := c13VarsOf(a)
		if len(vs) == 0 {
			return C13Step{}, false
		}
		args = append(args, pickS(g, vs, "arg"))
	}
	call := name + "(" + strings.Join(args, ", ") + ")"
	tgts := c13VarsOf(spec.Return)
	var st C13Step
	if len(tgts) == 0 {
		if spec.Return != "" && spec.Return != "VOID" {
			return C13Step{}, false
		}
		st = C13Step{Src: call + ";\n", Kind: "builtin-any", Reads: true}
	} else {
		tgt := pickS(g, tgts, "btarget")
		st = C13Step{Src: fmt.Sprintf("set %s = %s;\n", tgt, call), Kind: "builtin-any", MayWrite: []string{tgt}, Reads: true}
	}
	st.Match = strings.Contains(name, "regsub") || strings.Contains(name, "regex")
	return st, true
}

// genC13Extreme: two variables of one numeric type are given extreme values, then one is combined with the
// other by a compound operator; each of the three statements is a step of its own.
func genC13Extreme(t *rapid.T, g *coreGen) []C13Step {
	type fam struct {
		vars, seeds, ops []string
	}
	f := rapid.SampledFrom([]fam{
		{pool.Floats, []string{"1e200", "-1e200", "1e308", "-1e308", "1e-300", "0.0", "-0.0", "1.5"}, []string{"*=", "/=", "+=", "-=", "="}},
		{pool.Ints, []string{"9223372036854775807", "-9223372036854775807", "-1", "0", "-3", "64", "4611686018427387904"}, []string{"*=", "/=", "+=", "-=", "%=", "<<=", ">>=", "rol=", "ror=", "|=", "&=", "^=", "="}},
		{pool.RTimes, []string{"9999999999s", "-9999999999s", "0s", "1ms", "100000000h"}, []string{"+=", "-=", "="}},
	}).Draw(t, "xfam")
	a := pickS(g, f.vars, "xa")
	b := pickS(g, f.vars, "xb")
	op := pickS(g, f.ops, "xop")
	steps := []C13Step{
		{Src: fmt.Sprintf("set %s = %s;\n", a, pickS(g, f.seeds, "seedA")), Kind: "extreme-seed", MayWrite: []string{a}},
		{Src: fmt.Sprintf("set %s = %s;\n", b, pickS(g, f.seeds, "seedB")), Kind: "extreme-seed", MayWrite: []string{b}},
		{Src: fmt.Sprintf("set %s %s %s;\n", a, op, b), Kind: "extreme-op", MayWrite: []string{a}, Reads: a != b},
	}
	return steps
}

// genC13Sign: unary minus / plus in front of an operand that is not a bare identifier.
func genC13Sign(t *rapid.T, g *coreGen) C13Step {
	vars := rapid.SampledFrom([][]string{pool.Ints, pool.Floats, pool.RTimes}).Draw(t, "signtype")
	tgt, a, b := pickS(g, vars, "sT"), pickS(g, vars, "sA"), pickS(g, vars, "sB")
	cond := pickS(g, pool.Bools, "sC")
	form := rapid.SampledFrom([]string{
		"set %[1]s = -if(%[4]s, %[2]s, %[3]s);\n", "set %[1]s = -(%[2]s);\n", "set %[1]s = -+%[2]s;\n", "set %[1]s = --%[2]s;\n",
		"set %[1]s = +-%[2]s;\n", "set %[1]s += -if(%[4]s, %[2]s, %[3]s);\n", "set %[1]s -= -(%[2]s);\n",
		"set req.http.H1 = \"v\" + -%[2]s;\n", "set req.http.H1 = \"v\" + -%[2]s + \"|\" + -%[3]s;\n",
	}).Draw(t, "signform")
	st := C13Step{Src: fmt.Sprintf(form, tgt, a, b, cond), Kind: "sign", MayWrite: []string{tgt}, Reads: true}
	if strings.Contains(form, "req.http.H1") {
		st.MayWrite = []string{"req.http.H1"}
	}
	return st
}

type snap map[string]string

var c13Extra = []string{"var.t1", "var.t2", "var.be1", "var.re1", "var.re2"}

// pooled names + the extra locals + req.backend and the declared backends read through their identifiers
var c13Names = append(append(append([]string{}, pool.all()...), "req.http.Helper", "re.group.0", "re.group.1", "re.group.2", "re.group.3", "req.backend", "b", "b2"), c13Extra...)

func takeSnap(ip *interpreter.Interpreter) snap {
	s := snap{}
	for _, n := range c13Names {
		v, err := readVar(ip, n)
		if err != nil {
			s[n] = "<undefined>"
			continue
		}
		// copy immediately: Get hands out stored pointers
		desc := string(v.Type()) + ":" + v.String()
		if value.IsNotSet(v) {
			desc += ":notset"
		}
		s[n] = desc
	}
	return s
}

func checkC13(raw json.RawMessage) iso.Result {
	var c C13Case
	if err := json.Unmarshal(raw, &c); err != nil {
		return iso.Failf("bad case: %v", err)
	}
	if c.Kind == "objects" {
		return checkC13Objects(c)
	}
	col := iso.NewCollector("C13")
	vcl := "backend b { .host = \"127.0.0.1\"; .port = \"1\"; }\nbackend b2 { .host = \"127.0.0.1\"; .port = \"2\"; }\n" + c13Subs + "sub vcl_recv { }\n"
	ip, _, err := newTestInterp(vcl)
	if err != nil {
		col.Failf("harness: cannot initialise interpreter: %v", err)
		return col.Done()
	}
	ip.SetScope(scopeByName["recv"])
	var history strings.Builder
	for i, st := range c.Steps {
		ss, err := parseSnippet("{\n" + st.Src + "}\n")
		if err != nil {
			col.Failf("harness: step does not parse: %v\n%s", err, st.Src)
			return col.Done()
		}
		before := takeSnap(ip)
		_, rerr := execStmts(ip, ss)
		after := takeSnap(ip)
		history.WriteString(st.Src)
		col.Label("kind:" + st.Kind)
		if rerr != nil {
			col.Label("step-error")
			if strings.Contains(rerr.Error(), "PANIC") {
				// crashes are C08's business; the frame condition is still checked below
				col.Label("step-panic")
			}
		}
		allowed := map[string]bool{}
		for _, n := range st.MayWrite {
			allowed[n] = true
		}
		for _, n := range c13Names {
			if before[n] == after[n] {
				continue
			}
			if allowed[n] {
				continue
			}
			if strings.HasPrefix(n, "re.group.") && st.Match {
				continue
			}
			col.FailKey(c13Key(st, n), "step %d changed %s (%s -> %s) although the statement does not name it\n statement: %s\n--- history ---\n%s", i, n, before[n], after[n], st.Src, history.String())
			return col.Done()
		}
		if st.Reads {
			col.Res.NonTrivial = true
		}
		if rerr != nil && strings.Contains(rerr.Error(), "Max restart") {
			break
		}
	}
	return col.Done()
}

// c13Key: classifier of known findings (filled in during triage).
func c13Key(st C13Step, name string) string { return "" }
