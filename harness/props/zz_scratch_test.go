package props

import (
	"fmt"
	"os"
	"runtime/debug"
	"testing"

	"github.com/ysugimoto/falco/v2/interpreter"
)

func TestScratchSubfield(t *testing.T) {
	if os.Getenv("VERIF_SCRATCH") == "" {
		t.Skip()
	}
	ip, _, err := newTestInterp("backend b { .host = \"127.0.0.1\"; }\nsub vcl_recv { }\n")
	if err != nil {
		t.Fatal(err)
	}
	ip.SetScope(scopeByName[os.Getenv("VERIF_SCRATCH")])
	ss, err := parseSnippet("{\n" + os.Getenv("VERIF_SCRATCH_SRC") + "\n}\n")
	if err != nil {
		t.Fatal(err)
	}
	defer func() {
		if r := recover(); r != nil {
			fmt.Printf("PANIC %v\n%s\n", r, debug.Stack())
		}
	}()
	_, _, _, err = ip.ProcessBlockStatement(ss, interpreter.DebugPass, false)
	fmt.Println("err:", err)
}
