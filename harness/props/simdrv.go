package props

import (
	"fmt"
	"io"
	"net/http"
	"net/http/httptest"
	"strings"

	"github.com/ysugimoto/falco/v2/ast"
	"github.com/ysugimoto/falco/v2/interpreter"
	icontext "github.com/ysugimoto/falco/v2/interpreter/context"
	ihttp "github.com/ysugimoto/falco/v2/interpreter/http"
	"github.com/ysugimoto/falco/v2/interpreter/value"
	"github.com/ysugimoto/falco/v2/interpreter/variable"
	"github.com/ysugimoto/falco/v2/lexer"
	"github.com/ysugimoto/falco/v2/parser"
	"github.com/ysugimoto/falco/v2/resolver"
)

// Shared helpers for driving falco's simulator (C06, C07, C08, C09, C13, C17).

// capDebugger records log lines and messages instead of printing them.
type capDebugger struct {
	Logs     []string
	Messages []string
}

func (d *capDebugger) Run(ast.Node) interpreter.DebugState { return interpreter.DebugPass }
func (d *capDebugger) Message(m string)                     { d.Messages = append(d.Messages, m) }
func (d *capDebugger) Log(_ *ast.LogStatement, v string)    { d.Logs = append(d.Logs, v) }

var scopeByName = map[string]icontext.Scope{
	"recv": icontext.RecvScope, "hash": icontext.HashScope, "hit": icontext.HitScope, "miss": icontext.MissScope,
	"pass": icontext.PassScope, "fetch": icontext.FetchScope, "error": icontext.ErrorScope, "deliver": icontext.DeliverScope,
	"log": icontext.LogScope,
}

var allScopeNames = []string{"recv", "hash", "hit", "miss", "pass", "fetch", "error", "deliver", "log"}

// newTestInterp builds an interpreter for `vcl`, initialised like the test
// runner does (all HTTP objects present), with output captured.
func newTestInterp(vcl string, opts ...icontext.Option) (*interpreter.Interpreter, *capDebugger, error) {
	all := append([]icontext.Option{icontext.WithResolver(resolver.NewStaticResolver("main", vcl))}, opts...)
	ip := interpreter.New(all...)
	dbg := &capDebugger{}
	ip.Debugger = dbg
	req := httptest.NewRequest(http.MethodGet, "http://example.com/path?q=1", nil)
	if err := ip.TestProcessInit(ihttp.WrapRequest(req)); err != nil {
		return nil, dbg, err
	}
	return ip, dbg, nil
}

func parseSnippet(src string) ([]ast.Statement, error) {
	return parser.New(lexer.NewFromString(src)).ParseSnippetVCL()
}

func identExpr(name string) *ast.Ident {
	return &ast.Ident{Meta: &ast.Meta{}, Value: name}
}

// readVar evaluates an identifier through the interpreter.
func readVar(ip *interpreter.Interpreter, name string) (v value.Value, err error) {
	defer func() {
		if r := recover(); r != nil {
			err = fmt.Errorf("PANIC reading %s: %v", name, r)
		}
	}()
	return ip.ProcessExpression(identExpr(name))
}

// execStmts runs statements one block at a time at the top level of the
// interpreter (locals persist between calls).
func execStmts(ip *interpreter.Interpreter, ss []ast.Statement) (st interpreter.State, err error) {
	defer func() {
		if r := recover(); r != nil {
			err = fmt.Errorf("PANIC executing statement: %v", r)
		}
	}()
	_, st, _, err = ip.ProcessBlockStatement(ss, interpreter.DebugPass, false)
	return st, err
}

// newVarContext builds a bare interpreter context with all HTTP objects, for
// driving the variable layer directly.
func newVarContext() *icontext.Context {
	ctx := icontext.New()
	ctx.Request = ihttp.WrapRequest(httptest.NewRequest(http.MethodGet, "http://example.com/path?q=1", nil))
	ctx.BackendRequest = ihttp.WrapRequest(httptest.NewRequest(http.MethodGet, "http://example.com/path?q=1", nil))
	mk := func() *ihttp.Response {
		return ihttp.WrapResponse(&http.Response{StatusCode: 200, Status: "OK", Proto: "HTTP/1.1", ProtoMajor: 1, ProtoMinor: 1,
			Header: http.Header{}, Body: io.NopCloser(strings.NewReader("body"))})
	}
	ctx.BackendResponse = mk()
	ctx.Object = mk()
	ctx.Response = mk()
	return ctx
}

func scopeVariables(ctx *icontext.Context, scope string) variable.Variable {
	ctx.Scope = scopeByName[scope]
	switch scope {
	case "recv":
		return variable.NewRecvScopeVariables(ctx)
	case "hash":
		return variable.NewHashScopeVariables(ctx)
	case "hit":
		return variable.NewHitScopeVariables(ctx)
	case "miss":
		return variable.NewMissScopeVariables(ctx)
	case "pass":
		return variable.NewPassScopeVariables(ctx)
	case "fetch":
		return variable.NewFetchScopeVariables(ctx)
	case "error":
		return variable.NewErrorScopeVariables(ctx)
	case "deliver":
		return variable.NewDeliverScopeVariables(ctx)
	case "log":
		return variable.NewLogScopeVariables(ctx)
	}
	return nil
}
