package props

import (
	"bytes"
	"encoding/json"
	"fmt"
	"io"
	"os"
	"strconv"
	"strings"
	"time"

	"github.com/ysugimoto/falco/v2/ast"
	"github.com/ysugimoto/falco/v2/ast/codec"
	"github.com/ysugimoto/falco/v2/lexer"
	"github.com/ysugimoto/falco/v2/parser"
	"github.com/ysugimoto/falco/v2/plugin"
	"pgregory.net/rapid"

	"verif/canon"
	"verif/gen"
	"verif/iso"
)

// C19 — the AST codec round-trips every statement; decoding is total.

type C19Mut struct {
	Op  string `json:"op"`
	At  int    `json:"at"`
	Val int    `json:"val"`
	Len int    `json:"len"`
}

type C19Case struct {
	Mode    string   `json:"mode"` // "roundtrip" | "decode-mutated" | "decode-raw"
	Src     string   `json:"src,omitempty"`
	Snippet bool     `json:"snippet,omitempty"`
	Big     int      `json:"big,omitempty"` // if >0 a string literal of that many bytes is spliced in for the token BIGSTR
	Muts    []C19Mut `json:"muts,omitempty"`
	Raw     []byte   `json:"raw,omitempty"`
}

func init() {
	register("C19",
		"round trip: every top-level and nested statement of grammar-derived programs (all node kinds, empty and >64KiB strings, absent optional parts, sub parameters, call arguments) encoded one by one (Encode) and as a list (Encodes), decoded, canonical dumps compared (comments/positions/presentational flags excepted); every single-statement encoding is also read through plugin.ReadLinterRequest instantiated at the statement's type and must give the same statement (encodings of more than 64 KiB included). totality: valid encodings after 1-3 byte mutations (truncate, bit flip, overwrite length field, splice, delete), and raw bytes, decoded by codec.Decoder and plugin.ReadLinterRequest behind an EOF-counting reader (fuel) in an isolated worker. non-trivial: round trip of a statement with nesting >=2 or an optional part; totality case rejected after >=1 frame was consumed; distinct by case",
		genC19, checkC19, 10*time.Second)
}

func genC19(t *rapid.T) any {
	mode := rapid.SampledFrom([]string{"roundtrip", "roundtrip", "roundtrip", "decode-mutated", "decode-mutated", "decode-raw"}).Draw(t, "mode")
	c := C19Case{Mode: mode}
	if mode == "decode-raw" {
		// frame-type-biased raw bytes
		n := rapid.IntRange(0, 60).Draw(t, "n")
		var b []byte
		for i := 0; i < n; i++ {
			switch rapid.IntRange(0, 3).Draw(t, "k") {
			case 0:
				b = append(b, byte(rapid.IntRange(0, 70).Draw(t, "ft")))
			case 1:
				b = append(b, 0, byte(rapid.IntRange(0, 9).Draw(t, "len")))
			default:
				b = append(b, rapid.Byte().Draw(t, "b"))
			}
		}
		c.Raw = b
		return c
	}
	g := gen.New(t, gen.Config{Profile: gen.Syntactic, MaxDecls: 3, MaxStmts: 4, MaxDepth: pick(3, 5), Comments: false})
	big := mode == "roundtrip" && os.Getenv("VERIF_NOBIG") == "" && rapid.IntRange(0, 30).Draw(t, "big") == 30
	if !big && rapid.IntRange(0, 2).Draw(t, "snippet") == 0 {
		var ss []gen.Stmt
		n := rapid.IntRange(1, 4).Draw(t, "n")
		for i := 0; i < n; i++ {
			ss = append(ss, g.Statement(0, false))
		}
		c.Snippet = true
		c.Src = gen.RenderPlain(gen.Tokens(ss))
	} else {
		c.Src = gen.RenderPlain(gen.Tokens(g.Program().Decls))
	}
	if big {
		c.Big = rapid.SampledFrom([]int{65535, 65536, 65537, 70000, 200000}).Draw(t, "bigsize")
		c.Src = "sub big { log \"BIGSTR\"; set req.http.X = \"a\" \"BIGSTR\"; }\n" + c.Src
	}
	if mode == "decode-mutated" {
		n := rapid.IntRange(1, 3).Draw(t, "nmut")
		for i := 0; i < n; i++ {
			c.Muts = append(c.Muts, C19Mut{
				Op:  rapid.SampledFrom([]string{"truncate", "truncate", "flip", "flip", "setlen", "setlen", "delete", "splice", "settype", "dropfin"}).Draw(t, "op"),
				At:  rapid.IntRange(0, 1<<20).Draw(t, "at"),
				Val: rapid.IntRange(0, 255).Draw(t, "val"),
				Len: rapid.IntRange(1, 8).Draw(t, "len"),
			})
		}
	}
	return c
}

// countingReader aborts a decode that keeps reading after the end of input.
type countingReader struct {
	r    io.Reader
	eofs int
	read int
}

type decodeFuel struct{}

func (c *countingReader) Read(p []byte) (int, error) {
	n, err := c.r.Read(p)
	c.read += n
	if err == io.EOF {
		c.eofs++
		if c.eofs > 1000 {
			panic(decodeFuel{})
		}
	}
	return n, err
}

type decodeOutcome struct {
	stmts []ast.Statement
	err   error
	fuel  bool
	panic string
	read  int
}

func runDecode(b []byte) (o decodeOutcome) {
	cr := &countingReader{r: bytes.NewReader(b)}
	defer func() {
		o.read = cr.read
		if r := recover(); r != nil {
			if _, ok := r.(decodeFuel); ok {
				o.fuel = true
				return
			}
			o.panic = fmt.Sprintf("%v", r)
		}
	}()
	o.stmts, o.err = codec.NewDecoder(cr).Decode()
	return o
}

func runReadRequest(b []byte) (o decodeOutcome) {
	cr := &countingReader{r: bytes.NewReader(b)}
	defer func() {
		if r := recover(); r != nil {
			if _, ok := r.(decodeFuel); ok {
				o.fuel = true
				return
			}
			o.panic = fmt.Sprintf("%v", r)
		}
	}()
	_, o.err = plugin.ReadLinterRequest[*ast.SetStatement](cr)
	return o
}

func safeEncode(f func() ([]byte, error)) (b []byte, err error, pan string) {
	defer func() {
		if r := recover(); r != nil {
			pan = fmt.Sprintf("%v", r)
		}
	}()
	b, err = f()
	return
}

func parseForCodec(c *C19Case) ([]ast.Statement, error) {
	src := c.Src
	if c.Big > 0 {
		src = strings.ReplaceAll(src, "BIGSTR", strings.Repeat("x", c.Big))
	}
	if c.Snippet {
		return parser.New(lexer.NewFromString(src)).ParseSnippetVCL()
	}
	v, err := parser.New(lexer.NewFromString(src)).ParseVCL()
	if err != nil {
		return nil, err
	}
	return v.Statements, nil
}

// allStatements lists the statements of a program one by one (top level and nested).
func allStatements(ss []ast.Statement, depth int, out *[]ast.Statement) {
	for _, s := range ss {
		*out = append(*out, s)
		switch v := s.(type) {
		case *ast.SubroutineDeclaration:
			if v.Block != nil {
				allStatements(v.Block.Statements, depth+1, out)
			}
		case *ast.BlockStatement:
			allStatements(v.Statements, depth+1, out)
		case *ast.IfStatement:
			if v.Consequence != nil {
				allStatements(v.Consequence.Statements, depth+1, out)
			}
			for _, a := range v.Another {
				if a.Consequence != nil {
					allStatements(a.Consequence.Statements, depth+1, out)
				}
			}
			if v.Alternative != nil && v.Alternative.Consequence != nil {
				allStatements(v.Alternative.Consequence.Statements, depth+1, out)
			}
		case *ast.SwitchStatement:
			for _, cs := range v.Cases {
				for _, x := range cs.Statements {
					switch x.(type) {
					case *ast.BreakStatement, *ast.FallthroughStatement:
					default:
						allStatements([]ast.Statement{x}, depth+1, out)
					}
				}
			}
		}
	}
}

// codecKnownKey attributes a failed round trip to a known root cause from
// features of the statement's canonical form ("" = none).
func codecKnownKeys(want string) []string {
	var keys []string
	return keys
}

func checkC19(raw json.RawMessage) iso.Result {
	var c C19Case
	if err := json.Unmarshal(raw, &c); err != nil {
		return iso.Failf("bad case: %v", err)
	}
	col := iso.NewCollector("C19")
	col.Label("mode:" + c.Mode)
	if c.Mode == "decode-raw" {
		checkDecodeTotal(col, c.Raw, false)
		return col.Done()
	}
	stmts, err := parseForCodec(&c)
	if err != nil {
		// not this property's business (C02); the generator is grammar-correct
		col.Res.Status = iso.Skip
		return col.Res
	}
	enc := codec.NewEncoder()
	if c.Mode == "decode-mutated" {
		b, eerr, pan := safeEncode(func() ([]byte, error) { return enc.Encodes(stmts) })
		if eerr != nil || pan != "" || len(b) == 0 {
			col.Res.Status = iso.Skip // reported by the round-trip mode
			return col.Res
		}
		b = append([]byte{}, b...)
		for _, m := range c.Muts {
			b = applyC19Mut(b, m)
		}
		checkDecodeTotal(col, b, true)
		return col.Done()
	}

	// round trip, statement by statement
	var all []ast.Statement
	allStatements(stmts, 0, &all)
	mode := canon.Mode{Explicit: false}
	for _, s := range all {
		want, cerr := canon.Statement(s, mode)
		if cerr != nil {
			col.Failf("canonical dump of parsed statement failed: %v", cerr)
			continue
		}
		col.Count("statements", 1)
		kind := want
		if i := strings.IndexAny(want[1:], " )"); i > 0 {
			kind = want[1 : i+1]
		}
		col.Label("kind:" + kind)
		b, eerr, pan := safeEncode(func() ([]byte, error) { return enc.Encode(s) })
		if pan != "" {
			col.FailKey(codecKey(want, "encode-panic"), "Encode panicked: %s\n statement: %s", pan, clip(want))
			continue
		}
		if eerr != nil {
			col.FailKey(codecKey(want, "encode-error"), "Encode failed: %v\n statement: %s", eerr, clip(want))
			continue
		}
		o := runDecode(append([]byte{}, b...))
		switch {
		case o.fuel:
			col.FailKey(codecKey(want, "decode-hang"), "Decode of a valid encoding never terminates\n statement: %s", clip(want))
			continue
		case o.panic != "":
			col.FailKey(codecKey(want, "decode-panic"), "Decode of a valid encoding panicked: %s\n statement: %s", o.panic, clip(want))
			continue
		case o.err != nil:
			col.FailKey(codecKey(want, "decode-error"), "Decode of a valid encoding failed: %v\n statement: %s", o.err, clip(want))
			continue
		}
		if len(o.stmts) != 1 {
			col.FailKey(codecKey(want, "count"), "Decode(Encode(s)) yields %d statements\n statement: %s", len(o.stmts), clip(want))
			continue
		}
		got, cerr := canon.Statement(o.stmts[0], mode)
		if cerr != nil {
			col.FailKey(codecKey(want, "canon"), "decoded statement is malformed: %v\n want: %s\n  got: %s", cerr, clip(want), clip(got))
			continue
		}
		if got != want {
			keys := lossKeys(s, want, got)
			if len(keys) == 0 {
				keys = []string{codecKey(want, "diff")}
			}
			for _, k := range keys {
				col.FailKey(k, "round trip changed the statement\n want: %s\n  got: %s", clip(want), clip(got))
			}
		}
		if got == want {
			// the same bytes through the plugin entry point (what a custom linter receives on stdin)
			ps, perr, handled := readViaPlugin(s, b)
			if handled {
				col.Label("plugin-entry-round-trip")
				if perr != nil {
					col.FailKey(codecKey(want, "plugin-read"), "plugin.ReadLinterRequest fails on a valid encoding (%d bytes) that codec.Decoder accepts: %v\n statement: %s", len(b), perr, clip(want))
				} else if pg, cerr := canon.Statement(ps, mode); cerr != nil || pg != want {
					col.FailKey(codecKey(want, "plugin-diff"), "plugin.ReadLinterRequest returns another statement than was encoded (%v)\n want: %s\n  got: %s", cerr, clip(want), clip(pg))
				}
			}
		}
		if strings.Count(want, "(") >= 6 || strings.Contains(want, " -") {
			col.Res.NonTrivial = true
		}
	}
	// list form
	wantAll, _ := canon.Statements(stmts, mode)
	b, eerr, pan := safeEncode(func() ([]byte, error) { return enc.Encodes(stmts) })
	if pan == "" && eerr == nil {
		o := runDecode(append([]byte{}, b...))
		if o.err == nil && !o.fuel && o.panic == "" {
			gotAll, cerr := canon.Statements(o.stmts, mode)
			if cerr == nil && gotAll != wantAll && !col.Failed() && len(col.Res.Known) == 0 {
				col.Failf("list round trip (Encodes) changed the program although every statement round-trips alone\n want: %s\n  got: %s", clip(wantAll), clip(gotAll))
			}
		} else if !col.Failed() && len(col.Res.Known) == 0 {
			col.Failf("list round trip (Encodes/Decode) failed although every statement round-trips alone: err=%v fuel=%v panic=%s", o.err, o.fuel, o.panic)
		}
	} else if !col.Failed() && len(col.Res.Known) == 0 {
		col.Failf("Encodes failed although every statement encodes alone: %v %s", eerr, pan)
	}
	if c.Big > 0 {
		col.Label("big-string")
	}
	return col.Done()
}

func clip(s string) string {
	if len(s) > 1500 {
		return s[:700] + " … " + s[len(s)-700:]
	}
	return s
}

// codecKey is the classifier of known codec findings: (feature of the
// statement) ∧ (failure signature).
func codecKey(want, sig string) string {
	if maxStringLeaf(want) > 65535 {
		switch sig {
		case "decode-error", "diff", "count", "canon":
			return "codec.frame-length-16bit-overflow"
		}
	}
	return ""
}

// lossKeys recognises the exact losses of known findings: the decoded
// statement equals the original with sub parameters and/or call arguments
// removed, and nothing else differs.
func lossKeys(s ast.Statement, want, got string) []string {
	type variant struct {
		m    canon.Mode
		keys []string
	}
	for _, v := range []variant{
		{canon.Mode{DropSubParams: true}, []string{"codec.sub-parameters-not-carried"}},
		{canon.Mode{DropCallArgs: true}, []string{"codec.call-arguments-not-carried"}},
		{canon.Mode{DropSubParams: true, DropCallArgs: true}, []string{"codec.sub-parameters-not-carried", "codec.call-arguments-not-carried"}},
	} {
		w2, err := canon.Statement(s, v.m)
		if err == nil && w2 == got && w2 != want {
			return v.keys
		}
	}
	return nil
}

func maxStringLeaf(want string) int {
	max := 0
	rest := want
	for {
		i := strings.Index(rest, "(str \"")
		if i < 0 {
			return max
		}
		rest = rest[i+5:]
		q, err := strconv.QuotedPrefix(rest)
		if err != nil {
			return max
		}
		if u, err := strconv.Unquote(q); err == nil && len(u) > max {
			max = len(u)
		}
		rest = rest[len(q):]
	}
}

func applyC19Mut(b []byte, m C19Mut) []byte {
	if len(b) == 0 {
		return b
	}
	at := m.At % len(b)
	switch m.Op {
	case "truncate":
		return b[:at]
	case "flip":
		b[at] ^= 1 << uint(m.Val%8)
	case "setlen":
		// overwrite what is probably a length field: two bytes after a frame type
		if at+2 < len(b) {
			b[at+1] = byte(m.Val)
			b[at+2] = byte(m.Len * 31)
		}
	case "settype":
		b[at] = byte(m.Val % 72)
	case "delete":
		end := at + m.Len
		if end > len(b) {
			end = len(b)
		}
		return append(b[:at:at], b[end:]...)
	case "splice":
		from := (m.Val * 7) % len(b)
		end := from + m.Len*3
		if end > len(b) {
			end = len(b)
		}
		out := append([]byte{}, b[:at]...)
		out = append(out, b[from:end]...)
		return append(out, b[at:]...)
	case "dropfin":
		return b[:len(b)-1]
	}
	return b
}

func checkDecodeTotal(col *iso.Collector, b []byte, mutated bool) {
	o := runDecode(append([]byte{}, b...))
	switch {
	case o.fuel:
		col.FailKey(decodeKey(b, "hang"), "Decode keeps reading after the end of input and never terminates (%d bytes: %x)", len(b), clipBytes(b))
	case o.panic != "":
		col.FailKey(decodeKey(b, "panic"), "Decode panicked: %s (%d bytes: %x)", o.panic, len(b), clipBytes(b))
	case o.err != nil:
		col.Label("decode:error")
		if o.read > 3 {
			col.Res.NonTrivial = true
		}
	default:
		col.Label("decode:ok")
		// whatever was decoded must be dumpable (no malformed nodes such as nil idents)
		if len(o.stmts) > 0 {
			col.Res.NonTrivial = true
		}
	}
	r := runReadRequest(append([]byte{}, b...))
	switch {
	case r.fuel:
		col.FailKey(decodeKey(b, "hang"), "plugin.ReadLinterRequest never terminates (%d bytes: %x)", len(b), clipBytes(b))
	case r.panic != "":
		col.FailKey(decodeKey(b, "panic"), "plugin.ReadLinterRequest panicked: %s (%d bytes: %x)", r.panic, len(b), clipBytes(b))
	}
}

func decodeKey(b []byte, sig string) string { return "" }

func clipBytes(b []byte) []byte {
	if len(b) > 200 {
		return b[:200]
	}
	return b
}

func readReq[T plugin.LintStatement](b []byte) (st ast.Statement, err error) {
	defer func() {
		if r := recover(); r != nil {
			err = fmt.Errorf("PANIC: %v", r)
		}
	}()
	r, err := plugin.ReadLinterRequest[T](bytes.NewReader(b))
	if err != nil {
		return nil, err
	}
	if x, ok := any(r.Statement).(ast.Statement); ok {
		return x, nil
	}
	return nil, fmt.Errorf("request statement %T is not a statement", r.Statement)
}

// readViaPlugin decodes an encoding through plugin.ReadLinterRequest instantiated at the statement's own type.
func readViaPlugin(s ast.Statement, b []byte) (ast.Statement, error, bool) {
	var st ast.Statement
	var err error
	switch s.(type) {
	case *ast.AclDeclaration:
		st, err = readReq[*ast.AclDeclaration](b)
	case *ast.BackendDeclaration:
		st, err = readReq[*ast.BackendDeclaration](b)
	case *ast.DirectorDeclaration:
		st, err = readReq[*ast.DirectorDeclaration](b)
	case *ast.TableDeclaration:
		st, err = readReq[*ast.TableDeclaration](b)
	case *ast.SubroutineDeclaration:
		st, err = readReq[*ast.SubroutineDeclaration](b)
	case *ast.PenaltyboxDeclaration:
		st, err = readReq[*ast.PenaltyboxDeclaration](b)
	case *ast.RatecounterDeclaration:
		st, err = readReq[*ast.RatecounterDeclaration](b)
	case *ast.BlockStatement:
		st, err = readReq[*ast.BlockStatement](b)
	case *ast.ImportStatement:
		st, err = readReq[*ast.ImportStatement](b)
	case *ast.IncludeStatement:
		st, err = readReq[*ast.IncludeStatement](b)
	case *ast.DeclareStatement:
		st, err = readReq[*ast.DeclareStatement](b)
	case *ast.SetStatement:
		st, err = readReq[*ast.SetStatement](b)
	case *ast.UnsetStatement:
		st, err = readReq[*ast.UnsetStatement](b)
	case *ast.RemoveStatement:
		st, err = readReq[*ast.RemoveStatement](b)
	case *ast.IfStatement:
		st, err = readReq[*ast.IfStatement](b)
	case *ast.SwitchStatement:
		st, err = readReq[*ast.SwitchStatement](b)
	case *ast.RestartStatement:
		st, err = readReq[*ast.RestartStatement](b)
	case *ast.EsiStatement:
		st, err = readReq[*ast.EsiStatement](b)
	case *ast.AddStatement:
		st, err = readReq[*ast.AddStatement](b)
	case *ast.CallStatement:
		st, err = readReq[*ast.CallStatement](b)
	case *ast.ErrorStatement:
		st, err = readReq[*ast.ErrorStatement](b)
	case *ast.LogStatement:
		st, err = readReq[*ast.LogStatement](b)
	case *ast.ReturnStatement:
		st, err = readReq[*ast.ReturnStatement](b)
	case *ast.SyntheticStatement:
		st, err = readReq[*ast.SyntheticStatement](b)
	case *ast.SyntheticBase64Statement:
		st, err = readReq[*ast.SyntheticBase64Statement](b)
	case *ast.GotoStatement:
		st, err = readReq[*ast.GotoStatement](b)
	case *ast.GotoDestinationStatement:
		st, err = readReq[*ast.GotoDestinationStatement](b)
	case *ast.FunctionCallStatement:
		st, err = readReq[*ast.FunctionCallStatement](b)
	default:
		return nil, nil, false
	}
	return st, err, true
}
