package props

import (
	"encoding/json"
	"fmt"
	"os"
	"strconv"
	"strings"
	"testing"
	"time"

	"verif/iso"
)

// TestC05Dump is a development aid (not part of any campaign): it evaluates every cell of the
// C05 enumeration in-process and writes one JSON line per cell that fails or hits a known key.
//
//	VERIF_C05_DUMP=/var/tmp/c05.jsonl [VERIF_SHARD=k VERIF_NSHARDS=n] props.test -test.run TestC05Dump
func TestC05Dump(t *testing.T) {
	out := os.Getenv("VERIF_C05_DUMP")
	if out == "" {
		t.Skip("development aid")
	}
	shard, _ := strconv.Atoi(os.Getenv("VERIF_SHARD"))
	n, _ := strconv.Atoi(os.Getenv("VERIF_NSHARDS"))
	if n < 1 {
		n = 1
	}
	f, err := os.Create(fmt.Sprintf("%s.%d", out, shard))
	if err != nil {
		t.Fatal(err)
	}
	defer f.Close()
	idx, total, fails := -1, 0, 0
	labels := map[string]int{}
	examples := map[string]string{}
	start := time.Now()
	enumC05(func(c any) {
		idx++
		if idx%n != shard {
			return
		}
		total++
		raw, _ := json.Marshal(c)
		res := iso.SafeCheck(iso.Lookup("C05"), raw)
		for _, l := range res.Labels {
			labels[l]++
			if strings.HasPrefix(l, "S:other:") && examples[l] == "" {
				cc := c.(C05Case)
				examples[l] = fmt.Sprintf("%s %s %v | %s", cc.Kind, cc.Name, cc.Scopes, cc.Probe)
			}
		}
		if res.Status == iso.Fail || len(res.Known) > 0 {
			fails++
			cc := c.(C05Case)
			msgs := []string{}
			for _, l := range strings.Split(res.Msg, "\n") {
				if strings.HasPrefix(l, "L != T") || strings.HasPrefix(l, "L => S") || strings.HasPrefix(l, "[") || strings.HasPrefix(l, "harness") || strings.HasPrefix(l, " L = ") || strings.HasPrefix(l, "PANIC") {
					msgs = append(msgs, l)
				}
			}
			b, _ := json.Marshal(map[string]any{"idx": idx, "case": cc, "status": res.Status, "known": res.Known, "msgs": msgs})
			f.Write(append(b, '\n'))
		}
	})
	lb, _ := json.Marshal(map[string]any{"labels": labels, "examples": examples})
	os.WriteFile(fmt.Sprintf("%s.labels.%d", out, shard), lb, 0o644)
	fmt.Fprintf(os.Stderr, "shard %d: %d cells, %d failing/known, %.1fs\n", shard, total, fails, time.Since(start).Seconds())
}
