package props

import (
	"encoding/json"
	"fmt"
	"sort"
	"strings"
	"time"

	"github.com/ysugimoto/falco/v2/config"
	"github.com/ysugimoto/falco/v2/lexer"
	"github.com/ysugimoto/falco/v2/linter"
	lcontext "github.com/ysugimoto/falco/v2/linter/context"
	"github.com/ysugimoto/falco/v2/parser"
	"github.com/ysugimoto/falco/v2/resolver"
	"pgregory.net/rapid"

	"verif/iso"
)

// C12 — ignore comments suppress exactly what they cover.

type C12Dir struct {
	Kind   string   `json:"kind"`            // next | this | range
	Target int      `json:"target"`          // statement id the directive is attached to (range: first covered statement)
	End    int      `json:"end"`             // range: id of the statement whose leading comment carries -end; 0 = the block's closing comment
	Rules  []string `json:"rules,omitempty"` // empty = all rules
	Marker string   `json:"marker"`          // "//", "#", "/*"
	Slot   int      `json:"slot,omitempty"`  // next: 2 = the second leading comment line of the statement (stacked directives)
	// accum (docs/linter.md "Range ignoring", last example): start Rules at Target, start Rules2 at Target2,
	// optional `end Rules` at End1, bare end at End: the ignored rules accumulate until they are re-enabled
	Target2 int      `json:"target2,omitempty"`
	Rules2  []string `json:"rules2,omitempty"`
	End1    int      `json:"end1,omitempty"`
	// subrange: -start is the comment line in front of subroutine SubA, -end the one in front of the later SubB
	SubA int `json:"sub_a,omitempty"`
	SubB int `json:"sub_b,omitempty"`
}

type C12Case struct {
	Prog LProgram `json:"prog"`
	Dirs []C12Dir `json:"dirs"`
	// IgnoreSubs: the linter option ignore_subroutines (bodies of these subroutines are not linted); the same
	// for the base and the variant
	IgnoreSubs []string `json:"ignore_subs,omitempty"`
}

var c12Rules = []string{"function/arguments", "function/argument-type", "operator/assignment", "operator/conditional", "unused/variable", "regex/matched-value-override"}

func init() {
	register("C12",
		"lintable programs (vcl_recv, optional vcl_deliver, 0-2 helper subs) in which every statement line carries a neutral leading comment line and a neutral trailing comment and ~35% of statements carry an injected lint error (undefined variable, type mismatch, arity, argument type, protected header, scope violation, undefined function) incl. statements nested in if/else blocks; in a quarter of the programs vcl_recv starts with a valid forward `goto` whose label is its last statement (both are directive targets); 1-3 neutral comments are REPLACED by directives (falco-ignore-next-line, trailing falco-ignore, falco-ignore-start/-end pairs incl. -end as the last comment of a block; in a sixth of the cases instead one -start/-end pair on the comment lines in front of two subroutine declarations), with and without rule lists; in half of those cases the linter option ignore_subroutines names one or two of the subroutines (same for base and variant), with #, // and /* */ markers, so no token moves; oracle: D(variant) == D(base) minus the diagnostics whose line lies in a covered statement span and whose rule is listed (or no list), compared as multisets with locations. non-trivial: >=1 diagnostic removed and >=1 diagnostic located after the covered region survives; distinct by case",
		genC12, checkC12, 10*time.Second)
}

type stmtRef struct {
	s       *LStmt
	block   *[]LStmt
	idx     int
	lastBlk bool // the block is the last block of its compound statement / the sub body (has a closing comment slot)
	owner   *LStmt
	sub     *LSub
}

func collectStmts(p *LProgram) []stmtRef {
	var out []stmtRef
	var walk func(blk *[]LStmt, lastBlk bool, owner *LStmt, sub *LSub)
	walk = func(blk *[]LStmt, lastBlk bool, owner *LStmt, sub *LSub) {
		for i := range *blk {
			s := &(*blk)[i]
			out = append(out, stmtRef{s: s, block: blk, idx: i, lastBlk: lastBlk, owner: owner, sub: sub})
			if s.Compound {
				walk(&s.Body, !s.HasElse && len(s.Elifs) == 0, s, sub)
				for k := range s.Elifs {
					walk(&s.Elifs[k].Body, !s.HasElse && k == len(s.Elifs)-1, s, sub)
				}
				if s.HasElse {
					walk(&s.Else, true, s, sub)
				}
			}
		}
	}
	if !p.Snippet && len(p.Decls) > 0 {
		walk(&p.Decls, false, nil, nil)
	}
	for i := range p.Subs {
		walk(&p.Subs[i].Stmts, false, nil, &p.Subs[i]) // sub bodies have no closing comment slot in this renderer
	}
	return out
}

func genC12(t *rapid.T) any {
	g := &lintGen{t: t, errPct: 35, gotos: true}
	decls := g.rootDecls() // drawn first: statement ids follow the order of the text
	p := g.program(rapid.IntRange(0, 2).Draw(t, "nuser"))
	p.Decls = decls
	if rapid.IntRange(0, 4).Draw(t, "snippet") == 0 {
		// a statement-only snippet: the statements of vcl_recv at the top level of the file
		for _, sub := range p.Subs {
			if sub.Name == "vcl_recv" {
				p = LProgram{Subs: []LSub{sub}, Snippet: true}
				break
			}
		}
	}
	c := C12Case{Prog: p}
	if !p.Snippet && len(p.Subs) >= 2 && rapid.IntRange(0, 5).Draw(t, "subrange") == 0 {
		// ignore_subroutines is only drawn here: a directive INSIDE a subroutine whose body the configuration
		// excludes from linting is never read, and nothing says it should be
		if rapid.IntRange(0, 1).Draw(t, "ignore-subs") == 0 {
			k := rapid.IntRange(1, 2).Draw(t, "nignored")
			for j := 0; j < k; j++ {
				c.IgnoreSubs = append(c.IgnoreSubs, p.Subs[rapid.IntRange(0, len(p.Subs)-1).Draw(t, "ignoredsub")].Name)
			}
		}
		// the only directive pair of the case stands in front of two subroutine declarations
		a := rapid.IntRange(0, len(p.Subs)-2).Draw(t, "sub-a")
		b := rapid.IntRange(a+1, len(p.Subs)-1).Draw(t, "sub-b")
		d := C12Dir{Kind: "subrange", SubA: a, SubB: b, Marker: rapid.SampledFrom([]string{"//", "#", "/*"}).Draw(t, "marker")}
		if rapid.IntRange(0, 2).Draw(t, "withrules") == 0 {
			d.Rules = append(d.Rules, rapid.SampledFrom(c12Rules).Draw(t, "rule"))
		}
		c.Dirs = []C12Dir{d}
		return c
	}
	refs := collectStmts(&c.Prog)
	var cands []stmtRef
	for _, r := range refs {
		// declarations of locals are candidates too: their unused/variable diagnostic is reported when the
		// subroutine is left but is located in the declare statement
		cands = append(cands, r)
	}
	n := rapid.IntRange(1, 3).Draw(t, "ndirs")
	usedLead := map[int]bool{}
	usedTrail := map[int]bool{}
	var ranges [][2]int // [first id, last id] of statements in ranges, to keep ranges disjoint
	for i := 0; i < n && len(cands) > 0; i++ {
		r := cands[rapid.IntRange(0, len(cands)-1).Draw(t, "target")]
		d := C12Dir{Target: r.s.ID, Marker: rapid.SampledFrom([]string{"//", "#", "/*", "//", "#", "/*", "/*tight", "//tab", "#tight"}).Draw(t, "marker")}
		if rapid.IntRange(0, 2).Draw(t, "withrules") == 0 {
			k := rapid.IntRange(1, 2).Draw(t, "nrules")
			for j := 0; j < k; j++ {
				d.Rules = append(d.Rules, rapid.SampledFrom(c12Rules).Draw(t, "rule"))
			}
		}
		kind := rapid.SampledFrom([]string{"next", "next", "this", "range", "range", "stacked", "accum", "xrange"}).Draw(t, "dkind")
		switch kind {
		case "xrange":
			// a range is lexical: -start in front of a statement, -end in front of ANY later statement of the
			// file (another block, an enclosing block, a later subroutine)
			if usedLead[r.s.ID] || r.s.Lead2 != "" {
				continue
			}
			var later []stmtRef
			for _, x := range cands {
				if x.s.ID > maxID(r.s) && !usedLead[x.s.ID] && x.s.Lead2 == "" {
					later = append(later, x)
				}
			}
			if len(later) == 0 {
				continue
			}
			e := later[rapid.IntRange(0, len(later)-1).Draw(t, "xend")]
			// keep independent ranges apart: ids are in document order
			first, last := r.s.ID, e.s.ID
			overlap := false
			for _, rg := range ranges {
				if !(last < rg[0] || first > rg[1]) {
					overlap = true
				}
			}
			for id := range usedLead {
				if id > first && id < last {
					overlap = true // another directive sits inside
				}
			}
			for id := range usedTrail {
				if id >= first && id < last {
					overlap = true
				}
			}
			if overlap {
				continue
			}
			ranges = append(ranges, [2]int{first, last})
			usedLead[r.s.ID], usedLead[e.s.ID] = true, true
			d.Kind, d.End = "xrange", e.s.ID
		case "stacked":
			// two falco-ignore-next-line comments in front of one statement, each with its own rule list
			if usedLead[r.s.ID] || r.s.Lead2 == "" {
				continue
			}
			usedLead[r.s.ID] = true
			d.Kind = "next"
			if len(d.Rules) == 0 {
				d.Rules = []string{rapid.SampledFrom(c12Rules).Draw(t, "rule")}
			}
			c.Dirs = append(c.Dirs, d)
			d2 := C12Dir{Kind: "next", Target: r.s.ID, Slot: 2, Marker: rapid.SampledFrom([]string{"//", "#", "/*", "/*tight", "//tab", "#tight"}).Draw(t, "marker2")}
			if rapid.IntRange(0, 3).Draw(t, "second-all") > 0 {
				d2.Rules = []string{rapid.SampledFrom(c12Rules).Draw(t, "rule2")}
			}
			c.Dirs = append(c.Dirs, d2)
			continue
		case "accum":
			blk := *r.block
			var free []int
			for j := r.idx; j < len(blk); j++ {
				if !usedLead[blk[j].ID] {
					free = append(free, j)
				}
			}
			if len(free) < 3 || free[0] != r.idx {
				continue
			}
			k := 3
			if len(free) >= 4 && rapid.Bool().Draw(t, "end-with-rules") {
				k = 4
			}
			// choose k increasing positions starting at r.idx
			pos := []int{r.idx}
			rest := free[1:]
			for len(pos) < k {
				need := k - len(pos)
				j := rapid.IntRange(0, len(rest)-need).Draw(t, "accpos")
				pos = append(pos, rest[j])
				rest = rest[j+1:]
			}
			first, last := blk[pos[0]].ID, maxID(&blk[pos[k-1]-1])
			overlap := false
			for _, rg := range ranges {
				if !(last < rg[0] || first > rg[1]) {
					overlap = true
				}
			}
			if overlap {
				continue
			}
			ranges = append(ranges, [2]int{first, last})
			d.Kind = "accum"
			d.Rules = []string{rapid.SampledFrom(c12Rules).Draw(t, "rule")}
			d.Rules2 = []string{rapid.SampledFrom(c12Rules).Draw(t, "rule2")}
			d.Target2 = blk[pos[1]].ID
			if k == 4 {
				d.End1 = blk[pos[2]].ID
			}
			d.End = blk[pos[k-1]].ID
			for _, q := range pos {
				usedLead[blk[q].ID] = true
			}
		case "this":
			if r.s.Compound || usedTrail[r.s.ID] {
				continue // trailing falco-ignore only on simple statements (documentation is ambiguous for compound ones)
			}
			if strings.HasPrefix(r.s.Text, "penaltybox ") || strings.HasPrefix(r.s.Text, "ratecounter ") || strings.HasPrefix(r.s.Text, "sub ") {
				continue // the comment behind `}` belongs to the block of these declarations (docs/parser.md), not to a line
			}
			usedTrail[r.s.ID] = true
			d.Kind = "this"
		case "next":
			if usedLead[r.s.ID] {
				continue
			}
			usedLead[r.s.ID] = true
			d.Kind = "next"
		case "range":
			if usedLead[r.s.ID] {
				continue
			}
			blk := *r.block
			// end: a later statement of the same block, or the block's closing comment
			var ends []int
			for j := r.idx + 1; j < len(blk); j++ {
				if !usedLead[blk[j].ID] {
					ends = append(ends, j)
				}
			}
			endIdx := -1
			if r.lastBlk && r.owner != nil && (len(ends) == 0 || rapid.IntRange(0, 2).Draw(t, "blockend") == 0) {
				endIdx = len(blk) // closing comment
			} else if len(ends) > 0 {
				endIdx = ends[rapid.IntRange(0, len(ends)-1).Draw(t, "endidx")]
			} else {
				continue
			}
			first, last := blk[r.idx].ID, maxID(&blk[min(endIdx, len(blk))-1])
			overlap := false
			for _, rg := range ranges {
				if !(last < rg[0] || first > rg[1]) {
					overlap = true
				}
			}
			if overlap {
				continue
			}
			// nested statements have larger ids than their parent: take the max id inside the last covered statement
			ranges = append(ranges, [2]int{first, maxID(&blk[min(endIdx, len(blk))-1])})
			d.Kind = "range"
			usedLead[r.s.ID] = true
			if endIdx < len(blk) {
				d.End = blk[endIdx].ID
				usedLead[blk[endIdx].ID] = true
			} else {
				d.End = 0
				if r.owner.EndLead == "" || strings.Contains(r.owner.EndLead, "falco-") {
					continue
				}
				r.owner.EndLead = "<taken>"
			}
		}
		c.Dirs = append(c.Dirs, d)
	}
	// undo placeholders
	for _, r := range refs {
		if r.s.EndLead == "<taken>" {
			r.s.EndLead = "// reserved"
		}
	}
	return c
}

func maxID(s *LStmt) int {
	m := s.ID
	for i := range s.Body {
		if v := maxID(&s.Body[i]); v > m {
			m = v
		}
	}
	for k := range s.Elifs {
		for i := range s.Elifs[k].Body {
			if v := maxID(&s.Elifs[k].Body[i]); v > m {
				m = v
			}
		}
	}
	for i := range s.Else {
		if v := maxID(&s.Else[i]); v > m {
			m = v
		}
	}
	return m
}

func directiveText(marker, word string, rules []string) string {
	body := word
	if len(rules) > 0 {
		body += " " + strings.Join(rules, ", ")
	}
	switch marker {
	case "#":
		return "# " + body
	case "/*":
		return "/* " + body + " */"
	case "/*tight": // no blank between the directive and the comment markers
		return "/*" + body + "*/"
	case "//tab":
		return "//\t" + body + "\t"
	case "#tight":
		return "#" + body
	}
	return "// " + body
}

type locDiag struct {
	Rule, Severity, Message string
	Line, Pos               int
}

func lintLocated(src string, ignoreSubs ...string) ([]locDiag, string) {
	vcl, err := parser.New(lexer.NewFromString(src, lexer.WithFile("main.vcl"))).ParseVCLOrSnippet()
	if err != nil {
		return nil, "parse error: " + err.Error()
	}
	lt := linter.New(&config.LinterConfig{IgnoreSubroutines: ignoreSubs})
	lt.Lint(vcl, lcontext.New(lcontext.WithResolver(resolver.NewStaticResolver("main.vcl", src))))
	if lt.FatalError != nil {
		return nil, fmt.Sprintf("fatal: %v", lt.FatalError.Error)
	}
	var out []locDiag
	for _, e := range lt.Errors {
		out = append(out, locDiag{string(e.Rule), string(e.Severity), e.Message, e.Token.Line, e.Token.Position})
	}
	sortDiags(out)
	return out, ""
}

func sortDiags(out []locDiag) {
	sort.Slice(out, func(i, j int) bool {
		a, b := out[i], out[j]
		if a.Line != b.Line {
			return a.Line < b.Line
		}
		if a.Pos != b.Pos {
			return a.Pos < b.Pos
		}
		if a.Rule != b.Rule {
			return a.Rule < b.Rule
		}
		return a.Message < b.Message
	})
}

func checkC12(raw json.RawMessage) iso.Result {
	var c C12Case
	if err := json.Unmarshal(raw, &c); err != nil {
		return iso.Failf("bad case: %v", err)
	}
	col := iso.NewCollector("C12")
	base := c.Prog
	baseSrc := base.render()
	dBase, e1 := lintLocated(baseSrc, c.IgnoreSubs...)
	if len(c.IgnoreSubs) > 0 {
		col.Label("config:ignore_subroutines")
	}
	if e1 != "" {
		col.Failf("harness: base program cannot be linted: %s\n%s", e1, baseSrc)
		return col.Done()
	}

	// variant: replace comments by directives
	var variant LProgram
	b, _ := json.Marshal(c.Prog)
	json.Unmarshal(b, &variant)
	refs := collectStmts(&variant)
	byID := map[int]stmtRef{}
	for _, r := range refs {
		byID[r.s.ID] = r
	}
	baseRefs := collectStmts(&base) // carries First/Last from render()
	span := map[int][2]int{}
	for _, r := range baseRefs {
		span[r.s.ID] = [2]int{r.s.First, r.s.Last}
	}
	type cover struct {
		from, to int
		rules    []string
	}
	var covers []cover
	for _, d := range c.Dirs {
		if d.Kind == "subrange" {
			if d.SubB >= len(variant.Subs) || d.SubA >= d.SubB {
				col.Failf("harness: bad subrange %+v", d)
				return col.Done()
			}
			col.Label("dir:subrange")
			endRules := d.Rules
			if len(d.Rules) > 0 && d.SubA%2 == 0 {
				endRules = nil
			}
			variant.Subs[d.SubA].Lead = directiveText(d.Marker, "falco-ignore-start", d.Rules)
			variant.Subs[d.SubB].Lead = directiveText(d.Marker, "falco-ignore-end", endRules)
			covers = append(covers, cover{base.Subs[d.SubA].Line, base.Subs[d.SubB].Line - 2, d.Rules})
			for _, n := range c.IgnoreSubs {
				if n == variant.Subs[d.SubA].Name || n == variant.Subs[d.SubB].Name {
					col.Label("dir:subrange-on-ignored-subroutine")
				}
			}
			continue
		}
		r, ok := byID[d.Target]
		if !ok {
			col.Failf("harness: directive targets unknown statement %d", d.Target)
			return col.Done()
		}
		col.Label("dir:" + d.Kind)
		if len(d.Rules) > 0 {
			col.Label("dir:with-rules")
		}
		if r.s.Compound {
			col.Label("dir:on-compound")
		}
		switch d.Kind {
		case "next":
			if d.Slot == 2 {
				r.s.Lead2 = directiveText(d.Marker, "falco-ignore-next-line", d.Rules)
				col.Label("dir:stacked-next-line")
			} else {
				r.s.Lead = directiveText(d.Marker, "falco-ignore-next-line", d.Rules)
			}
			covers = append(covers, cover{span[d.Target][0], span[d.Target][1], d.Rules})
		case "xrange":
			e := byID[d.End]
			r.s.Lead = directiveText(d.Marker, "falco-ignore-start", d.Rules)
			endRules := d.Rules
			if len(d.Rules) > 0 && d.Target%2 == 0 {
				endRules = nil
			}
			e.s.Lead = directiveText(d.Marker, "falco-ignore-end", endRules)
			// everything between the two comment lines (the end comment stands on the line before its statement)
			covers = append(covers, cover{span[d.Target][0], span[d.End][0] - 2, d.Rules})
			if r.sub != e.sub {
				col.Label("dir:xrange-across-subroutines")
			} else if r.block != e.block {
				col.Label("dir:xrange-across-blocks")
			}
		case "accum":
			blk := *r.block
			t2, e := byID[d.Target2], byID[d.End]
			r.s.Lead = directiveText(d.Marker, "falco-ignore-start", d.Rules)
			t2.s.Lead = directiveText(d.Marker, "falco-ignore-start", d.Rules2)
			e.s.Lead = directiveText(d.Marker, "falco-ignore-end", nil)
			both := append(append([]string{}, d.Rules...), d.Rules2...)
			covers = append(covers, cover{span[d.Target][0], span[blk[t2.idx-1].ID][1], d.Rules})
			if d.End1 != 0 {
				e1 := byID[d.End1]
				e1.s.Lead = directiveText(d.Marker, "falco-ignore-end", d.Rules)
				covers = append(covers, cover{span[d.Target2][0], span[blk[e1.idx-1].ID][1], both})
				// after `end Rules` only Rules2 stays ignored (unless both lists name the same rule)
				var left []string
				for _, x := range d.Rules2 {
					if x != d.Rules[0] {
						left = append(left, x)
					}
				}
				if len(left) > 0 {
					covers = append(covers, cover{span[d.End1][0], span[blk[e.idx-1].ID][1], left})
				}
				col.Label("dir:accum-end-with-rules")
			} else {
				covers = append(covers, cover{span[d.Target2][0], span[blk[e.idx-1].ID][1], both})
			}
		case "this":
			r.s.Trail = directiveText(d.Marker, "falco-ignore", d.Rules)
			covers = append(covers, cover{span[d.Target][0], span[d.Target][1], d.Rules})
		case "range":
			r.s.Lead = directiveText(d.Marker, "falco-ignore-start", d.Rules)
			blk := *r.block
			endRules := d.Rules
			if len(d.Rules) > 0 && d.Target%2 == 0 {
				endRules = nil // "falco-ignore-end without rule names re-enables all rules"
			}
			if d.End != 0 {
				e := byID[d.End]
				e.s.Lead = directiveText(d.Marker, "falco-ignore-end", endRules)
				last := blk[e.idx-1]
				covers = append(covers, cover{span[d.Target][0], span[last.ID][1], d.Rules})
			} else {
				r.owner.EndLead = directiveText(d.Marker, "falco-ignore-end", endRules)
				last := blk[len(blk)-1]
				covers = append(covers, cover{span[d.Target][0], span[last.ID][1], d.Rules})
				col.Label("dir:end-at-block-end")
			}
		}
	}
	varSrc := variant.render()
	if strings.Count(varSrc, "\n") != strings.Count(baseSrc, "\n") {
		col.Failf("harness: directive placement moved lines\n--- base ---\n%s\n--- variant ---\n%s", baseSrc, varSrc)
		return col.Done()
	}
	dVar, e2 := lintLocated(varSrc, c.IgnoreSubs...)
	if e2 != "" {
		col.Failf("variant cannot be linted: %s\n%s", e2, varSrc)
		return col.Done()
	}
	// expected = base minus covered
	var want []locDiag
	removed := 0
	maxCovered := 0
	for _, cv := range covers {
		if cv.to > maxCovered {
			maxCovered = cv.to
		}
	}
	survivorAfter := false
	for _, d := range dBase {
		covered := false
		for _, cv := range covers {
			if d.Line >= cv.from && d.Line <= cv.to {
				if len(cv.rules) == 0 {
					covered = true
				}
				for _, r := range cv.rules {
					if r == d.Rule {
						covered = true
					}
				}
			}
		}
		if covered {
			removed++
			continue
		}
		if d.Line > maxCovered {
			survivorAfter = true
		}
		want = append(want, d)
	}
	sortDiags(want)
	// unused/* diagnostics are located at the declaration but raised when the subroutine (or the file) ends:
	// whether a range that is still open at that point hides them is a question of emission time, not of
	// location. With a range that crosses a block or subroutine boundary they are left out of the comparison.
	crosses := false
	for _, d := range c.Dirs {
		if d.Kind == "xrange" || d.Kind == "subrange" {
			crosses = true
		}
	}
	stmtLine := map[int]bool{}
	for _, sp := range span {
		for l := sp[0]; l <= sp[1]; l++ {
			stmtLine[l] = true
		}
	}
	if crosses {
		filter := func(in []locDiag) []locDiag {
			var out []locDiag
			for _, d := range in {
				// (likewise diagnostics located on a `sub` line come from passes that run before the bodies are linted)
				if !strings.HasPrefix(d.Rule, "unused/") && stmtLine[d.Line] {
					out = append(out, d)
				}
			}
			return out
		}
		want, dVar = filter(want), filter(dVar)
	}
	{
		// two declarations of one name share one "is used" flag: which of them an unused/declaration warning
		// belongs to (and hence whether a directive on one of them covers it) is not defined
		drop := func(in []locDiag) []locDiag {
			var out []locDiag
			for _, d := range in {
				if d.Rule == "unused/declaration" && strings.Contains(d.Message, "\"dup_") {
					continue
				}
				out = append(out, d)
			}
			return out
		}
		want, dVar = drop(want), drop(dVar)
	}
	if fmt.Sprint(want) != fmt.Sprint(dVar) {
		col.FailKey(c12Key(c, want, dVar), "ignore comments did not suppress exactly what they cover\n%s\n covered line ranges: %+v\n--- variant ---\n%s", locDiff(want, dVar), covers, numbered(varSrc))
	}
	col.Count("diagnostics_base", len(dBase))
	col.Count("diagnostics_removed", removed)
	if removed >= 1 && survivorAfter {
		col.Res.NonTrivial = true
	}
	return col.Done()
}

func locDiff(want, got []locDiag) string {
	cnt := map[locDiag]int{}
	for _, d := range want {
		cnt[d]++
	}
	for _, d := range got {
		cnt[d]--
	}
	var out []string
	for d, n := range cnt {
		if n > 0 {
			out = append(out, fmt.Sprintf(" LEAKED AWAY (should be reported, is not): line %d:%d [%s] %s", d.Line, d.Pos, d.Rule, d.Message))
		} else if n < 0 {
			out = append(out, fmt.Sprintf(" NOT SUPPRESSED / EXTRA (reported, should not be): line %d:%d [%s] %s", d.Line, d.Pos, d.Rule, d.Message))
		}
	}
	sort.Strings(out)
	return strings.Join(out, "\n")
}

func numbered(src string) string {
	var b strings.Builder
	for i, l := range strings.Split(src, "\n") {
		fmt.Fprintf(&b, "%3d| %s\n", i+1, l)
	}
	return b.String()
}

// c12Key: classifier of known findings (filled in during triage).
func c12Key(c C12Case, want, got []locDiag) string {
	// known: in a statement-only snippet `goto x;` without a destination is reported as unused/goto when the
	// linter has finished (lintUnusedGotos at the end of Lint), long after the directive covering the goto
	// statement was dropped. Signature: snippet, and once the unused/goto diagnostics are removed from what
	// falco reports, it reports exactly what is expected.
	if c.Prog.Snippet {
		var rest []locDiag
		n := 0
		for _, d := range got {
			if d.Rule == "unused/goto" {
				n++
				continue
			}
			rest = append(rest, d)
		}
		var wrest []locDiag
		for _, d := range want {
			if d.Rule != "unused/goto" {
				wrest = append(wrest, d)
			}
		}
		if n > 0 && fmt.Sprint(rest) == fmt.Sprint(wrest) {
			return "lint.unused-goto-in-snippet-not-suppressed"
		}
	}
	return ""
}
