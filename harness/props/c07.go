package props

import (
	"encoding/json"
	"fmt"
	"math"
	"os"
	"strings"
	"time"

	"github.com/ysugimoto/falco/v2/interpreter"
	"github.com/ysugimoto/falco/v2/interpreter/value"
	"pgregory.net/rapid"

	"verif/iso"
	"verif/ref"
)

// C07 — expressions and assignments compute what VCL semantics prescribe.

type C07Case struct {
	Acls []*ref.Acl `json:"acls,omitempty"`
	Prog []ref.Stmt `json:"prog"`
	Src  string     `json:"src"`
	// HdrObj: the HTTP object the pooled headers live on ("" = req). The program text is generated
	// with req.http.* and rewritten before it runs; the scope follows the object.
	HdrObj string `json:"hdrobj,omitempty"`
	// Dual: operands of the mixed-type duality probe (an INTEGER, a FLOAT and an RTIME close to each other)
	Dual *C07Dual `json:"dual,omitempty"`
}

// C07Dual holds three numeric operands near one another: I whole, F = whole + a short fraction,
// R in milliseconds (>= 0). The probe compares every ordered pair of them through variables.
type C07Dual struct {
	I int64  `json:"i"`
	F string `json:"f"`
	R int64  `json:"r_ms"`
}

var c07ObjScope = map[string]string{"": "recv", "req": "recv", "bereq": "miss", "beresp": "fetch", "obj": "error", "resp": "deliver"}

func (c C07Case) onObj(text string) string {
	if c.HdrObj == "" || c.HdrObj == "req" {
		return text
	}
	return strings.ReplaceAll(text, "req.http.H", c.HdrObj+".http.H")
}

func init() {
	register("C07",
		"type-directed core-language programs (pool of INTEGER/FLOAT/STRING/BOOL/RTIME/IP locals and headers on req (RECV), bereq (MISS), beresp (FETCH), obj (ERROR) or resp (DELIVER); mixed-type numeric assignments; every assignment operator legal for the type; comparison, logical, regex and ACL-match conditions; concatenation; if/else-if/else; switch with regex cases, fallthrough, default; not-set operands) plus ACLs of up to 8 IPv4/IPv6 entries with masks/negations and probe addresses inside/on the boundary/outside; RTIME literals in every unit (ms s m h d y); in half of the cases a duality probe: an INTEGER, a FLOAT and an RTIME variable holding values within one unit of each other (fractions .25/.5/.75, 1/250/500/999 ms) compared in every ordered pair with every operator, `a < b` must equal `b > a`, `a <= b` must equal `b >= a`, `!=` must negate `==` (spellings falco refuses decide nothing); oracle: a reference evaluator written from the Fastly documentation predicts every log line (branch trace) and the final value and set/not-set state of every pooled name; falco runs the rendered program in the scope of the header object. non-trivial: >=1 value-dependent compound assignment or comparison and >=1 branch, or an ACL probe against an ACL with >=2 entries; distinct by program",
		genC07, checkC07, 10*time.Second)
}

func genC07(t *rapid.T) any {
	g := &coreGen{t: t}
	g.genAcls()
	maxStmts := pick(20, 30)
	if os.Getenv("VERIF_SMALL") == "1" {
		maxStmts = 3
	}
	prog := g.program(maxStmts)
	obj := rapid.SampledFrom([]string{"", "", "", "resp", "beresp", "obj", "bereq"}).Draw(t, "hdrobj")
	c := C07Case{Acls: g.acls, Prog: prog, Src: "{\n" + ref.RenderStmts(prog, "  ") + "}\n", HdrObj: obj}
	if g.chance(50, "dualprobe") {
		k := int64(g.n(-3, 130, "dualbase"))
		if g.chance(15, "dualwide") {
			k = intBoundaries[g.n(0, len(intBoundaries)-1, "dualbound")]
		}
		d := &C07Dual{I: k + int64(g.n(-1, 1, "dual-i-off"))}
		d.F = fmt.Sprintf("%d.%s", k+int64(g.n(-1, 1, "dual-f-off")), []string{"0", "5", "25", "75"}[g.n(0, 3, "dual-f-frac")])
		rk := k + int64(g.n(-1, 1, "dual-r-off"))
		if rk < 0 {
			rk = 0
		}
		if rk > 1<<32 {
			rk = 1 << 32
		}
		d.R = rk*1000 + []int64{0, 1, 250, 500, 999}[g.n(0, 4, "dual-r-frac")]
		c.Dual = d
	}
	return c
}

func coreVCL(acls []*ref.Acl) string {
	var b strings.Builder
	b.WriteString("backend b { .host = \"127.0.0.1\"; .port = \"1\"; }\n")
	for _, a := range acls {
		b.WriteString(a.Render())
	}
	b.WriteString("sub vcl_recv { }\n")
	return b.String()
}

// toRef converts a falco value to the reference representation.
func toRef(v value.Value) (ref.Val, error) {
	switch x := v.(type) {
	case *value.Integer:
		if x.IsNAN || x.IsPositiveInf || x.IsNegativeInf {
			return ref.Val{}, fmt.Errorf("INTEGER is NaN/inf")
		}
		return ref.Val{T: ref.TInt, I: x.Value}, nil
	case *value.Float:
		return ref.Val{T: ref.TFloat, F: x.Value}, nil
	case *value.String:
		return ref.Val{T: ref.TStr, S: x.Value, NotSet: x.IsNotSet}, nil
	case *value.Boolean:
		return ref.Val{T: ref.TBool, B: x.Value}, nil
	case *value.RTime:
		if x.Value%time.Millisecond != 0 {
			return ref.Val{}, fmt.Errorf("RTIME %v is not a whole number of milliseconds", x.Value)
		}
		return ref.Val{T: ref.TRTime, D: int64(x.Value / time.Millisecond)}, nil
	case *value.IP:
		if x.IsNotSet || x.Value == nil {
			return ref.Val{T: ref.TIP, NotSet: true}, nil
		}
		return ref.Val{T: ref.TIP, IP: x.Value.String()}, nil
	}
	return ref.Val{}, fmt.Errorf("unexpected value type %T", v)
}

func sameVal(want, got ref.Val) bool {
	if want.T != got.T {
		return false
	}
	switch want.T {
	case ref.TInt:
		return want.I == got.I
	case ref.TFloat:
		if want.F == got.F {
			return true
		}
		d := math.Abs(want.F - got.F)
		return d <= 1e-12*math.Max(math.Abs(want.F), math.Abs(got.F))
	case ref.TStr:
		if want.NotSet || got.NotSet {
			return want.NotSet == got.NotSet
		}
		return want.S == got.S
	case ref.TBool:
		return want.B == got.B
	case ref.TRTime:
		return want.D == got.D
	case ref.TIP:
		if want.NotSet || got.NotSet {
			return want.NotSet == got.NotSet
		}
		return want.IP == got.IP
	}
	return false
}

type coreRun struct {
	ip   *interpreter.Interpreter
	dbg  *capDebugger
	err  error
	init error
}

// runCore executes a rendered core program at the top level of a fresh interpreter in RECV scope.
func runCore(acls []*ref.Acl, src string, scope ...string) coreRun {
	ip, dbg, err := newTestInterp(coreVCL(acls))
	if err != nil {
		return coreRun{init: err}
	}
	sc := "recv"
	if len(scope) > 0 && scope[0] != "" {
		sc = scope[0]
	}
	ip.SetScope(scopeByName[sc])
	ss, err := parseSnippet(src)
	if err != nil {
		return coreRun{init: fmt.Errorf("harness: generated program does not parse: %v\n%s", err, src)}
	}
	_, err = execStmts(ip, ss)
	return coreRun{ip: ip, dbg: dbg, err: err}
}

func checkC07(raw json.RawMessage) iso.Result {
	var c C07Case
	if err := json.Unmarshal(raw, &c); err != nil {
		return iso.Failf("bad case: %v", err)
	}
	col := iso.NewCollector("C07")
	if c.Src == "" {
		c.Src = "{\n" + ref.RenderStmts(c.Prog, "  ") + "}\n"
	}
	env := ref.NewEnv()
	for _, a := range c.Acls {
		env.Acls[a.Name] = a
	}
	env.Run(c.Prog)
	classifyCore(col, c.Prog, c.Acls)
	if env.Aborted {
		col.Label("ref-aborted:" + strings.SplitN(env.Why, " ", 3)[0])
	}

	c.Src = c.onObj(c.Src)
	col.Label("headers-on:" + c07ObjScope[c.HdrObj])
	r := runCore(c.Acls, c.Src, c07ObjScope[c.HdrObj])
	if r.init != nil {
		col.Failf("%v", r.init)
		return col.Done()
	}
	got := r.dbg.Logs
	// the log lines the reference determines must appear, in order, as a prefix
	for i, w := range env.Logs {
		if i >= len(got) {
			col.FailKey(c07Key(c, env, "missing-log"), "falco stopped before log line %d %q (falco error: %v)\n want logs: %q\n  got logs: %q\n--- program ---\n%s", i, w, r.err, env.Logs, got, c.Src)
			return col.Done()
		}
		if got[i] != w {
			col.FailKey(c07Key(c, env, "log-diff"), "log line %d differs: reference %q, falco %q (falco error: %v)\n want logs: %q\n  got logs: %q\n--- program ---\n%s", i, w, got[i], r.err, env.Logs, got, c.Src)
			return col.Done()
		}
	}
	if env.Aborted {
		return col.Done() // beyond this point the documentation does not determine the outcome
	}
	if r.err != nil {
		col.FailKey(c07Key(c, env, "error"), "falco reports a runtime error on a program the reference evaluates completely: %v\n--- program ---\n%s", r.err, c.Src)
		return col.Done()
	}
	if len(got) != len(env.Logs) {
		col.FailKey(c07Key(c, env, "extra-log"), "falco logs %d lines, reference %d\n want logs: %q\n  got logs: %q\n--- program ---\n%s", len(got), len(env.Logs), env.Logs, got, c.Src)
		return col.Done()
	}
	for _, name := range pool.all() {
		want, declared := env.Vars[name]
		if !declared && !strings.Contains(name, ".http.") {
			continue // not part of this program's pool
		}
		if strings.Contains(name, ".http.") {
			w, ok := env.Vars[strings.ToLower(name)]
			if !ok {
				w = ref.Val{T: ref.TStr, NotSet: true}
			}
			want = w
		}
		if want.Unspec && !(want.T == ref.TStr && want.NonEmpty) {
			continue
		}
		v, err := readVar(r.ip, c.onObj(name))
		if err != nil {
			col.Failf("cannot read %s after the run: %v", c.onObj(name), err)
			continue
		}
		g, err := toRef(v)
		if err != nil {
			col.FailKey(c07Key(c, env, "value"), "%s: %v\n--- program ---\n%s", name, err, c.Src)
			continue
		}
		if want.Unspec {
			// the text is not determined, but it is a set, non-empty string (a set non-empty operand was concatenated)
			col.Label("unspecified-but-non-empty")
			if g.T != ref.TStr || g.NotSet || g.S == "" {
				col.FailKey(c07Key(c, env, "value"), "final value of %s: the reference leaves the text open but requires a set, non-empty string; falco %s\n--- program ---\n%s", c.onObj(name), g, c.Src)
			}
			continue
		}
		if !sameVal(want, g) {
			col.FailKey(c07Key(c, env, "value"), "final value of %s: reference %s, falco %s\n--- program ---\n%s", c.onObj(name), want, g, c.Src)
		}
	}
	if c.Dual != nil {
		checkC07Dual(col, c)
	}
	if env.MixedNumeric > 0 {
		col.Label("mixed-numeric-assignment")
		col.Count("mixed-numeric-assignments", env.MixedNumeric)
	}
	if (env.ValueDependent >= 1 && env.Branches >= 1) || hasBigAclProbe(c) {
		col.Res.NonTrivial = true
	}
	return col.Done()
}

func hasBigAclProbe(c C07Case) bool {
	for _, a := range c.Acls {
		if len(a.Entries) >= 2 && strings.Contains(c.Src, "~ "+a.Name) {
			return true
		}
	}
	return false
}

// classifyCore adds generator-health labels.
func classifyCore(col *iso.Collector, prog []ref.Stmt, acls []*ref.Acl) {
	var walk func(ss []ref.Stmt)
	var wexpr func(e *ref.Expr)
	wexpr = func(e *ref.Expr) {
		if e == nil {
			return
		}
		switch e.K {
		case "cmp":
			col.Label("cmp:" + e.Op)
		case "match":
			col.Label("cond:match")
		case "aclmatch":
			col.Label("cond:aclmatch")
		case "cat":
			col.Label("expr:cat")
		case "ifx":
			col.Label("expr:ifx")
		case "truth":
			col.Label("cond:truth")
		}
		wexpr(e.A)
		wexpr(e.Bx)
		wexpr(e.C)
	}
	walk = func(ss []ref.Stmt) {
		for _, s := range ss {
			switch s.K {
			case "set":
				t := pool.typeOf(s.Name)
				if strings.Contains(s.Name, ".http.") {
					t = "HEADER"
				}
				col.Label("set:" + t + s.Op)
				wexpr(s.E)
			case "unset":
				col.Label("stmt:unset")
			case "if":
				col.Label("stmt:if")
				for _, a := range s.Arms {
					wexpr(a.Cond)
					walk(a.Body)
				}
				walk(s.Else)
			case "switch":
				col.Label("stmt:switch")
				for _, cs := range s.Cases {
					if cs.Fallthrough {
						col.Label("switch:fallthrough")
					}
					if cs.Regex {
						col.Label("switch:regex-case")
					}
					walk(cs.Body)
				}
			case "log":
				wexpr(s.E)
			}
		}
	}
	walk(prog)
	for _, a := range acls {
		for _, e := range a.Entries {
			if e.Neg {
				col.Label("acl:negated-entry")
			}
			if strings.Contains(e.IP, ":") {
				col.Label("acl:ipv6-entry")
			}
			if e.Mask < 0 {
				col.Label("acl:host-entry")
			}
		}
	}
}

// c07Key: classifier of known simulator findings (filled in during triage).
func c07Key(c C07Case, env *ref.Env, sig string) string {
	if env.EmptySubjectMatch {
		return "sim.regex-never-matches-empty-subject"
	}
	return ""
}

// checkC07Dual: the duality laws of the property over operands of mixed numeric type. No reference
// value is involved (the documentation does not say how an RTIME compares with an INTEGER): the two
// spellings of one comparison, evaluated by falco on the same variables, must agree — `a < b` exactly
// when `b > a`, `a <= b` exactly when `b >= a`, `!=` the negation of `==`. A spelling falco refuses
// with an error decides nothing.
func checkC07Dual(col *iso.Collector, c C07Case) {
	d := c.Dual
	ip, dbg, err := newTestInterp(coreVCL(nil))
	if err != nil {
		col.Failf("dual probe: %v", err)
		return
	}
	ip.SetScope(scopeByName["recv"])
	setup := fmt.Sprintf("{\n  declare local var.di INTEGER;\n  declare local var.df FLOAT;\n  declare local var.dr RTIME;\n  set var.di = %d;\n  set var.df = %s;\n  set var.dr = %dms;\n}\n", d.I, d.F, d.R)
	ss, err := parseSnippet(setup)
	if err != nil {
		col.Failf("harness: dual probe does not parse: %v\n%s", err, setup)
		return
	}
	if _, err := execStmts(ip, ss); err != nil {
		col.Label("dual-setup-refused")
		return
	}
	eval := func(cond string) (bool, bool) {
		ss, err := parseSnippet("{ if (" + cond + ") { log \"T\"; } else { log \"F\"; } }")
		if err != nil {
			return false, false
		}
		n := len(dbg.Logs)
		if _, err := execStmts(ip, ss); err != nil || len(dbg.Logs) != n+1 {
			return false, false
		}
		return dbg.Logs[n] == "T", true
	}
	vars := []string{"var.di", "var.df", "var.dr"}
	mirror := map[string]string{"<": ">", ">": "<", "<=": ">=", ">=": "<="}
	for _, a := range vars {
		for _, b := range vars {
			if a == b {
				continue
			}
			for _, op := range []string{"<", ">", "<=", ">="} {
				x, ok1 := eval(a + " " + op + " " + b)
				y, ok2 := eval(b + " " + mirror[op] + " " + a)
				if !ok1 || !ok2 {
					col.Label("dual-refused")
					continue
				}
				col.Label("dual-compared")
				if x != y {
					col.FailKey("c07.dual:"+a[4:]+op+b[4:], "duality: with %s `%s %s %s` is %v but `%s %s %s` is %v\n", strings.TrimSpace(strings.ReplaceAll(setup, "\n", " ")), a, op, b, x, b, mirror[op], a, y)
				}
			}
			x, ok1 := eval(a + " == " + b)
			y, ok2 := eval(a + " != " + b)
			if ok1 && ok2 {
				col.Label("dual-eq-compared")
				if x == y {
					col.FailKey("c07.dual:"+a[4:]+"=="+b[4:], "duality: with %s `%s == %s` is %v and `%s != %s` is %v\n", strings.TrimSpace(strings.ReplaceAll(setup, "\n", " ")), a, b, x, a, b, y)
				}
			}
		}
	}
}
