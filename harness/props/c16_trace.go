package props

import (
	"bytes"
	"context"
	"fmt"
	"os"
	"os/exec"
	"path/filepath"
	"regexp"
	"strconv"
	"strings"
	"syscall"
	"time"
)

// Process spawning and strace log analysis for C16.

// c16Syscalls is the traced set: every call through which a file's name,
// content, size or mode can be changed (Go's os package uses openat, write,
// renameat, fchmod/fchmodat, fsync, close, unlinkat).
const c16Syscalls = "openat,write,pwrite64,rename,renameat,renameat2,fsync,fdatasync,close,chmod,fchmod,fchmodat,ftruncate,unlink,unlinkat,link,linkat"

const c16SpawnTimeout = 60 * time.Second

type c16Out struct {
	Exit     int    // exit status (-1 when killed by a signal)
	Signal   string // "SIGKILL", "SIGXFSZ", … or ""
	Stdout   []byte
	Stderr   []byte
	Timeout  bool
	StartErr string
}

func (o c16Out) Failed() bool { return o.Exit != 0 || o.Signal != "" }
func (o c16Out) Infra() bool  { return o.Timeout || o.StartErr != "" }
func (o c16Out) InfraWhy() string {
	if o.Timeout {
		return "timeout"
	}
	return "cannot-start"
}
func (o c16Out) Desc() string {
	switch {
	case o.StartErr != "":
		return "could not start: " + o.StartErr
	case o.Timeout:
		return "timed out"
	case o.Signal != "":
		return "killed by " + o.Signal
	}
	return fmt.Sprintf("exit status %d", o.Exit)
}

var c16SigNames = map[syscall.Signal]string{syscall.SIGKILL: "SIGKILL", syscall.SIGXFSZ: "SIGXFSZ", syscall.SIGSEGV: "SIGSEGV",
	syscall.SIGABRT: "SIGABRT", syscall.SIGTERM: "SIGTERM", syscall.SIGPIPE: "SIGPIPE", syscall.SIGBUS: "SIGBUS", syscall.SIGQUIT: "SIGQUIT"}

// spawn runs argv with a small fixed environment (GOMAXPROCS=1 keeps falco's
// file operations on one thread so that strace's per-thread ordinals are stable;
// without TERM falco's terminal library spawns `infocmp`, which strace -f would
// follow and inject into as well).
func (k *c16Ctx) spawn(argv []string) c16Out {
	ctx, cancel := context.WithTimeout(context.Background(), c16SpawnTimeout)
	defer cancel()
	cmd := exec.CommandContext(ctx, argv[0], argv[1:]...)
	cmd.Dir = k.cwd
	cmd.Env = []string{"PATH=/usr/local/sbin:/usr/local/bin:/usr/sbin:/usr/bin:/sbin:/bin", "HOME=" + k.cwd, "LANG=C", "TERM=xterm", "GOMAXPROCS=1", "GODEBUG=asyncpreemptoff=1"}
	cmd.SysProcAttr = &syscall.SysProcAttr{Setpgid: true}
	cmd.Cancel = func() error { return syscall.Kill(-cmd.Process.Pid, syscall.SIGKILL) }
	cmd.WaitDelay = 3 * time.Second
	var so, se bytes.Buffer
	cmd.Stdout, cmd.Stderr = &so, &se
	if err := cmd.Start(); err != nil {
		return c16Out{StartErr: err.Error()}
	}
	err := cmd.Wait()
	o := c16Out{Stdout: so.Bytes(), Stderr: se.Bytes()}
	if ctx.Err() != nil {
		o.Timeout = true
		return o
	}
	if ps := cmd.ProcessState; ps != nil {
		if ws, ok := ps.Sys().(syscall.WaitStatus); ok && ws.Signaled() {
			o.Exit = -1
			o.Signal = c16SigNames[ws.Signal()]
			if o.Signal == "" {
				o.Signal = fmt.Sprintf("signal %d", int(ws.Signal()))
			}
		} else {
			o.Exit = ps.ExitCode()
		}
	} else if err != nil {
		o.StartErr = err.Error()
	}
	return o
}

type c16TraceRun struct {
	out c16Out
	tr  *c16Trace
}

// straceRun runs `falco fmt -w FILE` on a pristine copy under strace, with an
// optional injection, and parses strace's output.
func (k *c16Ctx) straceRun(inject string) c16TraceRun {
	if err := k.fresh(0o755, 0, 0); err != nil {
		return c16TraceRun{out: c16Out{StartErr: err.Error()}}
	}
	logf := filepath.Join(k.root, "strace.log")
	os.Remove(logf)
	argv := []string{"strace", "-f", "-y", "-e", "trace=" + c16Syscalls}
	if !strings.Contains(inject, "signal=") {
		// stop only at the traced calls: faster, fewer thread hops. Not for signal
		// injection: strace cannot deliver a signal from a seccomp stop (observed
		// with strace 6.1: signal=KILL silently does not fire).
		argv = append(argv, "--seccomp-bpf")
	}
	if inject != "" {
		argv = append(argv, "-e", "inject="+inject)
	}
	argv = append(argv, "-o", logf, k.falco, "fmt", "-w", k.file)
	o := k.spawn(argv)
	r := c16TraceRun{out: o}
	b, err := os.ReadFile(logf)
	if err != nil || o.Infra() {
		return r
	}
	r.tr = c16ParseTrace(string(b), k.dir)
	// falco's own termination is taken from the log ("+++ exited with N +++" /
	// "+++ killed by SIG… +++" of the main process), not from strace's status
	if !r.tr.HaveExit {
		r.tr = nil
		r.out.StartErr = "strace log has no termination line for the traced process"
		return r
	}
	r.out.Exit, r.out.Signal = r.tr.Exit, r.tr.Signal
	return r
}

// c16Call is one syscall entry of the trace.
type c16Call struct {
	Pid        string
	Name       string
	Args       string
	Ord        int      // 1-based ordinal among the calls of this name (see c16ParseTrace)
	Paths      []string // paths inside the target directory this call refers to
	Injected   bool
	Unfinished bool
}

func (c *c16Call) touches() bool { return len(c.Paths) > 0 }

func (c *c16Call) opensForWrite() bool {
	switch c.Name {
	case "openat":
		for _, f := range []string{"O_WRONLY", "O_RDWR", "O_TRUNC", "O_CREAT", "O_APPEND"} {
			if strings.Contains(c.Args, f) {
				return true
			}
		}
		return false
	case "rename", "renameat", "renameat2", "ftruncate", "unlink", "unlinkat", "link", "linkat", "write", "pwrite64":
		return true
	}
	return false
}

func (c *c16Call) short() string {
	fl := ""
	if c.Name == "openat" {
		if m := regexp.MustCompile(`O_[A-Z_|]+`).FindString(c.Args); m != "" {
			fl = " " + m
		}
	}
	var bs []string
	for _, p := range c.Paths {
		bs = append(bs, filepath.Base(p))
	}
	return fmt.Sprintf("%s(%s%s)", c.Name, strings.Join(bs, ","), fl)
}

type c16Trace struct {
	Calls    []*c16Call
	MainPid  string
	HaveExit bool
	Exit     int
	Signal   string
}

var (
	c16LineRe   = regexp.MustCompile(`^(\d+)\s+(.*)$`)
	c16CallRe   = regexp.MustCompile(`^([a-z_0-9]+)\((.*)$`)
	c16ResumeRe = regexp.MustCompile(`^<\.\.\. ([a-z_0-9]+) resumed>(.*)$`)
	c16FdRe     = regexp.MustCompile(`^(\d+)<([^>]*)>`)
	c16ExitRe   = regexp.MustCompile(`^\+\+\+ exited with (\d+) \+\+\+`)
	c16KillRe   = regexp.MustCompile(`^\+\+\+ killed by (SIG[A-Z0-9]+)`)
)

var c16FdCalls = map[string]bool{"write": true, "pwrite64": true, "fsync": true, "fdatasync": true, "close": true, "fchmod": true, "ftruncate": true}

// c16ParseTrace parses `strace -f -y -o` output. dir is the target directory.
func c16ParseTrace(log, dir string) *c16Trace {
	tr := &c16Trace{}
	ords := map[string]int{}
	pending := map[string]*c16Call{}
	prefix := dir + "/"
	for _, line := range strings.Split(log, "\n") {
		m := c16LineRe.FindStringSubmatch(line)
		if m == nil {
			continue
		}
		pid, rest := m[1], m[2]
		if tr.MainPid == "" {
			tr.MainPid = pid
		}
		switch {
		case strings.HasPrefix(rest, "+++"):
			if pid != tr.MainPid {
				continue
			}
			if x := c16ExitRe.FindStringSubmatch(rest); x != nil {
				tr.HaveExit = true
				tr.Exit, _ = strconv.Atoi(x[1])
			} else if x := c16KillRe.FindStringSubmatch(rest); x != nil {
				tr.HaveExit = true
				tr.Exit, tr.Signal = -1, x[1]
			}
		case strings.HasPrefix(rest, "---"):
		case strings.HasPrefix(rest, "<..."):
			if x := c16ResumeRe.FindStringSubmatch(rest); x != nil {
				if c := pending[pid]; c != nil && c.Name == x[1] {
					c.Unfinished = false
					if strings.HasSuffix(strings.TrimSpace(rest), "(INJECTED)") {
						c.Injected = true
					}
					delete(pending, pid)
				}
			}
		default:
			x := c16CallRe.FindStringSubmatch(rest)
			if x == nil {
				continue
			}
			c := &c16Call{Pid: pid, Name: x[1], Args: x[2]}
			// strace counts when=K per thread. The ordinal is taken over the whole process:
			// that is what a run sees whose file operations all happen on the main thread
			// (the normal case with GOMAXPROCS=1; the runtime's other threads make none of
			// the traced calls). A run in which the goroutine migrated is a mis-aimed
			// injection: detected from the marks, retried.
			ords[c.Name]++
			c.Ord = ords[c.Name]
			t := strings.TrimSpace(rest)
			if strings.HasSuffix(t, "<unfinished ...>") {
				c.Unfinished = true
				pending[pid] = c
			} else if strings.HasSuffix(t, "(INJECTED)") {
				c.Injected = true
			}
			if c16FdCalls[c.Name] {
				// only the descriptor's decoded path counts (a data buffer may quote anything)
				// (the directory itself counts too: an implementation may sync it after the rename)
				if f := c16FdRe.FindStringSubmatch(c.Args); f != nil && (strings.HasPrefix(f[2], prefix) || f[2] == dir) {
					c.Paths = append(c.Paths, strings.TrimSuffix(f[2], " (deleted)"))
				}
			} else {
				a := c.Args
				if strings.Contains(a, `"`+dir+`"`) {
					c.Paths = append(c.Paths, dir)
				}
				for {
					i := strings.Index(a, `"`+prefix)
					if i < 0 {
						break
					}
					a = a[i+1:]
					j := strings.Index(a, `"`)
					if j < 0 {
						break
					}
					c.Paths = append(c.Paths, a[:j])
					a = a[j+1:]
				}
			}
			tr.Calls = append(tr.Calls, c)
		}
	}
	return tr
}

// touching lists the calls that refer to the target or a sibling, in order.
func (t *c16Trace) touching() []*c16Call {
	var out []*c16Call
	for _, c := range t.Calls {
		if c.touches() {
			out = append(out, c)
		}
	}
	return out
}

func (c *c16Call) onPath(p string) bool {
	for _, x := range c.Paths {
		if x == p {
			return true
		}
	}
	return false
}

// usable: the trace shows the process ending and at least one open of the target.
func (t *c16Trace) usable(file string) bool {
	if !t.HaveExit {
		return false
	}
	for _, c := range t.Calls {
		if c.Name == "openat" && c.onPath(file) {
			return true
		}
	}
	return false
}

// truncatesInPlace: the target itself is opened with O_TRUNC or ftruncated.
func (t *c16Trace) truncatesInPlace(file string) bool {
	for _, c := range t.Calls {
		if !c.onPath(file) {
			continue
		}
		if (c.Name == "openat" && strings.Contains(c.Args, "O_TRUNC")) || c.Name == "ftruncate" {
			return true
		}
	}
	return false
}

func (t *c16Trace) usesSibling(file string) bool {
	for _, c := range t.Calls {
		for _, p := range c.Paths {
			if p != file {
				return true
			}
		}
	}
	return false
}

// fired reports where an injection took effect: the index (among the touching
// calls) and name of the first injected call on the target/sibling (-1 if
// none), and the number of injected calls elsewhere. For signal=KILL strace
// prints no mark: the injected call is the last one entered before the main
// process was killed by SIGKILL.
func (t *c16Trace) fired(kill bool) (idx int, name string, elsewhere int) {
	idx = -1
	if kill {
		if t.Signal != "SIGKILL" || len(t.Calls) == 0 {
			return
		}
		last := t.Calls[len(t.Calls)-1]
		if !last.touches() {
			elsewhere = 1
			return
		}
		return len(t.touching()) - 1, last.Name, 0
	}
	i := -1
	for _, c := range t.Calls {
		if c.touches() {
			i++
		}
		if !c.Injected {
			continue
		}
		if c.touches() {
			if idx < 0 {
				idx, name = i, c.Name
			}
		} else {
			elsewhere++
		}
	}
	return
}
