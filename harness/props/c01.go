package props

import (
	"bytes"
	"encoding/json"
	"fmt"
	"os"
	"path/filepath"
	"strings"
	"time"
	"unicode/utf8"

	"github.com/pkg/errors"
	"github.com/ysugimoto/falco/v2/ast"
	"github.com/ysugimoto/falco/v2/lexer"
	"github.com/ysugimoto/falco/v2/parser"
	"github.com/ysugimoto/falco/v2/token"
	"pgregory.net/rapid"

	"verif/gen"
	"verif/iso"
)

// C01 — lexing and parsing are total; diagnostics are located in the input.

type C01Case struct {
	Src  []byte `json:"src"`
	Kind string `json:"kind"`
}

func init() {
	register("C01",
		"inputs: raw bytes | token soup over VCL+hostile dictionary | rendered grammar programs | 1-3 mutations (truncate, token delete/dup/swap/replace, splice) of programs and examples/*.vcl; each lexed to EOF and parsed by ParseVCL, ParseSnippetVCL, ParseVCLOrSnippet. non-trivial: >=3 tokens and (mutated/hostile input ending in a parse error, or a tree with >=2 statements); distinct by input bytes",
		genC01, checkC01, 10*time.Second)
	iso.DeathClassifier["C01"] = func(raw json.RawMessage, kind, stderr string) string { return "" }
}

// RepoDir is the falco tree under test.
func RepoDir() string {
	if d := os.Getenv("VERIF_REPO"); d != "" {
		return d
	}
	return "/repo"
}

var exampleSources [][]byte

func loadExamples() [][]byte {
	if exampleSources != nil {
		return exampleSources
	}
	var out [][]byte
	filepath.Walk(filepath.Join(RepoDir(), "examples"), func(path string, info os.FileInfo, err error) error {
		if err != nil || info.IsDir() || !strings.HasSuffix(path, ".vcl") {
			return nil
		}
		b, err := os.ReadFile(path)
		if err == nil && len(b) < 40000 {
			out = append(out, b)
		}
		return nil
	})
	if len(out) == 0 {
		out = append(out, []byte("sub vcl_recv { set req.http.A = \"b\"; }"))
	}
	exampleSources = out
	return out
}

var hostileDict = []string{
	"pragma", "pragma optional_param geoip_opt_in true;", "pragma x", "C!", "W!", "{\"", "{X\"", "\"X}", "\"}", "\"", "/*", "*/", "//", "#",
	"|", "&", "^", "*", "<<", ">>", "\x00", "\xff\xfe", "\xc3", "99999999999999999999999", "0x", "0x1.p", "1e", "1.2.3", "default",
	"%", "%zz", "\"%u00\"", "\"%ud800\"", "\"%u{}\"", "\"%e3%81\"", "rol", "ror=", "rol=", "synthetic.base64", "\r", "\r\n", "\n", "\t",
	"é", "日本", "case", "break;", "fallthrough;", "switch", "goto", "x:", "else", "elseif", "elsif", "if", "(", ")", "{", "}", ";", ",", ".", "/", ":", "!", "~", "!~",
}

var vclDict = []string{
	"acl", "backend", "director", "table", "sub", "penaltybox", "ratecounter", "import", "include",
	"set", "unset", "remove", "add", "call", "declare", "local", "error", "esi", "log", "restart", "return", "synthetic",
	"if", "else", "elseif", "elsif", "switch", "case", "default", "break", "fallthrough", "goto",
	"true", "false", "req.http.Foo", "var.x", "vcl_recv", "STRING", "INTEGER", "client.ip", "std.strlen", "now", "lookup", "pass",
	"=", "==", "!=", "~", "!~", ">", "<", ">=", "<=", "&&", "||", "+", "-", "!", "+=", "-=", "*=", "/=", "%=", "|=", "&=", "^=", "<<=", ">>=", "rol=", "ror=", "&&=", "||=",
	"(", ")", "{", "}", "[", "]", ";", ",", ".", "/", ":", "%",
	"\"a\"", "\"\"", "{\"x\"}", "{AB\"x\"AB}", "1", "0", "10.5", "1e3", "0xff", "0x1.8p3", "5s", "10ms", "3m", "2h", "1d", "1y",
	"# c\n", "// c\n", "/* c */", "\n", " ", "\n\n",
}

func genC01(t *rapid.T) any {
	maxLen := pick(600, 4000)
	kind := rapid.SampledFrom([]string{"raw", "soup", "soup", "program", "program", "mutated", "mutated", "mutated", "example-mutated", "example-mutated"}).Draw(t, "kind")
	var src []byte
	switch kind {
	case "raw":
		src = rapid.SliceOfN(rapid.Byte(), 0, 200).Draw(t, "bytes")
	case "soup":
		n := rapid.IntRange(0, 40).Draw(t, "n")
		var b bytes.Buffer
		for i := 0; i < n; i++ {
			if rapid.IntRange(0, 4).Draw(t, "h") == 0 {
				b.WriteString(rapid.SampledFrom(hostileDict).Draw(t, "tok"))
			} else {
				b.WriteString(rapid.SampledFrom(vclDict).Draw(t, "tok"))
			}
			if rapid.IntRange(0, 5).Draw(t, "sp") > 0 {
				b.WriteByte(' ')
			}
		}
		src = b.Bytes()
	case "program":
		g := gen.New(t, gen.Config{Profile: gen.Syntactic, MaxDecls: 4, MaxStmts: 6, MaxDepth: 3, Comments: true})
		if rapid.IntRange(0, 3).Draw(t, "snippet") == 0 {
			src = []byte(g.RenderStatements(g.Statements(0)))
			kind = "program-snippet"
		} else {
			src = []byte(g.Render(g.Program()))
		}
	case "mutated":
		g := gen.New(t, gen.Config{Profile: gen.Syntactic, MaxDecls: 3, MaxStmts: 5, MaxDepth: 3, Comments: true})
		var s string
		if rapid.IntRange(0, 3).Draw(t, "snippet") == 0 {
			s = g.RenderStatements(g.Statements(0))
		} else {
			s = g.Render(g.Program())
		}
		src = mutateSource(t, []byte(s))
	case "example-mutated":
		ex := loadExamples()
		b := ex[rapid.IntRange(0, len(ex)-1).Draw(t, "ex")]
		// take a window so that cases stay small
		if len(b) > maxLen {
			off := rapid.IntRange(0, len(b)-maxLen).Draw(t, "off")
			b = b[off : off+maxLen]
		}
		src = mutateSource(t, b)
	}
	if len(src) > 64*1024 {
		src = src[:64*1024]
	}
	return C01Case{Src: src, Kind: kind}
}

// tokenSpans splits src roughly into lexical chunks for token-level mutation.
func tokenSpans(src []byte) [][2]int {
	var spans [][2]int
	l := lexer.New(bytes.NewReader(src))
	_ = l
	// Simple splitter independent of falco: runs of identifier characters,
	// runs of spaces, or single bytes.
	i := 0
	for i < len(src) {
		j := i + 1
		c := src[i]
		isId := func(c byte) bool {
			return c == '_' || c == '.' || c == '-' || c >= '0' && c <= '9' || c >= 'a' && c <= 'z' || c >= 'A' && c <= 'Z'
		}
		switch {
		case isId(c):
			for j < len(src) && isId(src[j]) {
				j++
			}
		case c == ' ' || c == '\n' || c == '\t':
			for j < len(src) && (src[j] == ' ' || src[j] == '\n' || src[j] == '\t') {
				j++
			}
		case c == '"':
			for j < len(src) && src[j] != '"' {
				j++
			}
			if j < len(src) {
				j++
			}
		}
		spans = append(spans, [2]int{i, j})
		i = j
	}
	return spans
}

func mutateSource(t *rapid.T, src []byte) []byte {
	n := rapid.IntRange(1, 3).Draw(t, "nmut")
	for k := 0; k < n; k++ {
		spans := tokenSpans(src)
		if len(spans) == 0 {
			return append(src, []byte(rapid.SampledFrom(hostileDict).Draw(t, "h"))...)
		}
		op := rapid.SampledFrom([]string{"truncate", "truncate", "delete", "dup", "swap", "replace", "replace", "insert", "insert", "appendhostile", "samekind", "samekind"}).Draw(t, "op")
		si := rapid.IntRange(0, len(spans)-1).Draw(t, "span")
		sp := spans[si]
		var out []byte
		switch op {
		case "truncate":
			at := rapid.IntRange(0, len(src)).Draw(t, "at")
			out = append(out, src[:at]...)
		case "delete":
			out = append(append(out, src[:sp[0]]...), src[sp[1]:]...)
		case "dup":
			out = append(append(append(out, src[:sp[1]]...), src[sp[0]:sp[1]]...), src[sp[1]:]...)
		case "swap":
			sj := rapid.IntRange(0, len(spans)-1).Draw(t, "span2")
			a, b := spans[si], spans[sj]
			if a[0] > b[0] {
				a, b = b, a
			}
			if a[1] > b[0] {
				out = append(out, src...)
				break
			}
			out = append(out, src[:a[0]]...)
			out = append(out, src[b[0]:b[1]]...)
			out = append(out, src[a[1]:b[0]]...)
			out = append(out, src[a[0]:a[1]]...)
			out = append(out, src[b[1]:]...)
		case "samekind":
			// a hostile token of the same lexical kind at the same place: the surrounding syntax stays
			// valid, so the value reaches the literal parsers (numbers, escapes, times, addresses)
			kindOf := func(sp [2]int) int {
				cur := src[sp[0]:sp[1]]
				switch {
				case len(cur) > 0 && cur[0] >= '0' && cur[0] <= '9':
					return 0
				case len(cur) > 0 && (cur[0] == '"' || (cur[0] == '{' && len(cur) > 1)):
					return 1
				}
				return 2
			}
			// choose the kind first (numbers are rare among tokens), then one token of that kind
			want := rapid.IntRange(0, 2).Draw(t, "kind")
			var same [][2]int
			for _, x := range spans {
				if kindOf(x) == want {
					same = append(same, x)
				}
			}
			if len(same) > 0 {
				sp = same[rapid.IntRange(0, len(same)-1).Draw(t, "samespan")]
			}
			pool := [][]string{hostileNumbers, hostileStrings, hostileWords}[kindOf(sp)]
			tok := rapid.SampledFrom(pool).Draw(t, "samekind")
			out = append(append(append(out, src[:sp[0]]...), tok...), src[sp[1]:]...)
		case "replace":
			tok := drawHostileOrVCL(t)
			out = append(append(append(out, src[:sp[0]]...), tok...), src[sp[1]:]...)
		case "insert":
			tok := drawHostileOrVCL(t)
			out = append(append(append(append(out, src[:sp[0]]...), tok...), ' '), src[sp[0]:]...)
		case "appendhostile":
			out = append(append(out, src...), []byte(" "+rapid.SampledFrom(hostileDict).Draw(t, "h"))...)
		}
		src = out
	}
	return src
}

var hostileNumbers = []string{"99999999999999999999999", "9223372036854775808", "9223372036854775807", "0x", "0xFFFFFFFFFFFFFFFF", "0xFFFFFFFFFFFFFFFFF", "0x1.p", "0x1.8p99999", "1e", "1e999", "1.2.3", "00", "1.", "1.e5", "0x.8", "5s5", "1ms", "99999999999999999999s", "1.5.5s", "0y", "7q", "1_000", "1e-999", "0b1", "1%"}
var hostileStrings = []string{`""`, `"%"`, `"%zz"`, `"100%"`, `"%u00"`, `"%ud800"`, `"%u{}"`, `"%u{110000}"`, `"%u{1F600}"`, `"%e3%81"`, `"%00"`, `"%u0000"`, `"a%20b"`, `{""}`, `{"}"}`, `{X"x"X}`, `{X"x"Y}`, `{"%zz"}`, "\"\xff\xfe\"", `"999.999.999.999"`, `"::"`, `"1.2.3"`, `"é"`, `"\\"`, `"a` + "\n" + `b"`}
var hostileWords = []string{"rol", "ror", "default", "pragma", "C!", "W!", "if", "else", "case", "req.http.", "req.http.a:", "req.http.a:b:c", "var.", ".x", "a..b", "vcl_recv", "true", "now", "-", "!", "a-", "é", "STRING", "sub", "call", "goto", "x:", "_", "fallthrough", "break", "import", "include"}

func drawHostileOrVCL(t *rapid.T) []byte {
	if rapid.Bool().Draw(t, "hostile") {
		return []byte(rapid.SampledFrom(hostileDict).Draw(t, "h"))
	}
	return []byte(rapid.SampledFrom(vclDict).Draw(t, "v"))
}

// ---------------------------------------------------------------------------
// oracle

type srcIndex struct {
	runes     []rune
	lineStart []int // rune offset of the start of each line (1-based line -> lineStart[line-1])
	lineLen   []int // length in runes, without the newline
}

// indexSource decodes exactly like bufio.Reader.ReadRune (invalid byte -> U+FFFD, width 1).
func indexSource(src []byte) *srcIndex {
	ix := &srcIndex{}
	for i := 0; i < len(src); {
		r, w := utf8.DecodeRune(src[i:])
		ix.runes = append(ix.runes, r)
		i += w
	}
	ix.lineStart = append(ix.lineStart, 0)
	for i, r := range ix.runes {
		if r == '\n' {
			ix.lineLen = append(ix.lineLen, i-ix.lineStart[len(ix.lineStart)-1])
			ix.lineStart = append(ix.lineStart, i+1)
		}
	}
	ix.lineLen = append(ix.lineLen, len(ix.runes)-ix.lineStart[len(ix.lineStart)-1])
	return ix
}

func (ix *srcIndex) lines() int { return len(ix.lineStart) }

// at returns the runes starting at (line, col), ok=false if outside.
func (ix *srcIndex) at(line, col int) ([]rune, bool) {
	if line < 1 || line > ix.lines() || col < 1 || col > ix.lineLen[line-1]+1 {
		return nil, false
	}
	off := ix.lineStart[line-1] + col - 1
	if off > len(ix.runes) {
		return nil, false
	}
	return ix.runes[off:], true
}

func hasRunePrefix(rs []rune, lit string) bool {
	i := 0
	for _, r := range lit {
		if i >= len(rs) || rs[i] != r {
			return false
		}
		i++
	}
	return true
}

// offsetOf maps (line, col) to a rune offset; ok=false if line is outside the
// input. The offset may lie beyond the end of the line/input.
func (ix *srcIndex) offsetOf(line, col int) (int, bool) {
	if line < 1 || line > ix.lines() || col < 1 {
		return 0, false
	}
	return ix.lineStart[line-1] + col - 1, true
}

// atEndOfInput: the lexer's "one past the end" positions. Reading at EOF keeps
// incrementing the column (lexer.readChar), and a final LF is only accounted
// for when the next rune is read, so the end of input may be expressed relative
// to the last line that has content. slack = admitted overshoot in columns.
func (ix *srcIndex) atEndOfInput(line, col, slack int) bool {
	if line == ix.lines()+1 { // after the NewLine() the lexer performs at EOF
		return col >= 1 && col <= 1+slack
	}
	off, ok := ix.offsetOf(line, col)
	if !ok {
		return false
	}
	return off >= len(ix.runes) && off <= len(ix.runes)+slack
}

// checkTokenLocation validates one token against the input. pastEOF is the
// number of lexer calls made after the first EOF token (each moves the EOF
// column by one, see lexer.readChar).
func checkTokenLocation(ix *srcIndex, t token.Token, pastEOF int) string {
	if t.Type == "" {
		return fmt.Sprintf("token with empty type (literal %q line %d col %d)", t.Literal, t.Line, t.Position)
	}
	nl := ix.lines()
	if t.Type == token.EOF {
		// either the NUL rune the lexer treats as end of input, or the end itself
		if rs, ok := ix.at(t.Line, t.Position); ok && len(rs) > 0 && rs[0] == 0 {
			return ""
		}
		if ix.atEndOfInput(t.Line, t.Position, 3+pastEOF) {
			return ""
		}
		return fmt.Sprintf("EOF token at %d:%d designates neither a NUL nor the end of input (%d lines)", t.Line, t.Position, nl)
	}
	if t.Line < 1 || t.Line > nl {
		return fmt.Sprintf("token %s %q: line %d outside 1..%d", t.Type, t.Literal, t.Line, nl)
	}
	ll := ix.lineLen[t.Line-1]
	if t.Type == token.CLOSE_LONG_STRING {
		// terminated: the closing '}' ; unterminated: the NUL/end of input that ended it
		if rs, ok := ix.at(t.Line, t.Position); ok && len(rs) > 0 && (rs[0] == '}' || rs[0] == 0) {
			return ""
		}
		if ix.atEndOfInput(t.Line, t.Position, 3) {
			return ""
		}
		// unterminated: scanning stops at a quote that has fewer than len(delimiter)+1
		// characters after it (the lexer cannot look ahead for `DELIM}` there)
		if rs, ok := ix.at(t.Line, t.Position); ok && len(rs) > 0 && rs[0] == '"' && len(rs)-1 < len(t.Literal)+1 {
			return ""
		}
		return fmt.Sprintf("CLOSE_LONG_STRING at %d:%d designates neither a '}' nor the end of input", t.Line, t.Position)
	}
	if t.Position < 1 || t.Position > ll+1 {
		return fmt.Sprintf("token %s %q: column %d outside 1..%d (line %d)", t.Type, t.Literal, t.Position, ll+1, t.Line)
	}
	rs, _ := ix.at(t.Line, t.Position)
	switch t.Type {
	case token.STRING:
		if len(rs) == 0 || rs[0] != '"' {
			// the parser re-anchors long strings at their '{'
			if len(rs) > 0 && rs[0] == '{' {
				return ""
			}
			return fmt.Sprintf("STRING token at %d:%d does not designate a quote (found %q)", t.Line, t.Position, head(rs))
		}
	case token.OPEN_LONG_STRING:
		if len(rs) == 0 || rs[0] != '{' || !hasRunePrefix(rs[1:], t.Literal) {
			return fmt.Sprintf("OPEN_LONG_STRING at %d:%d does not designate '{%s' (found %q)", t.Line, t.Position, t.Literal, head(rs))
		}
	case token.PERCENT:
		// ParsePostfixExpression deliberately re-anchors the `%` token at the start
		// of its operand (`50%` is reported at the `5`): accept the operand start.
		if hasRunePrefix(rs, t.Literal) {
			return ""
		}
		i := 0
		if len(rs) > 0 && rs[0] == '{' {
			// the operand is a long string `{delim"…"delim}`: skip to its closing sequence
			q := 1
			for q < len(rs) && rs[q] != '"' {
				q++
			}
			closing := append(append([]rune{'"'}, rs[1:min(q, len(rs))]...), '}')
			i = q + 1
			for i+len(closing) <= len(rs) && string(rs[i:i+len(closing)]) != string(closing) {
				i++
			}
			i += len(closing)
			for i < len(rs) && (rs[i] == ' ' || rs[i] == '\t') {
				i++
			}
			if i < len(rs) && rs[i] == '%' {
				return ""
			}
			i = 0
		}
		if len(rs) > 0 && rs[0] == '"' {
			// the operand is a string literal (no escapes in VCL: the next quote ends it)
			i = 1
			for i < len(rs) && rs[i] != '"' {
				i++
			}
			i++
			for i < len(rs) && (rs[i] == ' ' || rs[i] == '\t') {
				i++
			}
			if i < len(rs) && rs[i] == '%' {
				return ""
			}
			i = 0
		}
		for i < len(rs) && rs[i] != '%' && rs[i] != ';' && rs[i] != '{' && rs[i] != '}' && i < 64 {
			i++
		}
		if i < len(rs) && rs[i] == '%' && i > 0 {
			return ""
		}
		return fmt.Sprintf("token PERCENT at %d:%d designates neither '%%' nor the operand it follows (found %q)", t.Line, t.Position, head(rs))
	default:
		if !hasRunePrefix(rs, t.Literal) {
			return fmt.Sprintf("token %s at %d:%d: input there is %q, not its literal %q", t.Type, t.Line, t.Position, head(rs), t.Literal)
		}
	}
	return ""
}

// percentAnchoredAtOperand: the error token carries the position of a streamed token that is
// followed by a PERCENT token before the statement ends.
func percentAnchoredAtOperand(all []token.Token, et token.Token) bool {
	// what the parser sees: comments, Fastly control words and `pragma …;` runs are skipped (parser.go ReadPeek)
	var stream []token.Token
	for i := 0; i < len(all); i++ {
		switch all[i].Type {
		case token.COMMENT, token.FASTLY_CONTROL:
			continue
		case token.PRAGMA:
			for i+1 < len(all) && all[i].Type != token.SEMICOLON && all[i].Type != token.EOF {
				i++
			}
			if all[i].Type == token.SEMICOLON {
				continue
			}
		}
		stream = append(stream, all[i])
	}
	for i, st := range stream {
		if st.Line != et.Line || st.Position != et.Position || st.Type == token.PERCENT {
			continue
		}
		for j := i + 1; j < len(stream); j++ { // the operand may be a call with any number of tokens
			if stream[j].Type == token.PERCENT {
				return true
			}
			if stream[j].Type == token.SEMICOLON || stream[j].Type == token.EOF {
				break
			}
		}
	}
	return false
}

func head(rs []rune) string {
	if len(rs) > 12 {
		rs = rs[:12]
	}
	return string(rs)
}

// fuelTokenizer wraps the lexer and aborts a parse that keeps pulling tokens
// after the end of input (deterministic loop detector, DESIGN §1.3).
type fuelTokenizer struct {
	l       *lexer.Lexer
	eofSeen bool
	past    int
	total   int
	limit   int
	tokens  []token.Token
}

type fuelExhausted struct{ past, total int }

func (f *fuelTokenizer) note(t token.Token) {
	f.total++
	// the lexer also answers EOF for a NUL byte in the middle of the input and goes on with the next call:
	// only an unbroken run of EOF answers means that the parser is asking beyond the end
	if t.Type == token.EOF {
		if f.eofSeen {
			f.past++
			if f.past > 64 {
				panic(fuelExhausted{f.past, f.total})
			}
		}
		f.eofSeen = true
	} else {
		f.eofSeen = false
		f.past = 0
	}
	if f.limit > 0 && f.total > f.limit {
		panic(fuelExhausted{f.past, f.total})
	}
}

func (f *fuelTokenizer) NextToken() token.Token {
	t := f.l.NextToken()
	f.tokens = append(f.tokens, t)
	f.note(t)
	return t
}

func (f *fuelTokenizer) PeekToken() token.Token {
	t := f.l.PeekToken()
	f.note(t)
	return t
}

func (f *fuelTokenizer) RegisterCustomTokens(m map[string]token.TokenType) {
	f.l.RegisterCustomTokens(m)
}

type parseOutcome struct {
	vcl   *ast.VCL
	stmts []ast.Statement
	err   error
	fuel  *fuelExhausted
	panic string
	tk    *fuelTokenizer
}

func runParser(src []byte, mode string) (o parseOutcome) {
	tk := &fuelTokenizer{l: lexer.New(bytes.NewReader(src)), limit: 8*len(src) + 256}
	o.tk = tk
	defer func() {
		if r := recover(); r != nil {
			if fe, ok := r.(fuelExhausted); ok {
				o.fuel = &fe
				return
			}
			o.panic = fmt.Sprintf("%v", r)
		}
	}()
	p := parser.New(tk)
	switch mode {
	case "vcl":
		o.vcl, o.err = p.ParseVCL()
	case "snippet":
		o.stmts, o.err = p.ParseSnippetVCL()
	case "auto":
		o.vcl, o.err = p.ParseVCLOrSnippet()
	}
	return o
}

// endsInsidePragma: the last non-comment keyword-ish token sequence contains a
// `pragma` that is not followed by a semicolon before EOF (feature predicate
// of finding parser.pragma-eof-spin).
func endsInsidePragma(toks []token.Token) bool {
	last := -1
	for i, t := range toks {
		if t.Type == token.PRAGMA {
			last = i
		}
	}
	if last < 0 {
		return false
	}
	for _, t := range toks[last+1:] {
		if t.Type == token.SEMICOLON {
			return false
		}
	}
	return true
}

func checkC01(raw json.RawMessage) iso.Result {
	var c C01Case
	if err := json.Unmarshal(raw, &c); err != nil {
		return iso.Failf("bad case: %v", err)
	}
	col := iso.NewCollector("C01")
	col.Label("kind:" + c.Kind)
	ix := indexSource(c.Src)
	classifyInput(col, c.Src)

	// 1. lexer totality and token locations
	l := lexer.New(bytes.NewReader(c.Src))
	limit := 2*len(c.Src) + 8
	var toks []token.Token
	terminated := false
	for i := 0; i < limit; i++ {
		t := l.NextToken()
		toks = append(toks, t)
		if t.Type == token.EOF {
			terminated = true
			break
		}
	}
	if !terminated {
		col.Failf("lexer did not reach EOF within %d NextToken calls on %d bytes", limit, len(c.Src))
	}
	for _, t := range toks {
		if msg := checkTokenLocation(ix, t, 0); msg != "" {
			key := ""
			if t.Type == "" && t.Line == 0 {
				key = "lexer.lone-operator-zero-token"
			}
			col.FailKey(key, "lexer: %s", msg)
			break
		}
	}
	tokset := map[string]bool{}
	for _, t := range toks {
		tokset[tokKey(t)] = true
	}

	// 2. parser totality, result shape, error location
	nstmts := 0
	parseErr := false
	for _, mode := range []string{"vcl", "snippet", "auto"} {
		o := runParser(c.Src, mode)
		switch {
		case o.fuel != nil:
			key := ""
			if endsInsidePragma(toks) {
				key = "parser.pragma-eof-spin"
			}
			col.FailKey(key, "parser(%s) keeps requesting tokens after the end of input (%d calls past EOF, %d total): does not terminate", mode, o.fuel.past, o.fuel.total)
			continue
		case o.panic != "":
			col.Failf("parser(%s) panicked: %s", mode, o.panic)
			continue
		}
		if o.err == nil {
			switch mode {
			case "vcl", "auto":
				if o.vcl == nil {
					col.Failf("parser(%s) returned neither tree nor error", mode)
				} else if len(o.vcl.Statements) > nstmts {
					nstmts = countStatements(o.vcl.Statements)
				}
			case "snippet":
				if n := countStatements(o.stmts); n > nstmts {
					nstmts = n
				}
			}
			continue
		}
		parseErr = true
		if (mode == "vcl" || mode == "auto") && o.vcl != nil {
			col.Failf("parser(%s) returned both a tree and an error", mode)
		}
		pe, ok := errors.Cause(o.err).(*parser.ParseError)
		if !ok {
			key := ""
			if strings.Contains(o.err.Error(), "Function name must be IDENT") {
				key = "parser.non-parseerror-call-on-nonident"
			}
			col.FailKey(key, "parser(%s) error is not a *parser.ParseError (no location): %T %v", mode, errors.Cause(o.err), o.err)
			continue
		}
		et := pe.Token
		if et.Type == token.PERCENT && percentAnchoredAtOperand(o.tk.tokens, et) {
			// ParsePostfixExpression re-anchors the `%` token at a token of its operand (`50%` is
			// reported at the `5`, `{""}%` at the string content): the position is that of a token the
			// lexer delivered (each checked by the location oracle) which a `%` follows in the same statement
			col.Label("percent-anchored-at-operand")
			continue
		}
		if msg := checkTokenLocation(ix, et, o.tk.past); msg != "" {
			key := ""
			if et.Type == "" && et.Line == 0 {
				key = "lexer.lone-operator-zero-token"
			}
			col.FailKey(key, "parser(%s) error %q: %s", mode, pe.Message, msg)
			continue
		}
		if et.Type != token.EOF {
			// the error token must be one of the tokens of the input
			streamed := false
			for _, st := range o.tk.tokens {
				if st.Type == et.Type && (st.Line == et.Line || et.Type == token.PERCENT) && st.Literal == et.Literal && (st.Position == et.Position || et.Type == token.STRING || et.Type == token.PERCENT) {
					streamed = true
					break
				}
			}
			if !streamed {
				col.Failf("parser(%s) error %q cites token %s which is not a token of the input", mode, pe.Message, et.String())
			}
		}
	}

	hostile := strings.Contains(c.Kind, "mutated") || c.Kind == "soup" || c.Kind == "raw"
	if len(toks) >= 3 && ((hostile && parseErr) || nstmts >= 2) {
		col.Res.NonTrivial = true
	}
	if parseErr {
		col.Label("outcome:parse-error")
	} else {
		col.Label("outcome:tree")
	}
	return col.Done()
}

func tokKey(t token.Token) string {
	return fmt.Sprintf("%s|%s|%d|%d", t.Type, t.Literal, t.Line, t.Position)
}

func countStatements(ss []ast.Statement) int {
	n := 0
	for _, s := range ss {
		n++
		switch v := s.(type) {
		case *ast.SubroutineDeclaration:
			if v.Block != nil {
				n += countStatements(v.Block.Statements)
			}
		case *ast.BlockStatement:
			n += countStatements(v.Statements)
		case *ast.IfStatement:
			if v.Consequence != nil {
				n += countStatements(v.Consequence.Statements)
			}
		}
	}
	return n
}

func classifyInput(col *iso.Collector, src []byte) {
	s := string(src)
	if !utf8.Valid(src) {
		col.Label("feat:invalid-utf8")
	}
	if bytes.IndexByte(src, 0) >= 0 {
		col.Label("feat:nul")
	}
	if strings.Contains(s, "pragma") {
		col.Label("feat:pragma")
	}
	if strings.Contains(s, "C!") || strings.Contains(s, "W!") {
		col.Label("feat:control")
	}
	if strings.Count(s, "\"")%2 == 1 {
		col.Label("feat:odd-quotes")
	}
	if strings.Count(s, "/*") > strings.Count(s, "*/") {
		col.Label("feat:open-block-comment")
	}
	if strings.Contains(s, "{\"") && !strings.Contains(s, "\"}") {
		col.Label("feat:open-long-string")
	}
}
