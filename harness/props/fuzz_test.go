package props

import (
	"encoding/json"
	"fmt"
	"os"
	"path/filepath"
	"testing"
	"time"

	"github.com/ysugimoto/falco/v2/ast/codec"
	"github.com/ysugimoto/falco/v2/lexer"
	"github.com/ysugimoto/falco/v2/parser"

	"verif/iso"
)

// Native coverage-guided fuzzing (thorough tier, DESIGN.md §1.5): the fuzzer supplies
// bytes, the property's own Check function is the oracle (run in-process, with a
// watchdog for hangs). A failing input is written as an ordinary replay file, so
// that `./check <ID> --replay <file>` reproduces it through the isolated worker.

func fuzzCheck(t *testing.T, id string, c any) {
	p := iso.Lookup(id)
	raw, err := json.Marshal(c)
	if err != nil {
		t.Skip()
	}
	done := make(chan iso.Result, 1)
	go func() { done <- iso.SafeCheck(p, raw) }()
	deadline := p.Deadline
	if deadline == 0 {
		deadline = 10 * time.Second
	}
	var res iso.Result
	select {
	case res = <-done:
	case <-time.After(deadline):
		res = iso.Result{Status: iso.Fail, Msg: "HANG (in-process deadline of the native fuzz target)"}
	}
	if res.Status == iso.Fail {
		dir := os.Getenv("VERIF_REPLAY_DIR")
		if dir == "" {
			dir = filepath.Join(os.TempDir(), "verif-fuzz-replay")
		}
		path, _ := iso.WriteReplay(dir, id, raw, res.Msg, "native-fuzz")
		t.Fatalf("FUZZ-VIOLATION replay=%s\n%s", path, res.Msg)
	}
}

func FuzzC01(f *testing.F) {
	for _, ex := range loadExamples() {
		if len(ex) < 6000 {
			f.Add(ex)
		}
	}
	for _, h := range hostileDict {
		f.Add([]byte(h))
		f.Add([]byte("sub vcl_recv { set req.http.A = \"b\"; " + h))
	}
	f.Fuzz(func(t *testing.T, data []byte) {
		if len(data) > 1<<16 {
			t.Skip()
		}
		fuzzCheck(t, "C01", C01Case{Src: data, Kind: "raw"})
	})
}

func FuzzC19(f *testing.F) {
	// seeds: encodings of the statements of the repository's examples, and their sources
	n := 0
	for _, ex := range loadExamples() {
		if len(ex) > 6000 {
			continue
		}
		f.Add(ex, uint8(1))
		vcl, err := parser.New(lexer.NewFromString(string(ex))).ParseVCL()
		if err != nil {
			continue
		}
		func() {
			defer func() { recover() }() // nolint:errcheck
			if b, err := codec.NewEncoder().Encodes(vcl.Statements); err == nil && len(b) > 0 && len(b) < 1<<15 && n < 40 {
				f.Add(append([]byte{}, b...), uint8(0))
				n++
			}
		}()
	}
	f.Add([]byte{}, uint8(0))
	f.Add([]byte{0x01, 0x00, 0x00}, uint8(0))
	f.Fuzz(func(t *testing.T, data []byte, sel uint8) {
		if len(data) > 1<<16 {
			t.Skip()
		}
		if sel%2 == 0 {
			fuzzCheck(t, "C19", C19Case{Mode: "decode-raw", Raw: data})
			return
		}
		fuzzCheck(t, "C19", C19Case{Mode: "roundtrip", Src: string(data), Snippet: sel%4 == 3})
	})
}

var _ = fmt.Sprintf
