package props

import (
	"bytes"
	"encoding/json"
	"fmt"
	"io"
	"os"
	"regexp"
	"sort"
	"strings"
	"time"

	"github.com/ysugimoto/falco/v2/ast"
	"github.com/ysugimoto/falco/v2/config"
	"github.com/ysugimoto/falco/v2/formatter"
	"github.com/ysugimoto/falco/v2/lexer"
	"github.com/ysugimoto/falco/v2/parser"
	"github.com/ysugimoto/falco/v2/token"
	"pgregory.net/rapid"

	"verif/canon"
	"verif/gen"
	"verif/iso"
)

// Shared machinery of C03 (meaning preserved), C14 (idempotent), C15 (comments kept).

type FmtConf struct {
	IndentWidth                int    `json:"iw"`
	TrailingCommentWidth       int    `json:"tcw"`
	IndentStyle                string `json:"is"`
	LineWidth                  int    `json:"lw"`
	ExplicitStringConcat       bool   `json:"esc"`
	SortDeclarationProperty    bool   `json:"sdp"`
	AlignDeclarationProperty   bool   `json:"adp"`
	ElseIf                     bool   `json:"ei"`
	AlwaysNextLineElseIf       bool   `json:"anl"`
	ReturnStatementParenthesis bool   `json:"rsp"`
	SortDeclaration            bool   `json:"sd"`
	AlignTrailingComment       bool   `json:"atc"`
	CommentStyle               string `json:"cs"`
	ShouldUseUnset             bool   `json:"suu"`
	IndentCaseLabels           bool   `json:"icl"`
	BreakCompoundConditions    bool   `json:"bcc"`
}

func (c FmtConf) toFalco() *config.FormatConfig {
	return &config.FormatConfig{
		IndentWidth: c.IndentWidth, TrailingCommentWidth: c.TrailingCommentWidth, IndentStyle: c.IndentStyle, LineWidth: c.LineWidth,
		ExplicitStringConcat: c.ExplicitStringConcat, SortDeclarationProperty: c.SortDeclarationProperty,
		AlignDeclarationProperty: c.AlignDeclarationProperty, ElseIf: c.ElseIf, AlwaysNextLineElseIf: c.AlwaysNextLineElseIf,
		ReturnStatementParenthesis: c.ReturnStatementParenthesis, SortDeclaration: c.SortDeclaration,
		AlignTrailingComment: c.AlignTrailingComment, CommentStyle: c.CommentStyle, ShouldUseUnset: c.ShouldUseUnset,
		IndentCaseLabels: c.IndentCaseLabels, BreakCompoundConditions: c.BreakCompoundConditions,
	}
}

func defaultFmtConf() FmtConf {
	return FmtConf{IndentWidth: 2, TrailingCommentWidth: 1, IndentStyle: "space", LineWidth: 120, ExplicitStringConcat: true,
		ReturnStatementParenthesis: true, CommentStyle: "none", BreakCompoundConditions: true}
}

func genFmtConf(t *rapid.T) FmtConf {
	if rapid.IntRange(0, 5).Draw(t, "default-conf") == 0 {
		return defaultFmtConf()
	}
	b := func(l string) bool { return rapid.Bool().Draw(t, l) }
	return FmtConf{
		IndentWidth:          rapid.IntRange(1, 8).Draw(t, "iw"),
		TrailingCommentWidth: rapid.IntRange(1, 4).Draw(t, "tcw"),
		IndentStyle:          rapid.SampledFrom([]string{"space", "tab"}).Draw(t, "is"),
		LineWidth:            rapid.SampledFrom([]int{120, -1, 1, 8, 20, 40, 80, 200}).Draw(t, "lw"),
		ExplicitStringConcat: b("esc"), SortDeclarationProperty: b("sdp"), AlignDeclarationProperty: b("adp"), ElseIf: b("ei"),
		AlwaysNextLineElseIf: b("anl"), ReturnStatementParenthesis: b("rsp"), SortDeclaration: b("sd"), AlignTrailingComment: b("atc"),
		CommentStyle:   rapid.SampledFrom([]string{"none", "sharp", "slash"}).Draw(t, "cs"),
		ShouldUseUnset: b("suu"), IndentCaseLabels: b("icl"), BreakCompoundConditions: b("bcc"),
	}
}

type FmtComment struct {
	Text string `json:"text"`
	Ctx  string `json:"ctx"`
	Slot int    `json:"slot"`
	// Alone: the only comment at its placeholder
	Alone bool `json:"alone,omitempty"`
}

type FmtCase struct {
	Src      string       `json:"src"`
	Conf     FmtConf      `json:"conf"`
	Kind     string       `json:"kind"` // "generated" | "example"
	Comments []FmtComment `json:"comments,omitempty"`
}

// avoid weights for known formatter findings: the listed generator features
// are switched off in most cases so that the rest of the space is checked in
// full (DESIGN §1.7).
func fmtAvoid(t *rapid.T) map[string]bool {
	av := map[string]bool{}
	for _, f := range fmtAvoidList {
		if rapid.IntRange(0, 9).Draw(t, "avoid-"+f) > 0 {
			av[f] = true
		}
	}
	if os.Getenv("VERIF_NOAVOID") == "1" { // development aid (survey of known-finding triggers): avoid nothing
		av = map[string]bool{}
	}
	// development aid: VERIF_AVOID forces features off completely
	for _, f := range strings.Split(os.Getenv("VERIF_AVOID"), ",") {
		if f != "" {
			av[f] = true
		}
	}
	return av
}

// features that trigger known formatter findings (kept at ~10% of cases)
var fmtAvoidList = []string{"newline-in-string", "inline-line-comments"}

func genFmtCase(t *rapid.T, slots func(gen.Tok) bool) FmtCase {
	c := FmtCase{Conf: genFmtConf(t)}
	if rapid.IntRange(0, 19).Draw(t, "example") == 0 {
		ex := loadExamples()
		c.Kind = "example"
		c.Src = string(ex[rapid.IntRange(0, len(ex)-1).Draw(t, "ex")])
		return c
	}
	c.Kind = "generated"
	av := fmtAvoid(t)
	if av["slash-style"] && c.Conf.CommentStyle == "slash" {
		c.Conf.CommentStyle = "sharp"
	}
	md, ms, mx := pick(3, 4), pick(4, 6), pick(3, 5)
	if os.Getenv("VERIF_SMALL") == "1" {
		md, ms, mx = 1, 2, 2
	}
	g := gen.New(t, gen.Config{Profile: gen.Syntactic, MaxDecls: md, MaxStmts: ms, MaxDepth: mx, Comments: !av["comments"],
		CommentSlots: slots, Avoid: av, NoInlineLineComments: av["inline-line-comments"], SpecialComments: slots != nil})
	p := g.Program()
	r := g.Layout(gen.Tokens(p.Decls))
	c.Src = r.Src
	for _, pc := range r.Comments {
		c.Comments = append(c.Comments, FmtComment{Text: pc.Text, Ctx: pc.Ctx, Slot: int(pc.Slot), Alone: pc.Alone})
	}
	return c
}

type fmtRun struct {
	vcl   *ast.VCL
	out   string
	panic string
	nilRd bool
}

func parseVCL(src string) (*ast.VCL, error) {
	return parser.New(lexer.NewFromString(src)).ParseVCL()
}

func runFormat(vcl *ast.VCL, conf FmtConf) (r fmtRun) {
	defer func() {
		if e := recover(); e != nil {
			r.panic = fmt.Sprintf("%v", e)
		}
	}()
	rd := formatter.New(conf.toFalco()).Format(vcl)
	if rd == nil {
		r.nilRd = true
		return
	}
	b, _ := io.ReadAll(rd)
	r.out = string(b)
	return
}

func confLabels(col *iso.Collector, c FmtConf) {
	add := func(b bool, l string) {
		if b {
			col.Label("opt:" + l)
		}
	}
	add(c.ExplicitStringConcat, "esc")
	add(c.SortDeclarationProperty, "sdp")
	add(c.AlignDeclarationProperty, "adp")
	add(c.ElseIf, "ei")
	add(c.AlwaysNextLineElseIf, "anl")
	add(c.ReturnStatementParenthesis, "rsp")
	add(c.SortDeclaration, "sd")
	add(c.AlignTrailingComment, "atc")
	add(c.ShouldUseUnset, "suu")
	add(c.IndentCaseLabels, "icl")
	add(c.BreakCompoundConditions, "bcc")
	col.Label("cs:"+c.CommentStyle, fmt.Sprintf("lw:%d", c.LineWidth))
}

// normalizedDump implements the documented rewrites as a normal form.
func normalizedDump(v *ast.VCL, conf FmtConf) (string, error) {
	m := canon.Mode{Explicit: false, RemoveAsUnset: conf.ShouldUseUnset, SortProps: conf.SortDeclarationProperty, DropGroups: true}
	if !conf.SortDeclaration {
		return canon.VCL(v, m)
	}
	var ds []string
	for _, s := range v.Statements {
		d, err := canon.Statement(s, m)
		if err != nil {
			return "", err
		}
		ds = append(ds, d)
	}
	sort.Strings(ds)
	return "(vcl-multiset " + strings.Join(ds, " ") + ")", nil
}

// ---------------------------------------------------------------------------
// C03

func init() {
	register("C03",
		"grammar-derived declaration files rendered with comments at arbitrary positions, plus examples/**/*.vcl, each with a drawn formatter configuration (indent 1-8, space/tab, line width in {-1,1,8,20,40,80,120,200}, 11 booleans, 3 comment styles); oracle: Format does not panic, output parses, normalize(canon(parse(out))) == normalize(canon(parse(src))) where normalize implements only the documented rewrites. non-trivial: output differs from source beyond trailing whitespace and the program has a sub with >=3 statements or a declaration with >=2 properties; distinct by (source, config)",
		func(t *rapid.T) any { return genFmtCase(t, nil) }, checkC03, 10*time.Second)
	register("C14",
		"same domain as C03; oracle: Format(parse(Format(parse(src)))) == Format(parse(src)) byte for byte, same configuration. non-trivial: first output differs from the source and involves a comment, blank-line group, wrapped line or an alignment option; distinct by (source, config)",
		func(t *rapid.T) any { return genFmtCase(t, gen.DocumentedSlots) }, checkC14, 10*time.Second)
	register("C15",
		"grammar-derived declaration files with #, // and /* */ comments placed only at the placeholders docs/parser.md documents (each comment carries a serial number), plus examples; oracle: sequence (multiset when a sort option is on) of COMMENT tokens of the output equals that of the input after the configured marker conversion. non-trivial: >=2 comments at distinct placeholder kinds, >=1 inline; distinct by (source, config)",
		func(t *rapid.T) any { return genFmtCase(t, gen.DocumentedSlots) }, checkC15, 10*time.Second)
}

func loadFmtCase(raw json.RawMessage) (FmtCase, error) {
	var c FmtCase
	err := json.Unmarshal(raw, &c)
	return c, err
}

func bigProgram(v *ast.VCL) bool {
	for _, s := range v.Statements {
		switch d := s.(type) {
		case *ast.SubroutineDeclaration:
			if d.Block != nil && len(d.Block.Statements) >= 3 {
				return true
			}
		case *ast.BackendDeclaration:
			if len(d.Properties) >= 2 {
				return true
			}
		case *ast.DirectorDeclaration:
			if len(d.Properties) >= 2 {
				return true
			}
		case *ast.TableDeclaration:
			if len(d.Properties) >= 2 {
				return true
			}
		case *ast.AclDeclaration:
			if len(d.CIDRs) >= 2 {
				return true
			}
		}
	}
	return false
}

func trimTrailingWS(s string) string {
	ls := strings.Split(s, "\n")
	for i := range ls {
		ls[i] = strings.TrimRight(ls[i], " \t\r")
	}
	return strings.TrimRight(strings.Join(ls, "\n"), "\n")
}

func checkC03(raw json.RawMessage) iso.Result {
	c, err := loadFmtCase(raw)
	if err != nil {
		return iso.Failf("bad case: %v", err)
	}
	col := iso.NewCollector("C03")
	col.Label("kind:" + c.Kind)
	confLabels(col, c.Conf)
	v, err := parseVCL(c.Src)
	if err != nil {
		if c.Kind == "example" {
			return iso.Result{Status: iso.Skip}
		}
		col.Failf("generator produced an unparseable program (harness bug or C02 defect): %v\n%s", err, c.Src)
		return col.Done()
	}
	want, werr := normalizedDump(v, c.Conf)
	if werr != nil {
		col.Failf("canonical dump of source failed: %v", werr)
		return col.Done()
	}
	feats := fmtFeatures(c.Src, v)
	feats.inlineLineComment = hasInlineLineComment(c)
	if feats.inlineLineComment {
		col.Label("feat:inline-line-comment")
		feats.healedByBlockComments = func() bool {
			return lineCommentFindingApplies(c, func(src string) bool { return c03Holds(src, c.Conf) })
		}
	}
	r := runFormat(v, c.Conf)
	switch {
	case r.panic != "":
		col.FailKey(fmtKey(feats, "panic", r.panic), "Format panicked: %s\n--- source ---\n%s", r.panic, c.Src)
		return col.Done()
	case r.nilRd:
		col.Failf("Format returned no text for a declaration file\n--- source ---\n%s", c.Src)
		return col.Done()
	}
	v2, err := parseVCL(r.out)
	if err != nil {
		col.FailKey(fmtKey(feats, "unparseable", err.Error()), "formatted text does not parse: %v\n--- config ---\n%+v\n--- source ---\n%s\n--- formatted ---\n%s", err, c.Conf, c.Src, r.out)
		return col.Done()
	}
	got, gerr := normalizedDump(v2, c.Conf)
	if gerr != nil {
		col.Failf("canonical dump of formatted text failed: %v", gerr)
		return col.Done()
	}
	if got != want {
		feats.want, feats.got = want, got
		col.FailKey(fmtKey(feats, "diff", firstDiff(want, got)), "formatting changed the program\n first difference:\n  want …%s\n   got …%s\n--- config ---\n%+v\n--- source ---\n%s\n--- formatted ---\n%s", diffCtx(want, got, true), diffCtx(want, got, false), c.Conf, c.Src, r.out)
	}
	if trimTrailingWS(r.out) != trimTrailingWS(c.Src) && bigProgram(v) {
		col.Res.NonTrivial = true
	}
	for _, l := range strings.Split(r.out, "\n") {
		if c.Conf.LineWidth > 0 && len(l) > c.Conf.LineWidth {
			col.Label("overlong-line")
			break
		}
	}
	return col.Done()
}

func firstDiffIndex(a, b string) int {
	i := 0
	for i < len(a) && i < len(b) && a[i] == b[i] {
		i++
	}
	return i
}

func diffCtx(want, got string, w bool) string {
	i := firstDiffIndex(want, got)
	s := got
	if w {
		s = want
	}
	lo := i - 80
	if lo < 0 {
		lo = 0
	}
	hi := i + 120
	if hi > len(s) {
		hi = len(s)
	}
	return s[lo:hi]
}

func firstDiff(want, got string) string {
	return diffCtx(want, got, true) + " <> " + diffCtx(want, got, false)
}

// fmtFeatures extracts the feature predicates used by the known-finding classifiers.
type fmtFeat struct {
	src       string
	v         *ast.VCL
	want, got string
	// a `#`/`//` comment sits at a placeholder inside a statement or declaration header
	inlineLineComment bool
	// healedByBlockComments re-runs the check on the variant of the case in which those comments are block comments
	healedByBlockComments func() bool
}

// lineCommentSafeCtx: placeholders at which the formatter of the tree the finding was recorded on handles a
// `#`/`//` comment correctly (it prints the `else` keyword on a new line): a failure of a case whose inline
// line comments all sit there is not covered by the known finding fmt.line-comment-at-inline-placeholder.
var _ = gen.LineCommentSafeCtx // see gen.LineCommentSafe (placeholder and "only comment there")

// lineCommentFindingApplies: the known finding explains a failure of the case when (a) the same case with the
// inline `#`/`//` comments written as block comments holds (causal test), and (b) at least one of those
// comments sits at a placeholder that is not known to be handled correctly.
func lineCommentFindingApplies(c FmtCase, holds func(src string) bool) bool {
	unsafe := false
	for _, pc := range c.Comments {
		if isInlineLineComment(pc) && !gen.LineCommentSafe(pc.Ctx, pc.Alone) {
			unsafe = true
		}
	}
	if !unsafe {
		return false
	}
	all, ok := inlineLineCommentsAsBlocks(c, -1)
	return ok && holds(all)
}

// hasUnsafeInlineLineComment: some `#`/`//` comment sits at an inline placeholder that is not known to be handled correctly.
func hasUnsafeInlineLineComment(c FmtCase) bool {
	for _, pc := range c.Comments {
		if isInlineLineComment(pc) && !gen.LineCommentSafe(pc.Ctx, pc.Alone) {
			return true
		}
	}
	return false
}

// c14Holds: formatting twice gives the same text, or what differs is attributed to another known root cause.
func c14Holds(src string, conf FmtConf) bool {
	v, err := parseVCL(src)
	if err != nil {
		return false
	}
	r1 := runFormat(v, conf)
	if r1.panic != "" || r1.nilRd {
		return false
	}
	v2, err := parseVCL(r1.out)
	if err != nil {
		return false
	}
	r2 := runFormat(v2, conf)
	if r2.panic != "" || r2.nilRd {
		return false
	}
	return r1.out == r2.out || idemKey(FmtCase{Src: src, Conf: conf}, r1.out, r2.out) != ""
}

func isInlineLineComment(pc FmtComment) bool {
	k := gen.SlotKind(pc.Slot)
	return (strings.HasPrefix(pc.Text, "#") || strings.HasPrefix(pc.Text, "//")) && (k == gen.SNone || k == gen.SExpr || k == gen.SInfix)
}

// inlineLineCommentsAsBlocks rewrites the `#`/`//` comments at inline placeholders as block comments,
// except the one with index keep (-1: none is kept).
func inlineLineCommentsAsBlocks(c FmtCase, keep int) (string, bool) {
	// the comments are listed in source order: walk the text with a cursor so that equal comment texts
	// (the special comments are drawn from a small pool) are told apart
	var b strings.Builder
	cur := 0
	for i, pc := range c.Comments {
		at := strings.Index(c.Src[cur:], pc.Text)
		if at < 0 {
			return "", false
		}
		at += cur
		end := at + len(pc.Text)
		if !isInlineLineComment(pc) || i == keep {
			b.WriteString(c.Src[cur:end])
			cur = end
			continue
		}
		body := strings.TrimLeft(pc.Text, "#/")
		if strings.Contains(body, "*/") || !strings.HasPrefix(c.Src[end:], "\n") {
			return "", false
		}
		b.WriteString(c.Src[cur:at])
		b.WriteString("/*" + body + " */")
		cur = end
	}
	b.WriteString(c.Src[cur:])
	return b.String(), true
}

// c03Holds: the C03 oracle on one source: formats, parses again, same normal form — or the failure
// that remains is attributed to another known root cause by its own classifier.
func c03Holds(src string, conf FmtConf) bool {
	v, err := parseVCL(src)
	if err != nil {
		return false
	}
	want, werr := normalizedDump(v, conf)
	if werr != nil {
		return false
	}
	r := runFormat(v, conf)
	if r.panic != "" || r.nilRd {
		return false
	}
	v2, err := parseVCL(r.out)
	if err != nil {
		return false
	}
	got, gerr := normalizedDump(v2, conf)
	if gerr != nil {
		return false
	}
	if got == want {
		return true
	}
	return fmtKey(fmtFeat{src: src, v: v, want: want, got: got}, "diff", "") != ""
}

func hasInlineLineComment(c FmtCase) bool {
	for _, pc := range c.Comments {
		k := gen.SlotKind(pc.Slot)
		if (strings.HasPrefix(pc.Text, "#") || strings.HasPrefix(pc.Text, "//")) && (k == gen.SNone || k == gen.SExpr || k == gen.SInfix) {
			return true
		}
	}
	return false
}

func fmtFeatures(src string, v *ast.VCL) fmtFeat { return fmtFeat{src: src, v: v} }

var reStrIndent = regexp.MustCompile(`(?:\\t| )*\\n(?:\\t| )*`)

// condHasMultilineString: some if/else-if condition contains a string literal with a newline.
func condHasMultilineString(ss []ast.Statement) bool {
	found := false
	var walk func(ss []ast.Statement)
	cond := func(e ast.Expression) {
		if d, err := canon.Expression(e, canon.Mode{}); err == nil && strings.Contains(d, `\n`) {
			found = true
		}
	}
	walk = func(ss []ast.Statement) {
		for _, s := range ss {
			switch v := s.(type) {
			case *ast.SubroutineDeclaration:
				walk(v.Block.Statements)
			case *ast.BlockStatement:
				walk(v.Statements)
			case *ast.IfStatement:
				cond(v.Condition)
				walk(v.Consequence.Statements)
				for _, a := range v.Another {
					cond(a.Condition)
					walk(a.Consequence.Statements)
				}
				if v.Alternative != nil {
					walk(v.Alternative.Consequence.Statements)
				}
			case *ast.SwitchStatement:
				for _, c := range v.Cases {
					walk(c.Statements)
				}
			}
		}
	}
	walk(ss)
	return found
}

// fmtKey: classifier of known formatter findings = feature predicate on the
// input ∧ signature predicate on the failure.
func fmtKey(f fmtFeat, sig, detail string) string {
	if (sig == "diff" || sig == "unparseable") && f.inlineLineComment && f.healedByBlockComments != nil && f.healedByBlockComments() {
		// causal test: with the inline `#`/`//` comments written as `/* */` comments the same program
		// formats correctly, so the line comments at inline placeholders are what breaks it
		return "fmt.line-comment-at-inline-placeholder"
	}
	if sig == "diff" && f.want != "" && condHasMultilineString(f.v.Statements) {
		// the only difference is white space next to newlines inside string literals
		if reStrIndent.ReplaceAllString(f.want, `\n`) == reStrIndent.ReplaceAllString(f.got, `\n`) {
			return "fmt.multiline-string-in-condition-reindented"
		}
	}
	return ""
}

// ---------------------------------------------------------------------------
// C14

func checkC14(raw json.RawMessage) iso.Result {
	c, err := loadFmtCase(raw)
	if err != nil {
		return iso.Failf("bad case: %v", err)
	}
	col := iso.NewCollector("C14")
	col.Label("kind:" + c.Kind)
	confLabels(col, c.Conf)
	v, err := parseVCL(c.Src)
	if err != nil {
		return iso.Result{Status: iso.Skip}
	}
	r1 := runFormat(v, c.Conf)
	if r1.panic != "" || r1.nilRd {
		return iso.Result{Status: iso.Skip, Labels: []string{"skip:format-failed(C03)"}}
	}
	v2, err := parseVCL(r1.out)
	if err != nil {
		return iso.Result{Status: iso.Skip, Labels: []string{"skip:output-unparseable(C03)"}}
	}
	r2 := runFormat(v2, c.Conf)
	if r2.panic != "" || r2.nilRd {
		col.FailKey(idemKey(c, r1.out, ""), "second formatting pass failed: panic=%q nil=%v\n--- first output ---\n%s", r2.panic, r2.nilRd, r1.out)
		return col.Done()
	}
	if r1.out != r2.out {
		col.FailKey(idemKey(c, r1.out, r2.out), "formatting is not idempotent\n%s\n--- config ---\n%+v\n--- source ---\n%s\n--- first output ---\n%s\n--- second output ---\n%s", lineDiff(r1.out, r2.out), c.Conf, c.Src, r1.out, r2.out)
	}
	if r1.out != c.Src {
		involved := strings.Contains(c.Src, "#") || strings.Contains(c.Src, "//") || strings.Contains(c.Src, "/*") ||
			strings.Contains(c.Src, "\n\n") || c.Conf.AlignTrailingComment || c.Conf.AlignDeclarationProperty
		for _, l := range strings.Split(r1.out, "\n") {
			if c.Conf.LineWidth > 0 && len(l) > c.Conf.LineWidth/2 {
				involved = true
			}
		}
		if involved {
			col.Res.NonTrivial = true
		}
	}
	return col.Done()
}

var reWS = regexp.MustCompile(`[ \t]+`)

func squeezeWS(s string) string {
	ls := strings.Split(s, "\n")
	var out []string
	for _, l := range ls {
		l = noWS(l)
		if l != "" {
			out = append(out, l)
		}
	}
	return strings.Join(out, "\n")
}

func sortedLines(s string) string {
	ls := strings.Split(squeezeWS(s), "\n")
	sort.Strings(ls)
	return strings.Join(ls, "\n")
}

// idemKey: classifier of known idempotence findings = feature predicate on the
// case ∧ signature predicate on the pair of outputs.
func idemKey(c FmtCase, out1, out2 string) string {
	if hasInlineLineComment(c) && lineCommentFindingApplies(c, func(src string) bool { return c14Holds(src, c.Conf) }) {
		return "fmt.line-comment-at-inline-placeholder"
	}
	if out2 == "" {
		return ""
	}
	broad := idemKeyBySignature(c, out1, out2)
	if broad == "" {
		return ""
	}
	// (1) the difference sits where the finding says it does
	if k := idemKeyPositional(c, out1, out2); k == idemNotKnown {
		return ""
	} else if k != "" {
		return k
	}
	// (2) knock-on differences (a re-indented token moves the line breaks behind it): the finding is taken to
	// be the cause only if the same program without the three unstable features formats stably
	if h, ok := withoutUnstableFeatures(c); ok {
		if _, err := parseVCL(h.Src); err == nil && !c14Holds(h.Src, h.Conf) {
			return ""
		}
	}
	return broad
}

// idemKeyBySignature: feature predicate on the case ∧ signature predicate on the pair of outputs
// (necessary for every attribution; idemKey narrows it further).
func idemKeyBySignature(c FmtCase, out1, out2 string) string {
	multiline := hasMultilineToken(c.Src)
	if noWS(out1) == noWS(out2) {
		// only white space (indentation, padding, line breaks, empty lines) differs
		switch {
		case multiline:
			return "fmt.multiline-token-reindented"
		case c.Conf.SortDeclarationProperty:
			return "fmt.sorted-property-groups-unstable"
		case c.Conf.AlignTrailingComment || c.Conf.AlignDeclarationProperty:
			return "fmt.alignment-padding-unstable"
		}
		return ""
	}
	if c.Conf.SortDeclarationProperty && sortedLines(out1) == sortedLines(out2) {
		// only the order of lines (and white space) differs
		return "fmt.sorted-property-groups-unstable"
	}
	if c.Conf.SortDeclarationProperty && sortedWords(out1) == sortedWords(out2) {
		// entries that span lines (comments between key and value) moved: the same words in another order
		return "fmt.sorted-property-groups-unstable"
	}
	return ""
}

var reBlankColon = regexp.MustCompile(`[ \t]+:`)

func sortedWords(s string) string {
	ws := strings.Fields(reBlankColon.ReplaceAllString(s, ":")) // (alignment padding in front of a table colon)
	sort.Strings(ws)
	return strings.Join(ws, " ")
}

func noWS(s string) string {
	return strings.Map(func(r rune) rune {
		if r == ' ' || r == '\t' || r == '\n' || r == '\r' {
			return -1
		}
		return r
	}, s)
}

// hasMultilineToken: a string literal or block comment of the source spans lines.
func hasMultilineToken(src string) bool {
	l := lexer.New(bytes.NewReader([]byte(src)))
	for i := 0; i < 2*len(src)+8; i++ {
		t := l.NextToken()
		if t.Type == token.EOF {
			return false
		}
		if (t.Type == token.STRING || t.Type == token.COMMENT) && strings.Contains(t.Literal, "\n") {
			return true
		}
	}
	return false
}

func lineDiff(a, b string) string {
	la, lb := strings.Split(a, "\n"), strings.Split(b, "\n")
	for i := 0; i < len(la) || i < len(lb); i++ {
		var x, y string
		if i < len(la) {
			x = la[i]
		}
		if i < len(lb) {
			y = lb[i]
		}
		if x != y {
			return fmt.Sprintf(" first differing line %d:\n  pass1: %q\n  pass2: %q", i+1, x, y)
		}
	}
	return ""
}

// ---------------------------------------------------------------------------
// C15

func commentTokens(src string) []string {
	l := lexer.New(bytes.NewReader([]byte(src)))
	var out []string
	for i := 0; i < 2*len(src)+8; i++ {
		t := l.NextToken()
		if t.Type == token.EOF {
			break
		}
		if t.Type == token.COMMENT {
			out = append(out, t.Literal)
		}
	}
	return out
}

// convertMarker applies the documented comment_style conversion: the leading
// run of '#' or '/' of a line comment is rewritten character by character;
// block comments are untouched.
func convertMarker(c, style string) string {
	if style != "sharp" && style != "slash" {
		return c
	}
	if strings.HasPrefix(c, "/*") || strings.HasPrefix(c, "#FASTLY") {
		return c // block comments and #FASTLY macros are never rewritten
	}
	body := strings.TrimLeft(c, "#/")
	// the marker itself is compared only as "is a line comment"
	return "<line>" + body
}

func normComment(c, style string) string {
	c = strings.TrimRight(c, " \t\r")
	return convertMarker(c, style)
}

func checkC15(raw json.RawMessage) iso.Result {
	c, err := loadFmtCase(raw)
	if err != nil {
		return iso.Failf("bad case: %v", err)
	}
	col := iso.NewCollector("C15")
	col.Label("kind:" + c.Kind)
	confLabels(col, c.Conf)
	v, err := parseVCL(c.Src)
	if err != nil {
		return iso.Result{Status: iso.Skip}
	}
	r := runFormat(v, c.Conf)
	if r.panic != "" || r.nilRd {
		return iso.Result{Status: iso.Skip, Labels: []string{"skip:format-failed(C03)"}}
	}
	in := commentTokens(c.Src)
	out := commentTokens(r.out)
	var nin, nout []string
	for _, x := range in {
		nin = append(nin, normComment(x, c.Conf.CommentStyle))
	}
	for _, x := range out {
		nout = append(nout, normComment(x, c.Conf.CommentStyle))
	}
	ctxOf := map[string]string{}
	kinds := map[string]bool{}
	inline := false
	for _, pc := range c.Comments {
		ctxOf[normComment(pc.Text, c.Conf.CommentStyle)] = pc.Ctx
		col.Label("slot:" + pc.Ctx)
		kinds[pc.Ctx] = true
		if gen.SlotKind(pc.Slot) == gen.SInfix {
			inline = true
		}
	}
	sorted := c.Conf.SortDeclaration || c.Conf.SortDeclarationProperty
	// multiset comparison
	cnt := map[string]int{}
	for _, x := range nin {
		cnt[x]++
	}
	for _, x := range nout {
		cnt[x]--
	}
	var lost, dup []string
	for k, n := range cnt {
		if n > 0 {
			lost = append(lost, fmt.Sprintf("%q (placeholder %s)", k, ctxOf[k]))
		} else if n < 0 {
			dup = append(dup, fmt.Sprintf("%q (placeholder %s)", k, ctxOf[k]))
		}
	}
	sort.Strings(lost)
	sort.Strings(dup)
	if len(lost) > 0 || len(dup) > 0 {
		key := ""
		switch {
		case hasUnsafeInlineLineComment(c):
			key = "fmt.line-comment-at-inline-placeholder"
		default:
			// multi-line block comments whose continuation lines were re-indented:
			// every lost comment spans lines and reappears with only white space changed
			a, b := map[string]int{}, map[string]int{}
			ok := true
			for k, n := range cnt {
				if n > 0 {
					a[noWS(k)] += n
					if !strings.Contains(k, "\n") {
						ok = false
					}
				} else if n < 0 {
					b[noWS(k)] -= n
				}
			}
			if ok && len(a) == len(b) {
				for k, n := range a {
					if b[k] != n {
						ok = false
					}
				}
				if ok {
					key = "fmt.multiline-token-reindented"
				}
			}
		}
		col.FailKey(key, "formatting lost or duplicated comments\n lost: %v\n duplicated/invented: %v\n--- config ---\n%+v\n--- source ---\n%s\n--- formatted ---\n%s", lost, dup, c.Conf, c.Src, r.out)
	} else if !sorted {
		for i := range nin {
			if nin[i] != nout[i] {
				okey := ""
				if hasUnsafeInlineLineComment(c) {
					okey = "fmt.line-comment-at-inline-placeholder"
				}
				col.FailKey(okey, "formatting reordered comments: position %d is %q (placeholder %s), was %q (placeholder %s)\n--- config ---\n%+v\n--- source ---\n%s\n--- formatted ---\n%s", i, nout[i], ctxOf[nout[i]], nin[i], ctxOf[nin[i]], c.Conf, c.Src, r.out)
				break
			}
		}
	}
	if len(kinds) >= 2 && inline {
		col.Res.NonTrivial = true
	}
	for _, x := range in {
		switch {
		case strings.HasPrefix(x, "#FASTLY"):
			col.Label("special:fastly-macro")
		case strings.Contains(x, "falco-ignore"):
			col.Label("special:falco-ignore")
		case strings.Contains(x, "@scope") || strings.Contains(x, "@suite"):
			col.Label("special:annotation")
		}
	}
	return col.Done()
}
