package props

import (
	"bytes"
	"encoding/json"
	"fmt"
	"io"
	"net/http"
	"os"
	"strconv"
	"sync"
	"time"

	"github.com/ysugimoto/falco/v2/snippet"
	"github.com/ysugimoto/falco/v2/snippet/remote"
)

// ---------------------------------------------------------------------------
// (iii) the real Fastly API layer: remote.NewFastlyApiFetcher -> FastlyClient
// -> JSON entities -> conversion to snippet.* (snippet/remote/{client,entity,
// fetcher}.go). The fetcher is hard-wired to http.DefaultClient and to
// https://api.fastly.com, so the worker installs a fake http.RoundTripper on
// http.DefaultClient.Transport for the duration of the case. It answers by URL
// path with JSON documents in the shape of the Fastly API, built from the case.
//
// Endpoints served (svc = case.Service, N = the active version):
//   /service/svc/version/active                    {"number": N, "active": true, ...}
//   /service/svc/version/N/dictionary              [{"id","name","write_only",...}]
//   /service/svc/dictionary/<id>/items             [{"item_key","item_value",...}]   (403 for a write-only dictionary)
//   /service/svc/version/N/acl                     [{"id","name",...}]
//   /service/svc/acl/<id>/entries                  [{"ip","subnet": null|number,"negated":"0"|"1","comment",...}]
//   /service/svc/version/N/backend                 [{"name","address": string|null,"shield": string|null,...}]
//   /service/svc/version/N/director                [{"name","type","backends":[names],"retries","quorum",...}]
//   /service/svc/version/N/snippet                 [{"id","name","dynamic":"0"|"1","type","priority":"100","content": string|null}]
//   /service/svc/snippet/<id>                      {"snippet_id","content",...}      (dynamic snippets only)
//   /service/svc/version/N/condition               [{"name","type","statement","priority":"10",...}]
//   /service/svc/version/N/header                  [{"name","type","action","dst","src","regex","substitution","ignore_if_set":"0"|"1","priority":"10","request_condition": string|null,...}]
//   /service/svc/version/N/response_object         [{"name","status":"200","response","content_type","content": string|null,"request_condition","cache_condition"}]
//   /service/svc/version/N/request_settings        [] | [{"force_ssl":"0"|"1",...}]
//   /service/svc/version/N/logging/<type>          [] ; s3: [{"name":"s3-endpoint"}]
// Anything else (another version, another service, an id that was not handed
// out, a method other than GET, a missing Fastly-Key) is answered with an error
// status and recorded: falco asking for it is reported as a failure.

type c20Route struct {
	status int
	body   []byte
}

type c20API struct {
	host   string
	key    string
	routes map[string]c20Route

	mu       sync.Mutex
	hits     map[string]int
	protocol []string // requests that a read-only client of this service must not make
}

func (a *c20API) RoundTrip(r *http.Request) (*http.Response, error) {
	respond := func(status int, body []byte) (*http.Response, error) {
		return &http.Response{
			Status:        fmt.Sprintf("%d %s", status, http.StatusText(status)),
			StatusCode:    status,
			Proto:         "HTTP/1.1",
			ProtoMajor:    1,
			ProtoMinor:    1,
			Header:        http.Header{"Content-Type": {"application/json"}},
			Body:          io.NopCloser(bytes.NewReader(body)),
			ContentLength: int64(len(body)),
			Request:       r,
		}, nil
	}
	complain := func(format string, args ...any) {
		a.mu.Lock()
		if len(a.protocol) < 8 {
			a.protocol = append(a.protocol, fmt.Sprintf(format, args...))
		}
		a.mu.Unlock()
	}
	if r.Body != nil {
		r.Body.Close()
	}
	switch {
	case r.URL.Scheme != "https" || r.URL.Host != a.host:
		complain("request to %s://%s%s, not to https://%s", r.URL.Scheme, r.URL.Host, r.URL.Path, a.host)
		return respond(http.StatusBadGateway, []byte(`{"msg":"wrong host"}`))
	case r.Method != http.MethodGet:
		complain("%s %s: falco must only read (GET)", r.Method, r.URL.Path)
		return respond(http.StatusMethodNotAllowed, []byte(`{"msg":"Method Not Allowed"}`))
	case r.Header.Get("Fastly-Key") != a.key:
		complain("GET %s with Fastly-Key %q, want %q", r.URL.Path, r.Header.Get("Fastly-Key"), a.key)
		return respond(http.StatusUnauthorized, []byte(`{"msg":"Provided credentials are missing or invalid"}`))
	}
	rt, ok := a.routes[r.URL.Path]
	a.mu.Lock()
	a.hits[r.URL.Path]++
	a.mu.Unlock()
	if !ok {
		complain("GET %s: no such endpoint for this service and its active version", r.URL.Path)
		return respond(http.StatusNotFound, []byte(`{"msg":"Record not found","detail":"Cannot find the requested resource"}`))
	}
	return respond(rt.status, rt.body)
}

func c20JSON(v any) []byte {
	var buf bytes.Buffer
	enc := json.NewEncoder(&buf)
	enc.SetEscapeHTML(false)
	if err := enc.Encode(v); err != nil {
		panic("harness: cannot encode API document: " + err.Error())
	}
	return buf.Bytes()
}

const (
	c20APIKey    = "key"
	c20Timestamp = "2024-10-09T15:45:11Z"
)

var c20LoggingTypes = []string{"bigquery", "cloudfiles", "datadog", "digitalocean", "elasticsearch", "ftp", "gcs", "pubsub", "https", "heroku",
	"honeycomb", "kafka", "kinesis", "logshuttle", "loggly", "azureblob", "newrelic", "newrelicotlp", "openstack", "papertrail", "s3", "sftp",
	"scalyr", "splunk", "sumologic", "syslog"}

func (c *C20Case) apiVersion() int {
	if c.Layout.Version > 0 {
		return c.Layout.Version
	}
	return 1
}

// c20APIRoutes renders the case as the documents of the Fastly API.
func c20APIRoutes(c *C20Case) *c20API {
	svc := c.Service
	ver := c.apiVersion()
	a := &c20API{host: "api.fastly.com", key: c20APIKey, routes: map[string]c20Route{}, hits: map[string]int{}}
	ok := func(path string, doc any) { a.routes[path] = c20Route{status: http.StatusOK, body: c20JSON(doc)} }
	sp := "/service/" + svc
	vp := fmt.Sprintf("%s/version/%d", sp, ver)
	// fields every versioned object carries; the API spells the version as a
	// number in some listings and as a string in others
	meta := func(i int, m map[string]any) map[string]any {
		m["service_id"] = svc
		if i%2 == 0 {
			m["version"] = ver
		} else {
			m["version"] = strconv.Itoa(ver)
		}
		m["created_at"], m["updated_at"], m["deleted_at"] = c20Timestamp, c20Timestamp, nil
		return m
	}
	list := func() []any { return []any{} }
	flag := func(b bool) string {
		if b {
			return "1"
		}
		return "0"
	}

	ok(sp+"/version/active", map[string]any{"number": ver, "active": true, "deployed": true, "locked": true, "staging": false, "testing": false,
		"comment": "", "service_id": svc, "created_at": c20Timestamp, "updated_at": c20Timestamp, "deleted_at": nil})

	// edge dictionaries and their items
	dicts := list()
	for i, d := range c.Dicts {
		id := fmt.Sprintf("%dDiCt7nOAY7aNDGOL", i)
		dicts = append(dicts, meta(i, map[string]any{"id": id, "name": d.Name, "write_only": d.WriteOnly}))
		if d.WriteOnly {
			// the items of a private dictionary cannot be listed
			a.routes[sp+"/dictionary/"+id+"/items"] = c20Route{status: http.StatusForbidden, body: []byte(`{"msg":"Write-only dictionary","detail":"Cannot list items of a write-only dictionary"}`)}
			continue
		}
		items := list()
		for _, it := range d.Items {
			items = append(items, map[string]any{"dictionary_id": id, "service_id": svc, "item_key": it.K, "item_value": it.V,
				"created_at": c20Timestamp, "updated_at": c20Timestamp, "deleted_at": nil})
		}
		ok(sp+"/dictionary/"+id+"/items", items)
	}
	ok(vp+"/dictionary", dicts)

	// ACLs and their entries
	acls := list()
	for i, ac := range c.Acls {
		id := fmt.Sprintf("%dAcL4wxiP8DeVCVdYDfo", i)
		acls = append(acls, meta(i, map[string]any{"id": id, "name": ac.Name}))
		entries := list()
		for j, e := range ac.Entries {
			m := map[string]any{"id": fmt.Sprintf("%dEnT8eb7p9absKKcaADIp", j), "acl_id": id, "service_id": svc, "ip": e.IP,
				"negated": flag(e.Neg), "comment": e.Comment, "created_at": c20Timestamp, "updated_at": c20Timestamp}
			switch {
			case e.Subnet != nil:
				m["subnet"] = *e.Subnet // a JSON number, 0 included
			case e.NullSubnet:
				m["subnet"] = nil
			default:
				// key left out
			}
			entries = append(entries, m)
		}
		ok(sp+"/acl/"+id+"/entries", entries)
	}
	ok(vp+"/acl", acls)

	// backends
	backends := list()
	for i, b := range c.Backends {
		m := meta(i, map[string]any{"name": b.Name, "port": 443, "use_ssl": true, "weight": 100, "comment": "", "override_host": nil,
			"request_condition": "", "auto_loadbalance": false, "connect_timeout": 1000, "first_byte_timeout": 15000, "between_bytes_timeout": 10000})
		switch {
		case b.Address != nil:
			m["address"] = *b.Address
			m["hostname"] = *b.Address
		case i%2 == 0:
			m["address"] = nil
		}
		switch {
		case b.Shield != nil:
			m["shield"] = *b.Shield
		case i%2 == 0:
			m["shield"] = nil
		}
		backends = append(backends, m)
	}
	ok(vp+"/backend", backends)

	// directors
	directors := list()
	for i, d := range c.Directors {
		directors = append(directors, meta(i, map[string]any{"name": d.Name, "type": d.Type, "backends": append([]string{}, d.Backends...),
			"retries": d.Retries, "quorum": d.Quorum, "capacity": 100, "comment": "", "shield": nil}))
	}
	ok(vp+"/director", directors)

	// VCL snippets; the content of a dynamic snippet is not versioned and has
	// its own endpoint
	snips := list()
	for i, s := range c.Snips {
		id := fmt.Sprintf("%dSnIp0isxPaozGVKXdv0", i)
		m := meta(i, map[string]any{"id": id, "name": s.Name, "type": s.Type, "priority": strconv.Itoa(s.Priority), "dynamic": flag(s.Dynamic)})
		if s.Dynamic {
			m["content"] = nil
			ok(sp+"/snippet/"+id, map[string]any{"service_id": svc, "snippet_id": id, "content": s.Content, "created_at": c20Timestamp, "updated_at": c20Timestamp})
		} else {
			m["content"] = s.Content
		}
		snips = append(snips, m)
	}
	ok(vp+"/snippet", snips)

	// conditions, header rules, response objects, request settings
	conds := list()
	for i, cd := range c.Conds {
		conds = append(conds, meta(i, map[string]any{"name": cd.Name, "type": cd.Type, "statement": cd.Statement, "priority": strconv.Itoa(cd.Priority), "comment": ""}))
	}
	ok(vp+"/condition", conds)

	headers := list()
	for i, h := range c.Headers {
		m := meta(i, map[string]any{"name": h.Name, "type": h.Type, "action": h.Action, "dst": h.Dest, "src": h.Source, "regex": h.Regex,
			"substitution": h.Subst, "ignore_if_set": flag(h.IgnoreIfSet), "priority": strconv.Itoa(h.Priority),
			"request_condition": nil, "cache_condition": nil, "response_condition": nil})
		if h.Cond != "" {
			m[h.Type+"_condition"] = h.Cond
		}
		headers = append(headers, m)
	}
	ok(vp+"/header", headers)

	resps := list()
	for i, r := range c.Resps {
		m := meta(i, map[string]any{"name": r.Name, "status": strconv.Itoa(r.Status), "response": r.Response, "content_type": r.ContentType,
			"content": r.Content, "request_condition": r.ReqCond, "cache_condition": r.CacheCond})
		if r.Content == "" && i%2 == 1 {
			m["content"] = nil
		}
		resps = append(resps, m)
	}
	ok(vp+"/response_object", resps)

	reqs := list()
	if c.Layout.ForceSSL > 0 {
		reqs = append(reqs, meta(0, map[string]any{"name": "Generated by force TLS and enable HSTS", "force_ssl": flag(c.Layout.ForceSSL == 2),
			"xff": "append", "action": nil, "default_host": nil, "hash_keys": nil, "max_stale_age": nil, "request_condition": ""}))
	}
	ok(vp+"/request_settings", reqs)

	for _, typ := range c20LoggingTypes {
		eps := list()
		if typ == "s3" {
			eps = append(eps, meta(0, map[string]any{"name": "s3-endpoint", "bucket_name": "logs", "format_version": "2", "placement": nil}))
		}
		ok(vp+"/logging/"+typ, eps)
	}
	return a
}

// c20APIExpect is the resource set that the API path can know: the items of a
// write-only dictionary are not readable, its table is declared empty.
func c20APIExpect(c *C20Case) *C20Case {
	cc := *c
	cc.Dicts = append([]C20Dict{}, c.Dicts...)
	for i := range cc.Dicts {
		if cc.Dicts[i].WriteOnly {
			cc.Dicts[i].Items = nil
		}
	}
	return &cc
}

// c20RunAPI reads the case through falco's Fastly API layer the way
// cmd/falco NewRunner does and applies the oracle of the other two paths.
func c20RunAPI(c *C20Case) (fails []c20Fail) {
	exp := c20APIExpect(c)
	v := &c20Verifier{c: exp, path: "api"}
	api := c20APIRoutes(c)

	prev := http.DefaultClient.Transport
	http.DefaultClient.Transport = api
	var cacheDir string
	prevCache, hadCache := os.LookupEnv("XDG_CACHE_HOME")
	defer func() {
		if r := recover(); r != nil {
			v.failf("other", "", "fetch", "PANIC while generating VCL (api path): %v", r)
		}
		http.DefaultClient.Transport = prev
		if cacheDir != "" {
			if hadCache {
				os.Setenv("XDG_CACHE_HOME", prevCache)
			} else {
				os.Unsetenv("XDG_CACHE_HOME")
			}
			os.RemoveAll(cacheDir)
		}
		api.mu.Lock()
		for _, p := range api.protocol {
			v.failf("other", "", "fetch", "api path: %s", p)
		}
		api.mu.Unlock()
		fails = v.fails
	}()

	if c.Layout.Cache {
		wd := os.Getenv("VERIF_WORKDIR")
		if wd == "" {
			wd = os.TempDir()
		}
		dir, err := os.MkdirTemp(wd, "c20cache")
		if err != nil {
			v.failf("other", "", "fetch", "harness: cannot create cache directory: %v", err)
			return
		}
		cacheDir = dir
		os.Setenv("XDG_CACHE_HOME", dir)
	}

	f := remote.NewFastlyApiFetcher(c.Service, c20APIKey, 5*time.Second)
	if c.Layout.Cache {
		if s := f.LookupCache(false); s != nil {
			v.failf("other", "", "fetch", "api path: LookupCache returns snippets from an empty cache directory")
			return
		}
	}
	s, err := snippet.Fetch(f)
	if err != nil {
		v.failf("other", "", "fetch", "api path: snippet.Fetch failed: %v", err)
		return
	}
	if err := s.FetchLoggingEndpoint(f); err != nil {
		v.failf("other", "", "fetch", "api path: FetchLoggingEndpoint failed: %v", err)
		return
	}
	if c.Layout.Cache {
		// second run of falco: a new fetcher finds the snippets of the first run
		f.WriteCache(s)
		f2 := remote.NewFastlyApiFetcher(c.Service, c20APIKey, 5*time.Second)
		cached := f2.LookupCache(false)
		if cached == nil {
			v.failf("other", "", "fetch", "api path: the snippets written by WriteCache are not found by LookupCache of the next run")
			return
		}
		v.path = "api-cache"
		if items, err := cached.EmbedSnippets(c.Layout.TLS); err != nil {
			v.failf("other", "", "fetch", "api path: EmbedSnippets failed on the cached snippets: %v", err)
		} else {
			v.verifyEmbedded(items)
			v.verifyScoped(cached)
		}
		v.path = "api"
		if f2.LookupCache(true) != nil {
			v.failf("other", "", "fetch", "api path: LookupCache(refresh) still returns the cached snippets")
		}
	}
	items, err := s.EmbedSnippets(c.Layout.TLS)
	if err != nil {
		v.failf("other", "", "fetch", "api path: EmbedSnippets failed: %v", err)
		return
	}
	v.verifyEmbedded(items)
	v.verifyScoped(s)

	return
}
