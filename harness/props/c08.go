package props

import (
	"bytes"
	"encoding/json"
	"fmt"
	"net/http"
	"net/http/httptest"
	"net/url"
	"os"
	"path/filepath"
	"sort"
	"strings"
	"sync"
	"time"

	"github.com/pkg/errors"
	"github.com/ysugimoto/falco/v2/ast"
	"github.com/ysugimoto/falco/v2/interpreter"
	icontext "github.com/ysugimoto/falco/v2/interpreter/context"
	ihttp "github.com/ysugimoto/falco/v2/interpreter/http"
	"github.com/ysugimoto/falco/v2/resolver"
	"gopkg.in/yaml.v3"
	"pgregory.net/rapid"

	"verif/iso"
)

// C08 — simulation is total and bounded.

type C08Req struct {
	Method  string      `json:"method"`
	Path    string      `json:"path"`
	Query   string      `json:"query"`
	Headers [][2]string `json:"headers"`
}

type C08Case struct {
	Kind    string            `json:"kind"` // arith | builtin | lifecycle | include | testsub
	Scope   string            `json:"scope,omitempty"`
	Src     string            `json:"src,omitempty"`     // statements (arith, builtin, testsub)
	VCL     string            `json:"vcl,omitempty"`     // lifecycle / include: subs and declarations (backend added by the worker)
	Reqs    []C08Req          `json:"reqs,omitempty"`    // lifecycle
	Modules map[string]string `json:"modules,omitempty"` // include graph
	Fn      string            `json:"fn,omitempty"`
	Feat    []string          `json:"feat,omitempty"`
}

func init() {
	register("C08",
		"programs from the core generator with range restrictions removed (all 15 assignment operators x boundary operands 0, +-1, +-2^63, 2^31, 63, 64, -1, huge/tiny floats, division/remainder by zero, negative/oversized shift and rotate counts, cross-type operands, empty and not-set strings), every built-in of builtin.yml called with boundary arguments of its declared types in a scope it allows (STRING arguments also from two grammars with error productions: key=value field lists with unclosed/lone/empty quotes, percent-encoded text with truncated escapes), header sub-field reads/writes over such field lists, lifecycle VCLs with unconditional restart / return(restart) / error / self- and mutual recursion in every sub (the cycle entered directly or through a subroutine outside it whose name sorts before / after its members), self- and mutually-including modules, requests with arbitrary method/path/query/headers (1-3 per simulator), reads of every predefined variable of predefined.yml in the scopes the table allows (and in others), and the same statements through ProcessTestSubroutine (the test runner's entry) in every scope; oracle: the call returns a response or a reported error within the deadline, no panic / fatal error / worker death, vcl_recv entered <= 4 times and restarts <= 3 per request. non-trivial: executes an arithmetic edge case, a built-in with a boundary argument, a recursion, a restart or an include cycle; distinct by case",
		genC08, checkC08, 20*time.Second)
	iso.DeathClassifier["C08"] = func(raw json.RawMessage, kind, stderr string) string {
		var c C08Case
		if json.Unmarshal(raw, &c) != nil {
			return ""
		}
		return c08DeathKey(c, kind, stderr)
	}
}

// ---------------------------------------------------------------------------
// generator

type builtinSpec struct {
	On        []string   `yaml:"on"`
	Arguments [][]string `yaml:"arguments"`
	Return    string     `yaml:"return"`
}

var builtinTable map[string]builtinSpec
var builtinNames []string

func loadBuiltins() {
	if builtinTable != nil {
		return
	}
	b, err := os.ReadFile(filepath.Join(RepoDir(), "__generator__", "builtin.yml"))
	if err != nil {
		panic(err)
	}
	builtinTable = map[string]builtinSpec{}
	if err := yaml.Unmarshal(b, &builtinTable); err != nil {
		panic(err)
	}
	for k := range builtinTable {
		builtinNames = append(builtinNames, k)
	}
	sort.Strings(builtinNames)
}

var edgeInts = []string{"0", "1", "-1", "2", "63", "64", "65", "-64", "2147483648", "-2147483648", "9223372036854775807", "-9223372036854775808", "-9223372036854775807", "255", "1000000",
	// values whose scaling to nanoseconds / milliseconds wraps around int64
	"36028797018963968", "4611686018427387904", "9223372037", "9223372036", "18446744073", "-9223372037", "9223372036854775"}
var edgeFloats = []string{"0.0", "1.0", "-1.0", "0.5", "0.000001", "1e308", "-1e308", "1e-300", "123456789012345680000.0", "0.9", "-0.5", "1.7976931348623157e308"}
var edgeRTimes = []string{"0s", "1s", "1ms", "9999999999s", "100000000h", "1y", "0ms", "-1s", "-9999999999s"}
var edgeStrings = []string{`""`, `"a"`, `"abc"`, `"0"`, `"-1"`, `"1e309"`, `"!!!"`, `"%zz"`, `"("`, `"[a-"`, `"a,b;c=d"`, `"99999999999999999999999"`, `{"line1
line2"}`, `"` + "\xff\xfe" + `"`, `"BIGSTR"`, `req.http.Never-Set`, `"aGVsbG8="`, `"68656c6c6f"`, `"{\"a\":1}"`, `"/path?x=1&y=2"`, `"Mon, 02 Jan 2006 15:04:05 GMT"`, `"127.0.0.1"`, `"%00"`, `" "`, `"é日本"`, `"true"`}
var edgeIDs = []string{"tbl", "tbl_int", "acl_x", "b", "rc", "pb", "nope", "aes128", "aes256", "cbc", "ctr", "gcm", "nopad", "pkcs7", "sha1", "sha256", "sha512", "md5", "url", "url_nopad", "standard", "rsa", "hs256", "default", "xyz", "F_b"}
var edgeIPs = []string{`"127.0.0.1"`, `"::1"`, "client.ip", `"999.1.1.1"`, `"0.0.0.0"`, "server.ip", `"255.255.255.255"`}
var edgeTimes = []string{"now", "std.integer2time(0)", "std.integer2time(-1)", "std.integer2time(9223372036854775807)", "std.integer2time(253402300800)", "now.sec", "time.start"}

// kvHostile: a header-like list of key[=value] fields from a grammar with error productions (unclosed,
// lone and empty quotes, missing values, doubled separators), keys from {a, b, lang}.
func kvHostile(t *rapid.T) string {
	sep := rapid.SampledFrom([]string{", ", ",", "; ", ";", "&", " "}).Draw(t, "kvsep")
	n := rapid.IntRange(1, 3).Draw(t, "kvn")
	var fs []string
	for i := 0; i < n; i++ {
		k := rapid.SampledFrom([]string{"a", "b", "lang", "A", ""}).Draw(t, "kvkey")
		v := rapid.SampledFrom([]string{"=1", "=x y", "=\"q\"", "=\"q r\"", "=\"", "=\" x", "=\"\"", "=\"a\\\"b\"", "=", "", "==", "=\"x\"y", "= \"", "=\"\"\"", "='"}).Draw(t, "kvval")
		fs = append(fs, k+v)
	}
	return strings.Join(fs, sep) + rapid.SampledFrom([]string{"", "", " ", ",", ";"}).Draw(t, "kvtail")
}

// urlHostile: percent-encoded text with truncated and malformed escapes.
func urlHostile(t *rapid.T) string {
	n := rapid.IntRange(1, 4).Draw(t, "urln")
	var b strings.Builder
	for i := 0; i < n; i++ {
		b.WriteString(rapid.SampledFrom([]string{"a", "x=1", "%41", "%4", "%", "%zz", "%u0041", "%u00", "+", "&", "=", "?", "#", "/", "%00", "%2", "100%", "%%", "%e3%81", "é"}).Draw(t, "urlpiece"))
	}
	return b.String()
}

func drawArg(t *rapid.T, typ string) string {
	if typ == "STRING" {
		switch rapid.IntRange(0, 9).Draw(t, "structured") {
		case 0:
			return vclString(kvHostile(t))
		case 1:
			return vclString(urlHostile(t))
		case 2:
			return rapid.SampledFrom([]string{`"a"`, `"b"`, `"lang"`, `","`, `";"`, `"&"`}).Draw(t, "kvarg")
		}
	}
	pick := func(xs []string) string { return rapid.SampledFrom(xs).Draw(t, "arg") }
	switch typ {
	case "STRING":
		return pick(edgeStrings)
	case "INTEGER":
		return pick(edgeInts)
	case "FLOAT":
		return pick(edgeFloats)
	case "RTIME":
		return pick(edgeRTimes)
	case "TIME":
		return pick(edgeTimes)
	case "IP":
		return pick(edgeIPs)
	case "BOOL":
		return pick([]string{"true", "false"})
	case "BACKEND":
		return pick([]string{"b", "req.backend", "nope"})
	case "TABLE":
		return pick([]string{"tbl", "tbl_int", "nope"})
	case "ACL":
		return pick([]string{"acl_x", "nope"})
	case "ID":
		return pick(edgeIDs)
	case "STRING_LIST":
		n := rapid.IntRange(0, 3).Draw(t, "nlist")
		var xs []string
		for i := 0; i < n; i++ {
			xs = append(xs, pick(edgeStrings))
		}
		return strings.Join(xs, ", ")
	}
	return pick(edgeStrings)
}

const c08Prelude = `declare local var.i1 INTEGER; declare local var.i2 INTEGER; declare local var.f1 FLOAT; declare local var.f2 FLOAT;
declare local var.s1 STRING; declare local var.s2 STRING; declare local var.b1 BOOL; declare local var.r1 RTIME; declare local var.r2 RTIME;
declare local var.t1 TIME; declare local var.ip1 IP; declare local var.be BACKEND;
set var.i1 = 7; set var.i2 = -3; set var.f1 = 1.5; set var.f2 = 0.25; set var.s1 = "abc"; set var.r1 = 5s; set var.r2 = 2m; set var.ip1 = "10.0.0.1";
`

const c08Decls = `
acl acl_x { "10.0.0.0"/8; !"10.1.0.0"/16; "::1"; }
table tbl { "a": "1", "b": "", }
table tbl_int INTEGER { "a": 1, }
ratecounter rc { }
penaltybox pb { }
`

var allAssignOps = []string{"=", "+=", "-=", "*=", "/=", "%=", "|=", "&=", "^=", "<<=", ">>=", "rol=", "ror=", "&&=", "||="}
var c08Targets = map[string]string{"var.i1": "INTEGER", "var.i2": "INTEGER", "var.f1": "FLOAT", "var.f2": "FLOAT", "var.s1": "STRING", "var.s2": "STRING",
	"var.b1": "BOOL", "var.r1": "RTIME", "var.r2": "RTIME", "var.t1": "TIME", "var.ip1": "IP", "req.http.X": "STRING", "req.http.Never-Set": "STRING"}

var c08ScopeVars = map[string][]string{}

// c08VarsIn: the readable predefined variables predefined.yml allows in a scope.
func c08VarsIn(scope string) []string {
	c05Load()
	if v, ok := c08ScopeVars[scope]; ok {
		return v
	}
	var out []string
	for _, n := range c05VarNames {
		if sp := c05Vars[n]; sp.Get != "" && c05On(sp.On, scope) {
			out = append(out, n)
		}
	}
	c08ScopeVars[scope] = out
	return out
}

func genArithStmts(t *rapid.T, n int, scope string, varReadOneIn int) (string, []string) {
	var b strings.Builder
	feat := map[string]bool{}
	names := make([]string, 0, len(c08Targets))
	for k := range c08Targets {
		names = append(names, k)
	}
	sort.Strings(names)
	for i := 0; i < n; i++ {
		if rapid.IntRange(1, varReadOneIn).Draw(t, "varread") == 1 {
			// read of a predefined variable of predefined.yml into a local of its type: three times out of four
			// one the table allows in the scope the case runs in, else any (an out-of-scope read has to end in
			// a reported error)
			c05Load()
			names := c05VarNames
			if in := c08VarsIn(scope); len(in) > 0 && rapid.IntRange(0, 3).Draw(t, "inscope") > 0 {
				names = in
			}
			name := rapid.SampledFrom(names).Draw(t, "pvar")
			spec := c05Vars[name]
			tgt := map[string]string{"STRING": "var.s2", "INTEGER": "var.i2", "FLOAT": "var.f2", "BOOL": "var.b1", "RTIME": "var.r2", "TIME": "var.t1", "IP": "var.ip1", "BACKEND": "var.be"}[spec.Get]
			if tgt != "" {
				inst := c05Instantiate(name)
				if strings.HasPrefix(inst, "director.d.") {
					inst = strings.Replace(inst, "director.d.", "director.dir_r.", 1)
				}
				fmt.Fprintf(&b, "set %s = %s;\n", tgt, inst)
				feat["predefined-variable-read"] = true
				continue
			}
		}
		if rapid.IntRange(0, 11).Draw(t, "subfield") == 0 {
			// header sub-field read / write over a header holding a malformed field list
			h := rapid.SampledFrom([]string{"req.http.X", "req.http.Cookie", "req.http.K"}).Draw(t, "sfhdr")
			k := rapid.SampledFrom([]string{"a", "b", "lang", "A"}).Draw(t, "sfkey")
			fmt.Fprintf(&b, "set %s = %s;\n", h, vclString(kvHostile(t)))
			switch rapid.IntRange(0, 3).Draw(t, "sfop") {
			case 0:
				fmt.Fprintf(&b, "set %s:%s = %s;\n", h, k, drawArg(t, "STRING"))
			case 1:
				fmt.Fprintf(&b, "unset %s:%s;\n", h, k)
			default:
				fmt.Fprintf(&b, "set var.s2 = %s:%s;\n", h, k)
			}
			feat["header-subfield-malformed"] = true
			continue
		}
		if rapid.IntRange(0, 6).Draw(t, "concat") == 0 {
			// string concatenation of 2-3 operands of any type, each optionally sign-prefixed
			k := rapid.IntRange(2, 3).Draw(t, "noperands")
			var ops []string
			for j := 0; j < k; j++ {
				var o string
				if rapid.Bool().Draw(t, "opvar") {
					o = rapid.SampledFrom(names).Draw(t, "opname")
				} else {
					o = drawArg(t, rapid.SampledFrom([]string{"STRING", "STRING", "INTEGER", "FLOAT", "RTIME", "TIME", "BOOL", "IP"}).Draw(t, "optype"))
				}
				switch rapid.IntRange(0, 5).Draw(t, "sign") {
				case 0:
					o = "-" + o
				case 1:
					o = "+" + o
				}
				ops = append(ops, o)
			}
			sep := rapid.SampledFrom([]string{" ", " + "}).Draw(t, "catsep")
			fmt.Fprintf(&b, "set %s = %s;\n", rapid.SampledFrom([]string{"var.s1", "req.http.X-Cat", "var.s2"}).Draw(t, "cattarget"), strings.Join(ops, sep))
			feat["concat"] = true
			continue
		}
		tgt := rapid.SampledFrom(names).Draw(t, "target")
		op := rapid.SampledFrom(allAssignOps).Draw(t, "op")
		vt := c08Targets[tgt]
		if rapid.IntRange(0, 3).Draw(t, "crosstype") == 0 {
			vt = rapid.SampledFrom([]string{"INTEGER", "FLOAT", "STRING", "RTIME", "BOOL", "IP", "TIME"}).Draw(t, "vtype")
		}
		var val string
		if rapid.IntRange(0, 3).Draw(t, "usevar") == 0 {
			val = rapid.SampledFrom(names).Draw(t, "valvar")
		} else {
			val = drawArg(t, vt)
		}
		if tt := c08Targets[tgt]; (tt == "RTIME" || tt == "TIME") && rapid.IntRange(0, 4).Draw(t, "wrapint") == 0 {
			// an INTEGER operand whose scaling to nano- or milliseconds wraps around int64 (to 0, to the other sign)
			val = rapid.SampledFrom([]string{"36028797018963968", "4611686018427387904", "-9223372036854775808", "9223372037", "9223372036", "18446744073", "-9223372037", "9223372036854775", "72057594037927936", "9223372036854775807"}).Draw(t, "wrapval")
		}
		if rapid.IntRange(0, 9).Draw(t, "neg") == 0 {
			val = "-" + val
		}
		fmt.Fprintf(&b, "set %s %s %s;\n", tgt, op, val)
		feat["op:"+c08Targets[tgt]+op] = true
	}
	var fs []string
	for k := range feat {
		fs = append(fs, k)
	}
	sort.Strings(fs)
	return b.String(), fs
}

var lifecycleSubs = []string{"vcl_recv", "vcl_hash", "vcl_hit", "vcl_miss", "vcl_pass", "vcl_fetch", "vcl_error", "vcl_deliver", "vcl_log"}
var lifecycleActions = []string{"lookup", "pass", "error", "restart", "hash", "deliver", "fetch", "deliver_stale", "hit_for_pass", "upgrade", "bogus"}

func genLifecycleStmt(t *rapid.T) string {
	switch rapid.IntRange(0, 16).Draw(t, "lstmt") {
	case 16:
		return rapid.SampledFrom([]string{`set req.backend = req.backend;`, `set req.backend = dir_r;`, `set req.backend = dir_r; return(pass);`, `set req.backend = nope;`,
			`set req.http.Y = fn_synth("a");`, `call sub_synth;`, `set req.backend = b; return(pass);`, `unset req.backend;`, `set req.http.Y = req.backend;`,
			`set req.http.Y = beresp.backend.name;`, `set bereq.http.Y = "1";`, `set req.hash += "x";`, `synthetic.base64 "!!!";`, `set req.url = "";`, `set req.http.Host = "";`}).Draw(t, "backendish")
	case 14:
		// calls of subroutines with parameters: fitting, too few, too many, wrong type, unknown
		return rapid.SampledFrom([]string{`call greet("x");`, `call greet();`, `call greet(10);`, `call greet("a", "b");`, `call add2(1, 2);`, `call add2(1);`,
			`call add2("a", 2);`, `call add2(1, 2, 3);`, `call rec_a(1);`, `call no_such_sub;`, `call no_such_sub(1);`, `call greet(req.http.Never-Set);`}).Draw(t, "paramcall")
	case 15:
		return rapid.SampledFrom([]string{`set req.http.Y = fn_two("a", 1);`, `set req.http.Y = fn_two("a");`, `set req.http.Y = fn_two(1, "a");`, `set req.http.Y = fn_two();`,
			`set req.http.Y = greet("x");`, `set req.http.Y = no_such_fn(1);`}).Draw(t, "fncall")
	case 0:
		return "restart;"
	case 1:
		return "return(restart);"
	case 2:
		return "return(" + rapid.SampledFrom(lifecycleActions).Draw(t, "action") + ");"
	case 3:
		return fmt.Sprintf("error %d;", rapid.SampledFrom([]int{601, 700, 200, 404, 503, 999, 0}).Draw(t, "code"))
	case 4:
		return "error 702 \"msg\";"
	case 5:
		// the cycle entered directly or through a subroutine outside it (whose name sorts before / after its members)
		return rapid.SampledFrom([]string{"call rec_a;", "call rec_a;", "call aa_into_cycle;", "call zz_into_cycle;"}).Draw(t, "cycle-entry")
	case 6:
		return "call rec_self;"
	case 7:
		return fmt.Sprintf("if (req.restarts < %d) { restart; }", rapid.IntRange(0, 6).Draw(t, "rn"))
	case 8:
		return fmt.Sprintf("if (req.restarts < %d) { return(restart); }", rapid.IntRange(0, 6).Draw(t, "rn"))
	case 9:
		return "set req.http.X-Seen = req.http.X-Seen \"1\";"
	case 10:
		return "esi;"
	case 11:
		return "synthetic \"body\";"
	case 12:
		return "set req.http.Y = fn_rec(3);"
	default:
		return "log \"x\";"
	}
}

func genC08(t *rapid.T) any {
	loadBuiltins()
	kind := rapid.SampledFrom([]string{"arith", "arith", "builtin", "builtin", "builtin", "lifecycle", "lifecycle", "include", "testsub"}).Draw(t, "kind")
	if k := os.Getenv("VERIF_C08_KIND"); k != "" {
		kind = k
	}
	c := C08Case{Kind: kind}
	switch kind {
	case "arith", "testsub":
		c.Scope = rapid.SampledFrom(allScopeNames).Draw(t, "scope")
		c.Src, c.Feat = genArithStmts(t, rapid.IntRange(1, pick(12, 30)).Draw(t, "n"), c.Scope, map[string]int{"arith": 8, "testsub": 2}[kind])
	case "builtin":
		name := rapid.SampledFrom(builtinNames).Draw(t, "fn")
		spec := builtinTable[name]
		c.Fn = name
		scopes := []string{}
		for _, s := range spec.On {
			if _, ok := scopeByName[strings.ToLower(s)]; ok {
				scopes = append(scopes, strings.ToLower(s))
			}
		}
		if len(scopes) == 0 {
			scopes = []string{"recv"}
		}
		c.Scope = rapid.SampledFrom(scopes).Draw(t, "scope")
		var sig []string
		if len(spec.Arguments) > 0 {
			sig = spec.Arguments[rapid.IntRange(0, len(spec.Arguments)-1).Draw(t, "sig")]
		}
		var args []string
		for _, ty := range sig {
			a := drawArg(t, ty)
			if ty == "STRING" && (strings.Contains(name, "url") || strings.Contains(name, "querystring")) && rapid.Bool().Draw(t, "urlish") {
				a = vclString(urlHostile(t))
			}
			if ty == "STRING" && strings.Contains(name, "subfield") && rapid.Bool().Draw(t, "kvish") {
				a = vclString(kvHostile(t))
			}
			if a != "" {
				args = append(args, a)
			}
		}
		// occasionally wrong arity
		switch rapid.IntRange(0, 19).Draw(t, "arity") {
		case 0:
			if len(args) > 0 {
				args = args[:len(args)-1]
			}
		case 1:
			args = append(args, `"extra"`)
		}
		call := name + "(" + strings.Join(args, ", ") + ")"
		tgt := map[string]string{"STRING": "var.s1", "INTEGER": "var.i1", "FLOAT": "var.f1", "BOOL": "var.b1", "RTIME": "var.r1", "TIME": "var.t1", "IP": "var.ip1", "BACKEND": "var.be"}[spec.Return]
		if tgt == "" {
			c.Src = call + ";\n"
		} else {
			c.Src = "set " + tgt + " = " + call + ";\n"
		}
		if rapid.IntRange(0, 3).Draw(t, "twice") == 0 {
			c.Src += c.Src
		}
	case "lifecycle":
		var b strings.Builder
		for _, sub := range lifecycleSubs {
			if rapid.IntRange(0, 2).Draw(t, "has-"+sub) == 0 {
				continue
			}
			fmt.Fprintf(&b, "sub %s {\n", sub)
			n := rapid.IntRange(0, 3).Draw(t, "nl")
			for i := 0; i < n; i++ {
				b.WriteString("  " + genLifecycleStmt(t) + "\n")
			}
			b.WriteString("}\n")
		}
		c.VCL = b.String()
		nreq := rapid.IntRange(1, 3).Draw(t, "nreq")
		for i := 0; i < nreq; i++ {
			r := C08Req{
				Method: rapid.SampledFrom([]string{"GET", "GET", "POST", "HEAD", "PURGE", "FASTLYPURGE", "OPTIONS", "G ET", "", "get"}).Draw(t, "method"),
				Path:   rapid.SampledFrom([]string{"/", "/a", "/a/b?c", "//", "/%zz", "/" + strings.Repeat("p", 9000), "/é", "*", "", "/a b", "/\x00"}).Draw(t, "path"),
				Query:  rapid.SampledFrom([]string{"", "x=1", "x=%zz", strings.Repeat("q=1&", 500), "a=b&a=c", "=&="}).Draw(t, "query"),
			}
			nh := rapid.IntRange(0, 4).Draw(t, "nh")
			for j := 0; j < nh; j++ {
				r.Headers = append(r.Headers, [2]string{
					rapid.SampledFrom([]string{"X-A", "Cookie", "Host", "Fastly-FF", "Content-Length", "Range", "Accept-Encoding", "X-Seen", "If-None-Match", "bad name", "Surrogate-Key", "Fastly-Client-IP"}).Draw(t, "hn"),
					rapid.SampledFrom([]string{"", "a", "a=b; c=d", "bytes=0-", "bytes=9-1", "gzip, br", "-1", "99999999999999999999", "\xff", strings.Repeat("v", 70000), "1.2.3.4", "not-an-ip"}).Draw(t, "hv"),
				})
			}
			c.Reqs = append(c.Reqs, r)
		}
	case "include":
		c.Modules = map[string]string{}
		shape := rapid.SampledFrom([]string{"self", "mutual", "missing", "chain", "self-in-sub", "mutual-in-sub", "dup-sub", "dup-acl", "dup-table", "dup-backend", "too-many-backends", "self-in-nested-block", "mutual-in-nested-block", "sibling-then-self", "self-with-extension"}).Draw(t, "shape")
		c.Feat = []string{"include:" + shape}
		switch shape {
		case "self":
			c.VCL = "include \"m1\";\nsub vcl_recv { log \"x\"; }\n"
			c.Modules["m1"] = "include \"m1\";\nsub helper_m1 { log \"m1\"; }\n"
		case "mutual":
			c.VCL = "include \"m1\";\nsub vcl_recv { log \"x\"; }\n"
			c.Modules["m1"] = "include \"m2\";\nsub helper_m1 { log \"m1\"; }\n"
			c.Modules["m2"] = "include \"m1\";\nsub helper_m2 { log \"m2\"; }\n"
		case "missing":
			c.VCL = "include \"nope\";\nsub vcl_recv { log \"x\"; }\n"
		case "chain":
			c.VCL = "include \"m1\";\nsub vcl_recv { call helper_m2; }\n"
			c.Modules["m1"] = "include \"m2\";\n"
			c.Modules["m2"] = "sub helper_m2 { log \"m2\"; }\n"
		case "dup-sub":
			c.VCL = "sub helper_d { log \"1\"; }\nsub helper_d { log \"2\"; }\nsub vcl_recv { call helper_d; }\n"
		case "dup-acl":
			c.VCL = "acl dup_a { \"10.0.0.0\"/8; }\nacl dup_a { \"11.0.0.0\"/8; }\nsub vcl_recv { log \"x\"; }\n"
		case "dup-table":
			c.VCL = "table dup_t { \"a\": \"1\", }\ntable dup_t { \"a\": \"2\", }\nsub vcl_recv { log \"x\"; }\n"
		case "dup-backend":
			c.VCL = "backend dup_b { .host = \"127.0.0.1\"; .port = \"1\"; }\nbackend dup_b { .host = \"127.0.0.1\"; .port = \"2\"; }\nsub vcl_recv { log \"x\"; }\n"
		case "too-many-backends":
			var bb strings.Builder
			for i := 0; i < 8; i++ {
				fmt.Fprintf(&bb, "backend many_%d { .host = \"127.0.0.1\"; .port = \"%d\"; }\n", i, i+1)
			}
			c.VCL = bb.String() + "sub vcl_recv { log \"x\"; }\n"
		case "self-in-nested-block":
			c.VCL = "sub vcl_recv {\n  include \"m1\";\n}\n"
			c.Modules["m1"] = "log \"in\";\nif (req.http.X-A != \"never\") {\n  include \"m1\";\n}\n"
		case "mutual-in-nested-block":
			c.VCL = "sub vcl_recv {\n  include \"m1\";\n}\n"
			c.Modules["m1"] = "if (req.http.X-A) {\n  log \"m1\";\n} else {\n  include \"m2\";\n}\n"
			c.Modules["m2"] = "switch (req.http.X-A) {\ndefault:\n  include \"m1\";\n  break;\n}\n"
		case "sibling-then-self":
			c.VCL = "sub vcl_recv {\n  include \"m1\";\n}\n"
			c.Modules["m1"] = "include \"m2\";\ninclude \"m1\";\n"
			c.Modules["m2"] = "log \"m2\";\n"
		case "self-with-extension":
			c.VCL = "include \"m1.vcl\";\nsub vcl_recv { log \"x\"; }\n"
			c.Modules["m1.vcl"] = "include \"m1.vcl\";\nsub helper_m1 { log \"m1\"; }\n"
			c.Modules["m1"] = c.Modules["m1.vcl"]
		case "self-in-sub":
			c.VCL = "sub vcl_recv {\n  include \"m1\";\n}\n"
			c.Modules["m1"] = "log \"in\";\ninclude \"m1\";\n"
		case "mutual-in-sub":
			c.VCL = "sub vcl_recv {\n  include \"m1\";\n}\n"
			c.Modules["m1"] = "log \"m1\";\ninclude \"m2\";\n"
			c.Modules["m2"] = "log \"m2\";\ninclude \"m1\";\n"
		}
		// a failed initialisation must not wedge the instance: later requests get an answer too
		for i, n := 0, rapid.IntRange(1, 3).Draw(t, "nreq"); i < n; i++ {
			c.Reqs = append(c.Reqs, C08Req{Method: "GET", Path: "/"})
		}
	}
	return c
}

// ---------------------------------------------------------------------------
// worker side

var (
	backendOnce sync.Once
	backendURL  *url.URL
)

// loopbackBackend is the origin server the harness owns.
func loopbackBackend() *url.URL {
	backendOnce.Do(func() {
		srv := httptest.NewServer(http.HandlerFunc(func(w http.ResponseWriter, r *http.Request) {
			w.Header().Set("X-Origin", "1")
			w.Header().Set("Cache-Control", "max-age=3600")
			switch {
			case strings.HasPrefix(r.URL.Path, "/500"):
				w.WriteHeader(500)
			case strings.HasPrefix(r.URL.Path, "/304"):
				w.WriteHeader(304)
				return
			}
			w.Write([]byte("origin-body"))
		}))
		backendURL, _ = url.Parse(srv.URL)
	})
	return backendURL
}

func backendDecl() string {
	u := loopbackBackend()
	return fmt.Sprintf("backend b { .host = \"%s\"; .port = \"%s\"; .ssl = false; }\n", u.Hostname(), u.Port())
}

const c08Helpers = `
sub rec_a { call rec_b; }
sub rec_b { call rec_a; }
sub rec_self { call rec_self; }
sub aa_into_cycle { call rec_b; }
sub zz_into_cycle { if (req.http.Never-Set) { call rec_self; } call rec_a; }
sub fn_rec(INTEGER var.n) STRING { return fn_rec(var.n); }
sub greet(STRING var.name) { log "hello " var.name; }
sub add2(INTEGER var.a, INTEGER var.b) { set var.a += var.b; log var.a; }
sub fn_two(STRING var.s, INTEGER var.n) STRING { return var.s var.n; }
sub fn_synth(STRING var.s) STRING { synthetic "from function"; return var.s; }
sub sub_synth { synthetic "from sub"; }
director dir_r random { { .backend = b; .weight = 1; } }
`

type mapResolver struct {
	main    string
	modules map[string]string
}

func (r *mapResolver) MainVCL() (*resolver.VCL, error) {
	return &resolver.VCL{Name: "main", Data: r.main}, nil
}
func (r *mapResolver) Resolve(stmt *ast.IncludeStatement) (*resolver.VCL, error) {
	if m, ok := r.modules[stmt.Module.Value]; ok {
		return &resolver.VCL{Name: stmt.Module.Value, Data: m}, nil
	}
	return nil, errors.New("module " + stmt.Module.Value + " not found")
}
func (r *mapResolver) Name() string           { return "map" }
func (r *mapResolver) IncludePaths() []string { return nil }

func buildRequest(r C08Req) *http.Request {
	h := http.Header{}
	for _, kv := range r.Headers {
		h[kv[0]] = append(h[kv[0]], kv[1])
	}
	host := "example.com"
	if v := h.Get("Host"); v != "" {
		host = v
	}
	return &http.Request{
		Method: r.Method, URL: &url.URL{Scheme: "http", Host: host, Path: r.Path, RawQuery: r.Query},
		Proto: "HTTP/1.1", ProtoMajor: 1, ProtoMinor: 1, Header: h, Host: host, Body: http.NoBody, RemoteAddr: "192.0.2.1:1234", RequestURI: r.Path,
	}
}

func expandBig(s string) string {
	if strings.Contains(s, "BIGSTR") {
		return strings.ReplaceAll(s, "BIGSTR", strings.Repeat("x", 1<<20))
	}
	return s
}

func checkC08(raw json.RawMessage) iso.Result {
	var c C08Case
	if err := json.Unmarshal(raw, &c); err != nil {
		return iso.Failf("bad case: %v", err)
	}
	col := iso.NewCollector("C08")
	col.Label("kind:" + c.Kind)
	col.Label(c.Feat...)
	switch c.Kind {
	case "arith", "builtin", "testsub":
		col.Label("scope:" + c.Scope)
		if c.Fn != "" {
			col.Label("fn:" + c.Fn)
		}
		vcl := backendDecl() + c08Decls + c08Helpers + "sub vcl_recv { }\n"
		src := "{\n" + c08Prelude + expandBig(c.Src) + "}\n"
		ss, err := parseSnippet(src)
		if err != nil {
			// outside the domain (the property is about parseable programs)
			col.Label("unparseable")
			return iso.Result{Status: iso.Skip, Labels: col.Res.Labels}
		}
		ip, _, err := newTestInterp(vcl)
		if err != nil {
			col.Failf("harness: cannot initialise interpreter: %v", err)
			return col.Done()
		}
		var rerr error
		if c.Kind == "testsub" {
			sub := &ast.SubroutineDeclaration{Meta: &ast.Meta{}, Name: &ast.Ident{Meta: &ast.Meta{}, Value: "test_sub"}, Block: ss[0].(*ast.BlockStatement)}
			func() {
				defer func() {
					if r := recover(); r != nil {
						rerr = fmt.Errorf("PANIC in ProcessTestSubroutine: %v", r)
					}
				}()
				rerr = ip.ProcessTestSubroutine(scopeByName[c.Scope], sub)
			}()
		} else {
			ip.SetScope(scopeByName[c.Scope])
			_, rerr = execStmts(ip, ss)
		}
		if rerr != nil {
			col.Label("outcome:error")
			if strings.Contains(rerr.Error(), "PANIC") {
				col.FailKey(c08PanicKey(c, rerr.Error()), "simulator crashed: %v\n--- scope %s ---\n%s", rerr, c.Scope, c.Src)
			}
		} else {
			col.Label("outcome:ok")
		}
		col.Res.NonTrivial = true
	case "lifecycle", "include":
		vcl := backendDecl() + c08Decls + c08Helpers + c.VCL
		var opts []icontext.Option
		if c.Kind == "include" {
			opts = append(opts, icontext.WithResolver(&mapResolver{main: vcl, modules: c.Modules}))
		} else {
			opts = append(opts, icontext.WithResolver(resolver.NewStaticResolver("main", vcl)))
		}
		ip := interpreter.New(opts...)
		ip.Debugger = &capDebugger{}
		for ri, rq := range c.Reqs {
			rec := httptest.NewRecorder()
			var pan string
			func() {
				defer func() {
					if r := recover(); r != nil {
						pan = fmt.Sprintf("%v", r)
					}
				}()
				ip.ServeHTTP(rec, buildRequest(rq))
			}()
			if pan != "" {
				col.FailKey(c08PanicKey(c, pan), "ServeHTTP panicked on request %d: %s\n--- vcl ---\n%s\n--- request ---\n%+v", ri, pan, c.VCL, clipReq(rq))
				return col.Done()
			}
			body := rec.Body.Bytes()
			var rep struct {
				Flows []struct {
					Subroutine string `json:"subroutine"`
				} `json:"flows"`
				Restarts int    `json:"restarts"`
				Error    string `json:"error"`
			}
			if json.Unmarshal(body, &rep) == nil && len(rep.Flows) > 0 {
				nrecv := 0
				for _, f := range rep.Flows {
					if f.Subroutine == "vcl_recv" {
						nrecv++
					}
				}
				if nrecv > 4 {
					col.FailKey("", "vcl_recv entered %d times for one request (restart bound is 3)\n--- vcl ---\n%s", nrecv, c.VCL)
				}
				if rep.Restarts > 3 {
					col.FailKey("", "request reports %d restarts (bound is 3)\n--- vcl ---\n%s", rep.Restarts, c.VCL)
				}
				if nrecv > 1 || rep.Restarts > 0 {
					col.Label("restarted")
				}
				if rep.Error != "" {
					col.Label("outcome:reported-error")
				} else {
					col.Label("outcome:response")
				}
			} else {
				col.Label(fmt.Sprintf("outcome:http-%d", rec.Code))
			}
		}
		if strings.Contains(c.VCL, "restart") || strings.Contains(c.VCL, "rec_") || strings.Contains(c.VCL, "fn_rec") || c.Kind == "include" {
			col.Res.NonTrivial = true
		}
	}
	return col.Done()
}

func clipReq(r C08Req) C08Req {
	if len(r.Path) > 80 {
		r.Path = r.Path[:80] + "…"
	}
	if len(r.Query) > 80 {
		r.Query = r.Query[:80] + "…"
	}
	for i := range r.Headers {
		if len(r.Headers[i][1]) > 80 {
			r.Headers[i][1] = r.Headers[i][1][:80] + "…"
		}
	}
	return r
}

// c08PanicKey / c08DeathKey: classifiers of known crash findings (filled in during triage).
func c08PanicKey(c C08Case, msg string) string { return "" }

func c08DeathKey(c C08Case, kind, stderr string) string { return "" }

var _ = bytes.NewReader
var _ = ihttp.WrapRequest
