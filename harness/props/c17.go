package props

import (
	"encoding/json"
	"fmt"
	"strings"
	"time"

	"github.com/ysugimoto/falco/v2/interpreter"
	"github.com/ysugimoto/falco/v2/interpreter/value"
	"github.com/ysugimoto/falco/v2/interpreter/variable"
	"pgregory.net/rapid"

	"verif/iso"
)

// C17 — HTTP header variables obey store laws (model-based).

type C17Op struct {
	Kind string `json:"kind"` // set | append | add | unset | setf | unsetf
	Name string `json:"name"` // header spelling
	Key  string `json:"key,omitempty"`
	Val  string `json:"val,omitempty"`
	NS   bool   `json:"ns,omitempty"` // value is a not-set string
}

type C17Case struct {
	Layer string  `json:"layer"` // "vcl" (statements through the interpreter) | "vars" (variable layer directly)
	Scope string  `json:"scope"`
	Obj   string  `json:"obj"` // req | bereq | beresp | obj | resp
	Ops   []C17Op `json:"ops"`
}

var c17Writable = map[string][]string{
	"req":    {"recv", "hash", "hit", "miss", "pass", "fetch", "error", "deliver", "log"},
	"bereq":  {"pass", "miss", "fetch"},
	"beresp": {"fetch"},
	"obj":    {"hit", "error"},
	"resp":   {"deliver", "log"},
}

// whole-header names (several spellings of two headers) and fielded headers
var c17Whole = []string{"Foo", "foo", "fOO", "X-A", "x-a", "X-a"}
var c17Fielded = []string{"Dict", "dict", "DICT"}
var c17Keys = []string{"a", "bb", "k-1"}
var c17Vals = []string{"x", "v1", "10", "abc-def", "a b", "p;q", "c=d", "s,t", "say \"hi\"", "", "line1\nline2", " lead", "é"}
var c17FieldVals = []string{"x", "v1", "10", "abc-def", "a b", "p;q", "c=d", "", "s,t", "a@b", "(p)", "[q]", "{r}", "w?", "u/v", "k:v", "it's", "<x>", "a,b,c", "m.n_o~p"}

func init() {
	register("C17",
		"rapid state-machine sequences (<=40 ops) of set / += / add / unset / get over header names in mixed spellings (Foo, foo, fOO, X-A, x-a, X-a) and name:key sub-fields (keys a, bb, k-1) with values (tokens, spaces, separators, quotes, empty, not-set, newline) on req, bereq, beresp, obj, resp in every scope where the YAML table makes them writable; executed as VCL statements stepped through the interpreter and directly through variable.New<Scope>ScopeVariables; oracle: a header-store model (map lower(name) -> notset|value, per-header ordered sub-field dictionary) compared after every step under every spelling. non-trivial: a read after a write under a different spelling, or >=2 sub-field operations on one header; distinct by case",
		genC17, checkC17, 10*time.Second)
}

func genC17(t *rapid.T) any {
	c := C17Case{}
	c.Layer = rapid.SampledFrom([]string{"vcl", "vars"}).Draw(t, "layer")
	c.Obj = rapid.SampledFrom([]string{"req", "req", "bereq", "beresp", "obj", "resp"}).Draw(t, "obj")
	c.Scope = rapid.SampledFrom(c17Writable[c.Obj]).Draw(t, "scope")
	n := rapid.IntRange(1, pick(25, 40)).Draw(t, "nops")
	for i := 0; i < n; i++ {
		op := C17Op{}
		op.Kind = rapid.SampledFrom([]string{"set", "set", "set", "unset", "append", "add", "setf", "setf", "setf", "unsetf", "setf", "addf", "unsetd"}).Draw(t, "kind")
		switch op.Kind {
		case "addf": // a further line on a fielded header, shaped like sub-fields
			op.Name = rapid.SampledFrom(c17Fielded).Draw(t, "fname")
			op.Val = rapid.SampledFrom([]string{"bb=9", "a=7", "k-1=z", "plain", "a=1, bb=2"}).Draw(t, "addfval")
		case "unsetd": // whole-header unset of a fielded header
			op.Name = rapid.SampledFrom(c17Fielded).Draw(t, "fname")
		case "setf", "unsetf":
			op.Name = rapid.SampledFrom(c17Fielded).Draw(t, "fname")
			op.Key = rapid.SampledFrom(c17Keys).Draw(t, "key")
			if op.Kind == "setf" {
				op.Val = rapid.SampledFrom(c17FieldVals).Draw(t, "fval")
				op.NS = rapid.IntRange(0, 11).Draw(t, "fns") == 11
			}
		default:
			op.Name = rapid.SampledFrom(c17Whole).Draw(t, "name")
			if op.Kind == "add" {
				// the statement says nothing about adding an empty value
				op.Val = rapid.SampledFrom([]string{"x", "v1", "a b", "p;q"}).Draw(t, "addval")
			} else if op.Kind != "unset" {
				op.Val = rapid.SampledFrom(c17Vals).Draw(t, "val")
				if op.Kind == "set" {
					op.NS = rapid.IntRange(0, 9).Draw(t, "ns") == 9
				}
			}
		}
		c.Ops = append(c.Ops, op)
	}
	return c
}

// ---------------------------------------------------------------------------
// model

type c17Field struct {
	key, val string
	ns       bool // written from a not-set value: the statement leaves open whether it reads as empty or as not set
}

type c17Header struct {
	set     bool
	val     string
	unknown bool // value not determined by the property statement (after += on a not-set header)
	fields  []c17Field
	// multi: the header got a further line through add; the statement does not say which line a
	// sub-field is read from, only the frame law (a sub-field write changes that sub-field only) is checked
	multi bool
}

type c17Model map[string]*c17Header

func (m c17Model) h(name string) *c17Header {
	k := strings.ToLower(name)
	if m[k] == nil {
		m[k] = &c17Header{}
	}
	return m[k]
}

func firstLine(s string) string {
	if i := strings.IndexByte(s, '\n'); i >= 0 {
		return s[:i]
	}
	return s
}

func (m c17Model) apply(op C17Op) {
	h := m.h(op.Name)
	switch op.Kind {
	case "set":
		if op.NS {
			*h = c17Header{}
			return
		}
		*h = c17Header{set: true, val: firstLine(op.Val)}
	case "append":
		if !h.set || h.unknown {
			// += on a not-set header: the statement only says the header is set afterwards
			*h = c17Header{set: true, unknown: true}
			return
		}
		h.val = firstLine(h.val + op.Val)
	case "add":
		if !h.set {
			*h = c17Header{set: true, val: firstLine(op.Val)}
		}
		// a previously readable value stays readable: nothing changes in the model
	case "unset", "unsetd":
		*h = c17Header{}
	case "addf":
		h.set = true
		h.multi = true
	case "setf":
		out := h.fields[:0:0]
		for _, f := range h.fields {
			if f.key != op.Key {
				out = append(out, f)
			}
		}
		v := op.Val
		if op.NS {
			v = ""
		}
		h.fields = append(out, c17Field{op.Key, v, op.NS})
		h.set = true
	case "unsetf":
		out := h.fields[:0:0]
		for _, f := range h.fields {
			if f.key != op.Key {
				out = append(out, f)
			}
		}
		h.fields = out
	}
}

// ---------------------------------------------------------------------------
// drivers

type c17Driver interface {
	apply(op C17Op) error
	read(name string) (val string, notset bool, err error)
}

type c17VCL struct {
	ip  *interpreter.Interpreter
	obj string
}

func vclString(s string) string {
	// values may contain quotes/newlines: use a long string with a delimiter that never occurs
	if strings.ContainsAny(s, "\"\n%") {
		return "{ZQ\"" + s + "\"ZQ}"
	}
	return "\"" + s + "\""
}

func (d *c17VCL) target(op C17Op) string {
	t := d.obj + ".http." + op.Name
	if op.Key != "" {
		t += ":" + op.Key
	}
	return t
}

func (d *c17VCL) apply(op C17Op) error {
	val := vclString(op.Val)
	if op.NS {
		val = d.obj + ".http.Never-Set-Source"
	}
	var src string
	switch op.Kind {
	case "set", "setf":
		src = fmt.Sprintf("set %s = %s;", d.target(op), val)
	case "append":
		src = fmt.Sprintf("set %s += %s;", d.target(op), val)
	case "add", "addf":
		src = fmt.Sprintf("add %s = %s;", d.target(op), val)
	case "unset", "unsetf", "unsetd":
		src = fmt.Sprintf("unset %s;", d.target(op))
	}
	ss, err := parseSnippet(src)
	if err != nil {
		return fmt.Errorf("harness: cannot parse %q: %v", src, err)
	}
	_, err = execStmts(d.ip, ss)
	if err != nil {
		return fmt.Errorf("%s: %v", src, err)
	}
	return nil
}

func (d *c17VCL) read(name string) (string, bool, error) {
	v, err := readVar(d.ip, d.obj+".http."+name)
	if err != nil {
		return "", false, err
	}
	s, ok := v.(*value.String)
	if !ok {
		return "", false, fmt.Errorf("header %s read as %T", name, v)
	}
	return s.Value, s.IsNotSet, nil
}

type c17Vars struct {
	vars  variable.Variable
	scope string
	obj   string
}

func (d *c17Vars) apply(op C17Op) (err error) {
	defer func() {
		if r := recover(); r != nil {
			err = fmt.Errorf("PANIC in variable layer: %v", r)
		}
	}()
	name := d.obj + ".http." + op.Name
	if op.Key != "" {
		name += ":" + op.Key
	}
	sc := scopeByName[d.scope]
	var val value.Value = &value.String{Value: op.Val}
	if op.NS {
		val = &value.String{IsNotSet: true}
	}
	switch op.Kind {
	case "set", "setf":
		return d.vars.Set(sc, name, "=", val)
	case "append":
		return d.vars.Set(sc, name, "+=", val)
	case "add", "addf":
		return d.vars.Add(sc, name, val)
	case "unset", "unsetf", "unsetd":
		return d.vars.Unset(sc, name)
	}
	return nil
}

func (d *c17Vars) read(name string) (s string, ns bool, err error) {
	defer func() {
		if r := recover(); r != nil {
			err = fmt.Errorf("PANIC in variable layer: %v", r)
		}
	}()
	v, err := d.vars.Get(scopeByName[d.scope], d.obj+".http."+name)
	if err != nil {
		return "", false, err
	}
	sv, ok := v.(*value.String)
	if !ok {
		return "", false, fmt.Errorf("header %s read as %T", name, v)
	}
	return sv.Value, sv.IsNotSet, nil
}

func checkC17(raw json.RawMessage) iso.Result {
	var c C17Case
	if err := json.Unmarshal(raw, &c); err != nil {
		return iso.Failf("bad case: %v", err)
	}
	col := iso.NewCollector("C17")
	col.Label("layer:"+c.Layer, "obj:"+c.Obj, "scope:"+c.Scope)
	var drv c17Driver
	switch c.Layer {
	case "vcl":
		ip, _, err := newTestInterp("backend b { .host = \"127.0.0.1\"; .port = \"1\"; }\nsub vcl_recv { }\n")
		if err != nil {
			col.Failf("harness: cannot initialise interpreter: %v", err)
			return col.Done()
		}
		ip.SetScope(scopeByName[c.Scope])
		drv = &c17VCL{ip: ip, obj: c.Obj}
	default:
		ctx := newVarContext()
		drv = &c17Vars{vars: scopeVariables(ctx, c.Scope), scope: c.Scope, obj: c.Obj}
	}
	m := c17Model{}
	lastWriteSpelling := map[string]string{}
	fieldOps := map[string]int{}
	for i, op := range c.Ops {
		col.Label("op:" + op.Kind)
		// frame law for sub-fields: reads of the other sub-fields before the operation
		type fk struct{ name, key string }
		before := map[fk]string{}
		if op.Kind == "setf" || op.Kind == "unsetf" {
			for _, key := range c17Keys {
				if key == op.Key {
					continue
				}
				if got, ns, err := drv.read(op.Name + ":" + key); err == nil {
					before[fk{op.Name, key}] = fmt.Sprintf("%q notset=%v", got, ns)
				}
			}
		}
		if err := drv.apply(op); err != nil {
			col.Failf("step %d %+v failed: %v", i, op, err)
			return col.Done()
		}
		m.apply(op)
		for k, was := range before {
			got, ns, err := drv.read(k.name + ":" + k.key)
			if err != nil {
				continue
			}
			if now := fmt.Sprintf("%q notset=%v", got, ns); now != was {
				col.Failf("step %d (%+v) changed the other sub-field %s.http.%s:%s (%s -> %s)\n history: %s", i, op, c.Obj, k.name, k.key, was, now, c17History(c, i))
				return col.Done()
			}
		}
		lk := strings.ToLower(op.Name)
		if op.Key == "" {
			lastWriteSpelling[lk] = op.Name
		} else {
			fieldOps[lk]++
			if fieldOps[lk] >= 2 {
				col.Res.NonTrivial = true
			}
		}
		// compare the whole alphabet under every spelling
		for _, name := range c17Whole {
			h := m.h(name)
			got, ns, err := drv.read(name)
			if err != nil {
				col.Failf("step %d: read %s failed: %v", i, name, err)
				return col.Done()
			}
			if sp, ok := lastWriteSpelling[strings.ToLower(name)]; ok && sp != name {
				col.Res.NonTrivial = true
			}
			switch {
			case !h.set && !ns:
				col.FailKey(c17Key(c, i, name, h, got, ns), "after step %d (%+v): %s.http.%s should be not set, reads %q as set\n history: %s", i, op, c.Obj, name, got, c17History(c, i))
			case h.set && ns:
				col.FailKey(c17Key(c, i, name, h, got, ns), "after step %d (%+v): %s.http.%s should be set (%q), reads as not set\n history: %s", i, op, c.Obj, name, h.val, c17History(c, i))
			case h.set && !h.unknown && got != h.val:
				col.FailKey(c17Key(c, i, name, h, got, ns), "after step %d (%+v): %s.http.%s reads %q, model says %q\n history: %s", i, op, c.Obj, name, got, h.val, c17History(c, i))
			}
			if col.Failed() {
				return col.Done()
			}
		}
		for _, name := range c17Fielded {
			h := m.h(name)
			if h.multi {
				col.Label("fielded-header-with-added-line")
				continue
			}
			// a header whose last sub-field was removed is not set (on every object alike)
			if len(h.fields) == 0 && op.Kind == "unsetf" && strings.EqualFold(op.Name, name) {
				if got, ns, err := drv.read(name); err == nil && !ns {
					col.FailKey("", "after step %d (%+v): no sub-field of %s.http.%s is left, the header still reads %q as set\n history: %s", i, op, c.Obj, name, got, c17History(c, i))
					return col.Done()
				}
				col.Label("checked:header-not-set-after-last-sub-field")
			}
			for _, key := range c17Keys {
				got, ns, err := drv.read(name + ":" + key)
				if err != nil {
					col.Failf("step %d: read %s:%s failed: %v", i, name, key, err)
					return col.Done()
				}
				var want *c17Field
				for j := range h.fields {
					if h.fields[j].key == key {
						want = &h.fields[j]
					}
				}
				switch {
				case want == nil && !ns:
					col.FailKey("", "after step %d (%+v): sub-field %s.http.%s:%s was removed/never written but reads %q\n history: %s", i, op, c.Obj, name, key, got, c17History(c, i))
				case want != nil && want.val == "" && want.ns:
					// a sub-field written from a not-set value may read back as empty or as not set
					if !ns && got != "" {
						col.FailKey("", "after step %d (%+v): empty sub-field %s:%s reads %q\n history: %s", i, op, name, key, got, c17History(c, i))
					}
				case want != nil && (ns || got != want.val):
					col.FailKey("", "after step %d (%+v): sub-field %s.http.%s:%s reads %q (notset=%v), model says %q\n history: %s", i, op, c.Obj, name, key, got, ns, want.val, c17History(c, i))
				}
				if col.Failed() {
					return col.Done()
				}
			}
		}
	}
	return col.Done()
}

func c17History(c C17Case, upto int) string {
	var b strings.Builder
	for i := 0; i <= upto && i < len(c.Ops); i++ {
		op := c.Ops[i]
		fmt.Fprintf(&b, "%s %s", op.Kind, op.Name)
		if op.Key != "" {
			fmt.Fprintf(&b, ":%s", op.Key)
		}
		if op.NS {
			b.WriteString("=<notset>")
		} else if op.Kind != "unset" && op.Kind != "unsetf" {
			fmt.Fprintf(&b, "=%q", op.Val)
		}
		b.WriteString("; ")
	}
	return b.String()
}

// c17Key: classifier of known findings (filled in during triage).
func c17Key(c C17Case, step int, name string, h *c17Header, got string, ns bool) string {
	return ""
}
