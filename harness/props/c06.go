package props

import (
	"encoding/json"
	"fmt"
	"net/http"
	"net/http/httptest"
	"net/url"
	"sort"
	"strings"
	"time"

	"github.com/ysugimoto/falco/v2/interpreter"
	icontext "github.com/ysugimoto/falco/v2/interpreter/context"
	"github.com/ysugimoto/falco/v2/resolver"
	"pgregory.net/rapid"

	"verif/iso"
)

// C06 — request processing follows the Fastly request state machine.

type C06Rule struct {
	Sub     string `json:"sub"`
	Req     int    `json:"req"`
	Restart int    `json:"restart"`
	Action  string `json:"action"`          // "" | return:<a> | error | restart
	Cache   string `json:"cache,omitempty"` // vcl_fetch only: "" | ttl0 | uncacheable | ttl1h
	PBAdd   bool   `json:"pbadd,omitempty"` // vcl_recv only: add the client to the penalty box
	RCInc   int    `json:"rcinc,omitempty"` // vcl_recv only: increment the rate counter by n
}

type C06Case struct {
	Rules []C06Rule `json:"rules"`
	URLs  []string  `json:"urls"` // one per request
	Enum  bool      `json:"enum,omitempty"`
}

var c06Subs = []string{"vcl_recv", "vcl_hash", "vcl_hit", "vcl_miss", "vcl_pass", "vcl_fetch", "vcl_error", "vcl_deliver", "vcl_log"}

// Documented actions per subroutine (Fastly VCL subroutine reference). deliver_stale is left out:
// it is only meaningful when a stale object exists, which needs the clock.
var c06Actions = map[string][]string{
	"vcl_recv":    {"", "return:lookup", "return:pass", "return:error", "error", "restart", "return:restart"},
	"vcl_hash":    {"", "return:hash"},
	"vcl_hit":     {"", "return:deliver", "return:pass", "return:error", "error", "restart", "return:restart"},
	"vcl_miss":    {"", "return:fetch", "return:pass", "return:error", "error"},
	"vcl_pass":    {"", "return:pass", "return:error", "error"},
	"vcl_fetch":   {"", "return:deliver", "return:pass", "return:hit_for_pass", "return:error", "error", "restart", "return:restart"},
	"vcl_error":   {"", "return:deliver", "restart", "return:restart"},
	"vcl_deliver": {"", "return:deliver", "restart", "return:restart"},
	"vcl_log":     {"", "return:deliver"},
}

func init() {
	register("C06",
		"plans assigning to each lifecycle subroutine, per (request index, restart count), one documented action (no return, return(action), error, restart) plus vcl_fetch cacheability (ttl 0 / uncacheable / ttl 1h), penalty-box and rate-counter writes; one VCL is synthesised per plan with all nine subs defined; 1-3 requests to the same or different URLs go through Interpreter.ServeHTTP against a loopback origin. Every restart-free path of the reference machine is enumerated (single request and followed by a default lookup of the same URL); plans with restarts and multi-request histories are sampled. Oracle: reference state machine written from the Fastly lifecycle documentation + three-valued reference cache; flows[].subroutine must equal the reference path, restarts the reference count (<=3), vcl_log last and exactly once unless an error is reported, hit branch iff the reference cache holds the hash, cached / X-Cache name the branch taken, penalty box / rate counter visible to later requests. non-trivial: a non-default edge, a restart, or >=2 requests; distinct by plan",
		genC06, checkC06, 20*time.Second)
	enums["C06"] = enumC06
}

func genC06(t *rapid.T) any {
	c := C06Case{}
	nreq := rapid.IntRange(1, 3).Draw(t, "nreq")
	for i := 0; i < nreq; i++ {
		c.URLs = append(c.URLs, rapid.SampledFrom([]string{"/a", "/a", "/b", "/a?x=1"}).Draw(t, "url"))
	}
	for k := 0; k < nreq; k++ {
		for _, sub := range c06Subs {
			for r := 0; r <= 3; r++ {
				if rapid.IntRange(0, 3).Draw(t, "has-rule") != 0 {
					continue
				}
				rule := C06Rule{Sub: sub, Req: k, Restart: r}
				rule.Action = rapid.SampledFrom(c06Actions[sub]).Draw(t, "action")
				if rapid.IntRange(0, 11).Draw(t, "undocumented") == 0 {
					// an action the subroutine reference does not list for this subroutine: no documented
					// successor exists, the path must end here in a reported error
					var und []string
					for _, a := range []string{"lookup", "pass", "error", "hash", "deliver", "fetch", "hit_for_pass"} {
						doc := false
						for _, d := range c06Actions[sub] {
							if d == "return:"+a {
								doc = true
							}
						}
						if !doc {
							und = append(und, "return:"+a)
						}
					}
					rule.Action = rapid.SampledFrom(und).Draw(t, "undocaction")
				}
				if sub == "vcl_fetch" {
					rule.Cache = rapid.SampledFrom([]string{"", "", "ttl1h", "ttl0", "uncacheable"}).Draw(t, "cache")
				}
				if sub == "vcl_recv" {
					rule.PBAdd = rapid.IntRange(0, 4).Draw(t, "pbadd") == 0
					if rapid.IntRange(0, 4).Draw(t, "rc") == 0 {
						rule.RCInc = rapid.IntRange(1, 5).Draw(t, "rcinc")
					}
				}
				c.Rules = append(c.Rules, rule)
			}
		}
	}
	return c
}

// enumC06 enumerates every restart-free path of the reference machine.
func enumC06(emit func(c any)) {
	type choice struct {
		sub, action, cache string
	}
	var walk func(state string, chosen []choice)
	finish := func(chosen []choice, reachedFetch bool) {
		var rules []C06Rule
		for _, ch := range chosen {
			rules = append(rules, C06Rule{Sub: ch.sub, Req: 0, Restart: 0, Action: ch.action, Cache: ch.cache})
		}
		emit(C06Case{Rules: rules, URLs: []string{"/a"}, Enum: true})
		// followed by a default request to the same URL (cold/warm cache decision)
		emit(C06Case{Rules: rules, URLs: []string{"/a", "/a"}, Enum: true})
		_ = reachedFetch
	}
	walk = func(state string, chosen []choice) {
		if state == "end" || state == "errorend" {
			finish(chosen, false)
			return
		}
		for _, a := range c06Actions[state] {
			if strings.Contains(a, "restart") {
				continue
			}
			caches := []string{""}
			if state == "vcl_fetch" {
				caches = []string{"", "ttl1h", "ttl0", "uncacheable"}
			}
			for _, cc := range caches {
				ch := append(append([]choice{}, chosen...), choice{state, a, cc})
				// successor from the reference machine; the lookup decision on a cold cache is a miss
				next := c06Next(state, a, func() string {
					// pending decision of vcl_recv stored in chosen[0]
					if len(ch) > 0 && (ch[0].action == "return:pass") {
						return "vcl_pass"
					}
					return "vcl_miss"
				})
				walk(next, ch)
			}
		}
	}
	walk("vcl_recv", nil)
}

// c06Next is the reference successor function (no restarts): Fastly lifecycle documentation.
// afterHash tells where vcl_hash leads (decided by vcl_recv and the cache).
func c06Next(sub, action string, afterHash func() string) string {
	act := strings.TrimPrefix(action, "return:")
	if action == "error" {
		act = "error"
	}
	switch sub {
	case "vcl_recv":
		switch act {
		case "", "lookup", "pass":
			return "vcl_hash"
		case "error":
			return "vcl_error"
		}
	case "vcl_hash":
		switch act {
		case "", "hash":
			return afterHash()
		}
	case "vcl_hit":
		switch act {
		case "", "deliver":
			return "vcl_deliver"
		case "pass":
			return "vcl_pass"
		case "error":
			return "vcl_error"
		}
	case "vcl_miss":
		switch act {
		case "", "fetch":
			return "vcl_fetch"
		case "pass":
			return "vcl_pass"
		case "error":
			return "vcl_error"
		}
	case "vcl_pass":
		switch act {
		case "", "pass":
			return "vcl_fetch"
		case "error":
			return "vcl_error"
		}
	case "vcl_fetch":
		switch act {
		case "", "deliver", "pass", "hit_for_pass":
			return "vcl_deliver"
		case "error":
			return "vcl_error"
		}
	case "vcl_error":
		switch act {
		case "", "deliver":
			return "vcl_deliver"
		}
	case "vcl_deliver":
		switch act {
		case "", "deliver":
			return "vcl_log"
		}
	case "vcl_log":
		switch act {
		case "", "deliver":
			return "end"
		}
	}
	return "?"
}

// ---------------------------------------------------------------------------
// VCL synthesis

func c06VCL(c C06Case) string {
	var b strings.Builder
	b.WriteString(backendDecl())
	b.WriteString("penaltybox pb { }\nratecounter rc { }\n")
	for _, sub := range c06Subs {
		fmt.Fprintf(&b, "sub %s {\n", sub)
		if sub == "vcl_recv" {
			b.WriteString("  declare local var.n INTEGER;\n")
			b.WriteString("  if (ratelimit.penaltybox_has(pb, \"client\")) { log \"PB=1\"; } else { log \"PB=0\"; }\n")
		}
		for _, r := range c.Rules {
			if r.Sub != sub {
				continue
			}
			fmt.Fprintf(&b, "  if (req.http.X-Req == \"%d\" && req.restarts == %d) {\n", r.Req, r.Restart)
			switch r.Cache {
			case "ttl0":
				b.WriteString("    set beresp.ttl = 0s;\n")
			case "uncacheable":
				b.WriteString("    set beresp.cacheable = false;\n")
			case "ttl1h":
				b.WriteString("    set beresp.ttl = 3600s;\n    set beresp.cacheable = true;\n")
			}
			if r.PBAdd {
				b.WriteString("    ratelimit.penaltybox_add(pb, \"client\", 10m);\n")
			}
			if r.RCInc > 0 {
				fmt.Fprintf(&b, "    set var.n = ratelimit.ratecounter_increment(rc, \"client\", %d);\n    log \"RC=\" ratecounter.rc.bucket.60s;\n", r.RCInc)
			}
			switch {
			case r.Action == "error":
				b.WriteString("    error 601;\n")
			case r.Action == "restart":
				b.WriteString("    restart;\n")
			case strings.HasPrefix(r.Action, "return:"):
				fmt.Fprintf(&b, "    return(%s);\n", strings.TrimPrefix(r.Action, "return:"))
			}
			b.WriteString("  }\n")
		}
		b.WriteString("}\n")
	}
	return b.String()
}

// ---------------------------------------------------------------------------
// reference machine + check

type c06Report struct {
	Flows []struct {
		Subroutine string `json:"subroutine"`
	} `json:"flows"`
	Logs []struct {
		Message string `json:"message"`
	} `json:"logs"`
	Restarts       int    `json:"restarts"`
	Cached         bool   `json:"cached"`
	Error          string `json:"error"`
	ClientResponse struct {
		StatusCode int               `json:"status_code"`
		Headers    map[string]string `json:"headers"`
	} `json:"client_response"`
}

const (
	cAbsent = iota
	cStored
	cUnspec
)

func (c C06Case) rule(sub string, req, restart int) *C06Rule {
	// the first matching rule wins (if-chain order in the synthesised VCL)
	for i := range c.Rules {
		r := &c.Rules[i]
		if r.Sub == sub && r.Req == req && r.Restart == restart {
			return r
		}
	}
	return nil
}

func checkC06(raw json.RawMessage) iso.Result {
	var c C06Case
	if err := json.Unmarshal(raw, &c); err != nil {
		return iso.Failf("bad case: %v", err)
	}
	col := iso.NewCollector("C06")
	vcl := c06VCL(c)
	ip := interpreter.New(icontext.WithResolver(resolver.NewStaticResolver("main", vcl)))
	ip.Debugger = &capDebugger{}
	cache := map[string]int{}
	pbAdded := false
	rcTotal := 0
	if len(c.URLs) >= 2 {
		col.Res.NonTrivial = true
	}
	for k, u := range c.URLs {
		pu, _ := url.Parse("http://example.com" + u)
		req := httptest.NewRequest(http.MethodGet, pu.String(), nil)
		req.Header.Set("X-Req", fmt.Sprint(k))
		rec := httptest.NewRecorder()
		var pan string
		func() {
			defer func() {
				if r := recover(); r != nil {
					pan = fmt.Sprintf("%v", r)
				}
			}()
			ip.ServeHTTP(rec, req)
		}()
		if pan != "" {
			col.Failf("ServeHTTP panicked on request %d: %s\n--- vcl ---\n%s", k, pan, vcl)
			return col.Done()
		}
		var rep c06Report
		if err := json.Unmarshal(rec.Body.Bytes(), &rep); err != nil {
			col.Failf("request %d: response is not the JSON flow report (status %d): %.300s\n--- vcl ---\n%s", k, rec.Code, rec.Body.String(), vcl)
			return col.Done()
		}
		var got []string
		for _, f := range rep.Flows {
			got = append(got, f.Subroutine)
		}

		// ---- reference run of request k ----
		var want []string
		restarts := 0
		state := "vcl_recv"
		recvDecision := ""
		lookups := 0
		attemptLookup := false // the attempt that produced the response (after the last restart) did a lookup
		lastBranch := ""
		passPath := false
		expectErrorEnd := false
		gi := 0 // index into falco's flow, used only to resolve unspecified cache decisions
		key := u
		var wantLogs []string
		for state != "end" {
			want = append(want, state)
			gi = len(want)
			r := c.rule(state, k, restarts)
			action := ""
			if state == "vcl_recv" {
				// logged at the top of vcl_recv on every entry
				if pbAdded {
					wantLogs = append(wantLogs, "PB=1")
				} else {
					wantLogs = append(wantLogs, "PB=0")
				}
			}
			if r != nil {
				action = r.Action
				if state == "vcl_recv" {
					if r.PBAdd {
						pbAdded = true
					}
					if r.RCInc > 0 {
						rcTotal += r.RCInc
						wantLogs = append(wantLogs, fmt.Sprintf("RC=%d", rcTotal))
					}
				}
			}
			if state != "vcl_recv" || action != "" || true {
				if action != "" && !(state == "vcl_recv" && (action == "return:lookup")) {
					col.Label("edge:" + state + "/" + action)
				}
			}
			// cache bookkeeping when vcl_fetch has run
			if state == "vcl_fetch" {
				act := strings.TrimPrefix(action, "return:")
				cacheSetting := ""
				if r != nil {
					cacheSetting = r.Cache
				}
				switch {
				case passPath:
					cache[key] = cUnspec
				case act == "" || act == "deliver":
					switch cacheSetting {
					case "ttl0", "uncacheable":
						// nothing is stored; an object stored earlier stays
					default:
						cache[key] = cStored // origin answers Cache-Control: max-age=3600
					}
				default:
					cache[key] = cUnspec
				}
			}
			if strings.Contains(action, "restart") {
				if restarts+1 > 3 {
					expectErrorEnd = true // more than three restarts: the request ends in a reported error
					break
				}
				restarts++
				state = "vcl_recv"
				attemptLookup = false
				col.Res.NonTrivial = true
				continue
			}
			if state == "vcl_recv" {
				recvDecision = strings.TrimPrefix(action, "return:")
			}
			next := c06Next(state, action, func() string {
				if recvDecision == "pass" {
					passPath = true
					return "vcl_pass"
				}
				lookups++
				attemptLookup = true
				switch cache[key] {
				case cStored:
					lastBranch = "vcl_hit"
				case cAbsent:
					lastBranch = "vcl_miss"
				default:
					// unspecified: follow the branch falco took
					lastBranch = "vcl_miss"
					if gi < len(got) && got[gi] == "vcl_hit" {
						lastBranch = "vcl_hit"
					}
					col.Label("cache:unspecified-lookup")
				}
				return lastBranch
			})
			if state == "vcl_hit" && strings.TrimPrefix(action, "return:") == "pass" || state == "vcl_miss" && strings.TrimPrefix(action, "return:") == "pass" {
				passPath = true
			}
			if next == "?" {
				if !strings.HasPrefix(action, "return:") {
					col.Failf("harness: reference machine has no successor for %s/%s", state, action)
					return col.Done()
				}
				// undocumented action: there is no documented successor, so no further lifecycle
				// subroutine may run. Unless this is vcl_log itself, vcl_log has then not run, which
				// is only allowed for a request that ends in a reported error.
				col.Label("undocumented-action")
				col.Res.NonTrivial = true
				if state != "vcl_log" {
					expectErrorEnd = true
				}
				break
			}
			if next != "vcl_hash" && !(state == "vcl_recv" && action == "") && action != "" {
				col.Res.NonTrivial = true
			}
			state = next
		}

		// ---- compare ----
		ctx := func() string {
			return fmt.Sprintf("request %d (%s)\n reference path: %v\n falco flows:    %v\n falco error: %q restarts=%d cached=%v x-cache=%q\n--- plan ---\n%s", k, u, want, got, rep.Error, rep.Restarts, rep.Cached, rep.ClientResponse.Headers["x-cache"], c06PlanString(c))
		}
		if strings.Join(got, ",") != strings.Join(want, ",") {
			col.FailKey(c06Key(c, want, got), "the subroutines run do not form the reference path\n%s", ctx())
			return col.Done()
		}
		if rep.Restarts != restarts {
			col.Failf("restarts: falco reports %d, reference %d\n%s", rep.Restarts, restarts, ctx())
		}
		nrecv := 0
		nlog := 0
		for _, s := range got {
			if s == "vcl_recv" {
				nrecv++
			}
			if s == "vcl_log" {
				nlog++
			}
		}
		if nrecv > 4 {
			col.Failf("vcl_recv entered %d times\n%s", nrecv, ctx())
		}
		if expectErrorEnd {
			if rep.Error == "" {
				col.Failf("a fourth restart must end the request in a reported error\n%s", ctx())
			}
		} else {
			if rep.Error != "" {
				col.FailKey(c06Key(c, want, got), "falco reports an error on a documented path: %s\n%s", rep.Error, ctx())
			} else if nlog != 1 || got[len(got)-1] != "vcl_log" {
				col.Failf("vcl_log must run last and exactly once (ran %d times)\n%s", nlog, ctx())
			}
			// cached / X-Cache name the branch taken (only when exactly one lookup happened and nothing passed)
			// (also after vcl_hit / vcl_miss returned pass: the lookup still took that branch;
			// only requests passed in vcl_recv have no lookup at all)
			// (and the lookup belongs to the attempt that produced the response: after a restart that ends in
			// vcl_recv -> vcl_error the response never saw the cache)
			if lookups == 1 && attemptLookup && recvDecision != "pass" && rep.Error == "" {
				if passPath {
					col.Label("checked:cached+x-cache-after-pass")
				}
				hit := lastBranch == "vcl_hit"
				if rep.Cached != hit {
					col.FailKey("sim.cached-flag", "cached=%v but the lookup took the %s branch\n%s", rep.Cached, lastBranch, ctx())
				}
				xc := rep.ClientResponse.Headers["x-cache"]
				if (hit && xc != "HIT") || (!hit && xc != "MISS") {
					col.Failf("X-Cache is %q but the lookup took the %s branch\n%s", xc, lastBranch, ctx())
				}
				col.Label("checked:cached+x-cache")
				if hit {
					col.Label("branch:hit")
				}
			}
		}
		// response status: the attempt that produced the response (after the last restart) decides it — the
		// origin of the harness always answers 200; an attempt that
		// never entered vcl_error must not deliver the synthetic object of an abandoned attempt
		if rep.Error == "" && len(got) > 0 && fmt.Sprint(got) == fmt.Sprint(want) {
			last := 0
			for i, s := range want {
				if s == "vcl_recv" {
					last = i
				}
			}
			final := strings.Join(want[last:], " ")
			if strings.Contains(final, "vcl_deliver") {
				st := rep.ClientResponse.StatusCode
				switch {
				case strings.Contains(final, "vcl_error"):
					// (601, 503 or 500 depending on how the error was raised: not judged)
				case st != 200:
					col.Failf("the response has status %d although the attempt that produced it never entered vcl_error (the origin answers 200)\n%s", st, ctx())
				}
				col.Label("checked:status")
			}
		}
		if k == 0 && lookups > 0 && lastBranch == "vcl_hit" && restarts == 0 {
			col.Failf("hit on the first request to a fresh simulator\n%s", ctx())
		}
		// persistent state visible to this request (logged at the top of vcl_recv on every entry)
		var gotLogs []string
		for _, l := range rep.Logs {
			if strings.HasPrefix(l.Message, "PB=") || strings.HasPrefix(l.Message, "RC=") {
				gotLogs = append(gotLogs, l.Message)
			}
		}
		if strings.Join(gotLogs, ",") != strings.Join(wantLogs, ",") {
			col.Failf("penalty box / rate counter state seen by the request differs: reference %v, falco %v\n%s", wantLogs, gotLogs, ctx())
		}
		if strings.Contains(strings.Join(wantLogs, ","), "PB=1") {
			col.Label("persist:penaltybox-seen")
		}
		if strings.Contains(strings.Join(wantLogs, ","), "RC=") {
			col.Label("persist:ratecounter")
		}
	}
	return col.Done()
}

func c06PlanString(c C06Case) string {
	var lines []string
	for _, r := range c.Rules {
		l := fmt.Sprintf("req %d restarts %d %s: %q", r.Req, r.Restart, r.Sub, r.Action)
		if r.Cache != "" {
			l += " cache=" + r.Cache
		}
		if r.PBAdd {
			l += " pbadd"
		}
		if r.RCInc > 0 {
			l += fmt.Sprintf(" rc+=%d", r.RCInc)
		}
		lines = append(lines, l)
	}
	sort.Strings(lines)
	return strings.Join(lines, "\n") + "\nurls: " + strings.Join(c.URLs, " ")
}

// c06Key: classifier of known findings (filled in during triage).
func c06Key(c C06Case, want, got []string) string { return "" }
