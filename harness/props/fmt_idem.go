package props

import (
	"bytes"
	"os"
	"regexp"
	"sort"
	"strings"

	"github.com/ysugimoto/falco/v2/lexer"
	"github.com/ysugimoto/falco/v2/token"
)

var (
	reContIndent = regexp.MustCompile(`[ \t]*\n[ \t]*`)
	// padding in front of a trailing comment, of the `=` of a declaration property or the `:` of a table entry
	rePadComment = regexp.MustCompile(`([^ \t])[ \t]+(//|#|/\*|:|=)`)
	reJoinLines  = regexp.MustCompile(`[ \t]*\n[ \t]*`)
)

// flattenMultilineTokens rewrites every string literal and block comment that spans lines so that the white
// space around its line feeds is gone; everything outside those tokens is kept byte for byte. ok is false
// when a token cannot be located in the text (the caller then cannot narrow the attribution).
func flattenMultilineTokens(text string) (string, bool) {
	return flattenMultilineTokensWhere(text, false)
}

// flattenMultilineTokensWhere: with onlyInCondition only the tokens between the parentheses that follow
// `if` / `elseif` / `elsif` (statement or if() expression) are flattened.
func flattenMultilineTokensWhere(text string, onlyInCondition bool) (string, bool) {
	l := lexer.New(bytes.NewReader([]byte(text)))
	var b strings.Builder
	cur := 0
	afterIf, depth := false, 0
	for i := 0; i < 2*len(text)+8; i++ {
		t := l.NextToken()
		if t.Type == token.EOF {
			break
		}
		switch t.Type {
		case token.IF, token.ELSEIF, token.ELSIF:
			if depth == 0 {
				afterIf = true
			}
		case token.LEFT_PAREN:
			if afterIf || depth > 0 {
				depth++
			}
			afterIf = false
		case token.RIGHT_PAREN:
			if depth > 0 {
				depth--
			}
		case token.COMMENT:
		default:
			afterIf = false
		}
		if (t.Type != token.STRING && t.Type != token.COMMENT) || !strings.Contains(t.Literal, "\n") {
			continue
		}
		if onlyInCondition && depth == 0 {
			continue
		}
		at := strings.Index(text[cur:], t.Literal)
		if at < 0 {
			return "", false
		}
		b.WriteString(text[cur : cur+at])
		b.WriteString(reContIndent.ReplaceAllString(t.Literal, "\n"))
		cur += at + len(t.Literal)
	}
	b.WriteString(text[cur:])
	return b.String(), true
}

// collapseAlignmentPadding replaces, line by line, the run of blanks in front of a comment that follows code
// and in front of the `=` of a declaration property by one blank; indentation and line breaks are kept.
func collapseAlignmentPadding(text string) string {
	lines := strings.Split(text, "\n")
	for i, ln := range lines {
		ln = rePadComment.ReplaceAllString(ln, "$1 $2")
		lines[i] = strings.TrimRight(ln, " \t")
	}
	return strings.Join(lines, "\n")
}

func nonEmptySortedLines(s string) string {
	var ls []string
	for _, l := range strings.Split(s, "\n") {
		if strings.TrimSpace(l) != "" {
			ls = append(ls, l)
		}
	}
	sort.Strings(ls)
	return strings.Join(ls, "\n")
}

// idemKeyPositional attributes a difference between two formatting passes to a known finding by where the
// difference sits:
//   - fmt.multiline-token-reindented: the two outputs are equal once the white space around the line feeds
//     inside multi-line string literals / block comments is removed;
//   - fmt.alignment-padding-unstable: (alignment option on) equal once, in addition, the padding in front of
//     trailing comments, property `=` signs and table `:` signs is collapsed;
//   - fmt.sorted-property-groups-unstable: (sort option on) the non-empty lines of both outputs are the same
//     multiset, i.e. only their order and the empty lines between them differ.
const idemNotKnown = "!" // the difference is located, and it is not where any finding says

func idemKeyPositional(c FmtCase, out1, out2 string) string {
	f1, ok1 := flattenMultilineTokens(out1)
	f2, ok2 := flattenMultilineTokens(out2)
	if !ok1 || !ok2 {
		return ""
	}
	multiline := f1 != out1 || f2 != out2
	if multiline && f1 == f2 {
		// the finding is confined to conditions (their chunks are re-indented as a whole on every run);
		// a multi-line token anywhere else is stable on the unchanged tree
		c1, ok1 := flattenMultilineTokensWhere(out1, true)
		c2, ok2 := flattenMultilineTokensWhere(out2, true)
		if ok1 && ok2 && c1 == c2 {
			return "fmt.multiline-token-reindented"
		}
		return idemNotKnown
	}
	align := c.Conf.AlignTrailingComment || c.Conf.AlignDeclarationProperty
	if align && collapseAlignmentPadding(f1) == collapseAlignmentPadding(f2) {
		if os.Getenv("VERIF_SURVEY_ALIGN") == "1" {
			return "fmt.alignment-padding-unstable@" + firstDiffContext(out1, out2)
		}
		return "fmt.alignment-padding-unstable"
	}
	if c.Conf.SortDeclarationProperty {
		a, b := f1, f2
		if align {
			a, b = collapseAlignmentPadding(a), collapseAlignmentPadding(b)
		}
		if nonEmptySortedLines(a) == nonEmptySortedLines(b) {
			return "fmt.sorted-property-groups-unstable"
		}
	}
	return ""
}

// withoutUnstableFeatures returns the case without the three features that have known instabilities:
// multi-line string literals / block comments are joined into one line, sort_declaration_property and the
// two alignment options are switched off. ok is false when nothing changed or a token cannot be located.
func withoutUnstableFeatures(c FmtCase) (FmtCase, bool) {
	h := c
	changed := false
	l := lexer.New(bytes.NewReader([]byte(c.Src)))
	var b strings.Builder
	cur := 0
	for i := 0; i < 2*len(c.Src)+8; i++ {
		t := l.NextToken()
		if t.Type == token.EOF {
			break
		}
		if (t.Type != token.STRING && t.Type != token.COMMENT) || !strings.Contains(t.Literal, "\n") {
			continue
		}
		at := strings.Index(c.Src[cur:], t.Literal)
		if at < 0 {
			return c, false
		}
		b.WriteString(c.Src[cur : cur+at])
		b.WriteString(reJoinLines.ReplaceAllString(t.Literal, " "))
		cur += at + len(t.Literal)
		changed = true
	}
	b.WriteString(c.Src[cur:])
	h.Src = b.String()
	if h.Conf.SortDeclarationProperty || h.Conf.AlignTrailingComment || h.Conf.AlignDeclarationProperty {
		h.Conf.SortDeclarationProperty, h.Conf.AlignTrailingComment, h.Conf.AlignDeclarationProperty = false, false, false
		changed = true
	}
	return h, changed
}

var reRootKeyword = regexp.MustCompile(`^(sub|backend|acl|table|director|penaltybox|ratecounter)\b`)

// firstDiffContext names the root declaration kind that contains the first line on which the two outputs differ.
func firstDiffContext(out1, out2 string) string {
	a, b := strings.Split(out1, "\n"), strings.Split(out2, "\n")
	ctx := "root"
	for i := 0; i < len(a); i++ {
		if m := reRootKeyword.FindString(a[i]); m != "" {
			ctx = m
		}
		if i >= len(b) || a[i] != b[i] {
			return ctx
		}
	}
	return ctx
}
