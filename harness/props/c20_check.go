package props

import (
	"bytes"
	"encoding/json"
	"errors"
	"fmt"
	"os"
	"os/exec"
	"sort"
	"strconv"
	"strings"

	"github.com/ysugimoto/falco/v2/ast"
	"github.com/ysugimoto/falco/v2/lexer"
	"github.com/ysugimoto/falco/v2/parser"
	"github.com/ysugimoto/falco/v2/snippet"
	"github.com/ysugimoto/falco/v2/snippet/terraform"
	"github.com/ysugimoto/falco/v2/token"

	"verif/iso"
)

// ---------------------------------------------------------------------------
// (i) fake snippet.Fetcher over the case

type c20Fetcher struct{ c *C20Case }

func (f *c20Fetcher) LookupCache(bool) *snippet.Snippets { return nil }
func (f *c20Fetcher) WriteCache(*snippet.Snippets)       {}
func (f *c20Fetcher) LoggingEndpoints() ([]string, error) {
	return nil, nil
}

func (f *c20Fetcher) Backends() ([]*snippet.Backend, error) {
	var out []*snippet.Backend
	for _, b := range f.c.Backends {
		nb := &snippet.Backend{Name: b.Name}
		if b.Address != nil {
			a := *b.Address
			nb.Address = &a
		}
		if b.Shield != nil {
			s := *b.Shield
			nb.Shield = &s
		}
		out = append(out, nb)
	}
	return out, nil
}

func (f *c20Fetcher) Directors() ([]*snippet.Director, error) {
	var out []*snippet.Director
	for _, d := range f.c.Directors {
		out = append(out, &snippet.Director{Type: d.Type, Name: d.Name, Backends: append([]string{}, d.Backends...), Retries: d.Retries, Quorum: d.Quorum})
	}
	return out, nil
}

func (f *c20Fetcher) Dictionaries() ([]*snippet.Dictionary, error) {
	var out []*snippet.Dictionary
	for _, d := range f.c.Dicts {
		nd := &snippet.Dictionary{Name: d.Name}
		for _, it := range d.Items {
			nd.Items = append(nd.Items, &snippet.DictionaryItem{Key: it.K, Value: it.V})
		}
		out = append(out, nd)
	}
	return out, nil
}

func (f *c20Fetcher) Acls() ([]*snippet.Acl, error) {
	var out []*snippet.Acl
	for _, a := range f.c.Acls {
		na := &snippet.Acl{Name: a.Name}
		for _, e := range a.Entries {
			ne := &snippet.AclEntry{Ip: e.IP, Negated: e.Neg, Comment: e.Comment}
			if e.Subnet != nil {
				s := int64(*e.Subnet)
				ne.Subnet = &s
			}
			na.Entries = append(na.Entries, ne)
		}
		out = append(out, na)
	}
	return out, nil
}

func (f *c20Fetcher) Conditions() ([]*snippet.Condition, error) {
	var out []*snippet.Condition
	for _, c := range f.c.Conds {
		out = append(out, &snippet.Condition{Type: snippet.Phase(c.Type), Statement: c.Statement, Priority: int64(c.Priority), Name: c.Name})
	}
	return out, nil
}

func (f *c20Fetcher) Snippets() ([]*snippet.VCLSnippet, error) {
	var out []*snippet.VCLSnippet
	for _, s := range f.c.Snips {
		out = append(out, &snippet.VCLSnippet{Name: s.Name, Type: s.Type, Content: s.Content, Priority: int64(s.Priority)})
	}
	return out, nil
}

func (f *c20Fetcher) Headers() ([]*snippet.Header, error) {
	var out []*snippet.Header
	for _, h := range f.c.Headers {
		nh := &snippet.Header{
			Type: snippet.Phase(strings.ToUpper(h.Type)), Action: snippet.Action(h.Action), Name: h.Name,
			IgnoreIfSet: h.IgnoreIfSet, Priority: int64(h.Priority), Source: h.Source, Destination: h.Dest,
			Regex: h.Regex, Substitution: h.Subst,
		}
		if h.Cond != "" {
			c := h.Cond
			nh.Condition = &c
		}
		out = append(out, nh)
	}
	return out, nil
}

func (f *c20Fetcher) ResponseObjects() ([]*snippet.ResponseObject, error) {
	var out []*snippet.ResponseObject
	for _, r := range f.c.Resps {
		nr := &snippet.ResponseObject{Response: r.Response, RequestCondition: r.ReqCond, CacheCondition: r.CacheCond, Status: int64(r.Status), ContentType: r.ContentType, Name: r.Name}
		if r.Content != "" {
			c := r.Content
			nr.Content = &c
		}
		out = append(out, nr)
	}
	return out, nil
}

func (f *c20Fetcher) RequestSetting() (*snippet.RequestSetting, error) {
	switch f.c.Layout.ForceSSL {
	case 1:
		return &snippet.RequestSetting{ForceSSL: false}, nil
	case 2:
		return &snippet.RequestSetting{ForceSSL: true}, nil
	}
	return nil, nil
}

var _ snippet.Fetcher = (*c20Fetcher)(nil)

// ---------------------------------------------------------------------------
// (ii) Terraform plan JSON (shape of `terraform show -json <plan>`)

const c20MainVCL = `sub vcl_recv {
#FASTLY recv
  return (lookup);
}
sub vcl_hash {
#FASTLY hash
  return (hash);
}
sub vcl_hit {
#FASTLY hit
  return (deliver);
}
sub vcl_miss {
#FASTLY miss
  return (fetch);
}
sub vcl_pass {
#FASTLY pass
  return (pass);
}
sub vcl_fetch {
#FASTLY fetch
  return (deliver);
}
sub vcl_error {
#FASTLY error
  return (deliver);
}
sub vcl_deliver {
#FASTLY deliver
  return (deliver);
}
sub vcl_log {
#FASTLY log
}
`

type c20Module struct {
	Address   string       `json:"address,omitempty"`
	Resources []any        `json:"resources,omitempty"`
	Children  []*c20Module `json:"child_modules,omitempty"`
}

func c20Plan(c *C20Case) ([]byte, error) {
	const prov = "registry.terraform.io/fastly/fastly"
	const sid = "SVCid0001"
	svcType := "fastly_service_vcl"
	if c.Layout.V1 {
		svcType = "fastly_service_v1"
	}
	list := func() []any { return []any{} }

	acls, dicts, backends, directors := list(), list(), list(), list()
	snips, dyn, conds, headers, resps, reqs := list(), list(), list(), list(), list(), list()
	var entryRes []any

	res := func(typ, name string, index any, values map[string]any) map[string]any {
		m := map[string]any{"address": typ + "." + name, "mode": "managed", "type": typ, "name": name, "provider_name": prov, "schema_version": 0, "values": values}
		if index != nil {
			m["index"] = index
			m["address"] = fmt.Sprintf("%s.%s[%q]", typ, name, index)
		}
		return m
	}

	for i, a := range c.Acls {
		acls = append(acls, map[string]any{"name": a.Name, "acl_id": fmt.Sprintf("acl%d", i), "force_destroy": false})
		if len(a.Entries) == 0 && i%2 == 1 {
			continue // an ACL without an entries resource
		}
		es := list()
		for j, e := range a.Entries {
			var subnet any
			switch {
			case e.Subnet != nil:
				subnet = strconv.Itoa(*e.Subnet)
			case e.NullSubnet:
				subnet = nil
			default:
				subnet = ""
			}
			es = append(es, map[string]any{"id": fmt.Sprintf("e%d", j), "ip": e.IP, "subnet": subnet, "negated": e.Neg, "comment": e.Comment})
		}
		entryRes = append(entryRes, res("fastly_service_acl_entries", "entries", a.Name, map[string]any{"service_id": sid, "acl_id": fmt.Sprintf("acl%d", i), "entry": es, "manage_entries": false}))
	}
	for i, d := range c.Dicts {
		dicts = append(dicts, map[string]any{"name": d.Name, "dictionary_id": fmt.Sprintf("dict%d", i), "write_only": false, "force_destroy": false})
		if len(d.Items) == 0 && i%2 == 1 {
			continue
		}
		items := map[string]string{}
		for _, it := range d.Items {
			items[it.K] = it.V
		}
		entryRes = append(entryRes, res("fastly_service_dictionary_items", "items", d.Name, map[string]any{"service_id": sid, "dictionary_id": fmt.Sprintf("dict%d", i), "items": items, "manage_items": false}))
	}
	for _, b := range c.Backends {
		m := map[string]any{"name": b.Name, "port": 443, "use_ssl": true, "weight": 100, "override_host": "", "request_condition": ""}
		if b.Address != nil {
			m["address"] = *b.Address
		} else {
			m["address"] = nil
		}
		if b.Shield != nil {
			m["shield"] = *b.Shield
		} else {
			m["shield"] = nil
		}
		backends = append(backends, m)
	}
	for _, d := range c.Directors {
		directors = append(directors, map[string]any{"name": d.Name, "type": d.Type, "backends": append([]string{}, d.Backends...), "retries": d.Retries, "quorum": d.Quorum, "comment": "", "shield": ""})
	}
	for i, s := range c.Snips {
		if s.Dynamic {
			id := fmt.Sprintf("dynsnip%d", i)
			dyn = append(dyn, map[string]any{"name": s.Name, "type": s.Type, "priority": s.Priority, "snippet_id": id})
			entryRes = append(entryRes, res("fastly_service_dynamic_snippet_content", "content", s.Name, map[string]any{"service_id": sid, "snippet_id": id, "content": s.Content, "manage_snippets": true}))
		} else {
			snips = append(snips, map[string]any{"name": s.Name, "type": s.Type, "priority": s.Priority, "content": s.Content})
		}
	}
	for _, cd := range c.Conds {
		conds = append(conds, map[string]any{"name": cd.Name, "type": cd.Type, "statement": cd.Statement, "priority": cd.Priority})
	}
	for _, h := range c.Headers {
		m := map[string]any{"name": h.Name, "type": h.Type, "action": h.Action, "destination": h.Dest, "source": h.Source, "regex": h.Regex,
			"substitution": h.Subst, "ignore_if_set": h.IgnoreIfSet, "priority": h.Priority, "request_condition": "", "cache_condition": "", "response_condition": ""}
		if h.Cond != "" {
			m[map[string]string{"request": "request_condition", "cache": "cache_condition", "response": "response_condition"}[h.Type]] = h.Cond
		}
		headers = append(headers, m)
	}
	for _, r := range c.Resps {
		resps = append(resps, map[string]any{"name": r.Name, "status": r.Status, "response": r.Response, "content_type": r.ContentType, "content": r.Content,
			"request_condition": r.ReqCond, "cache_condition": r.CacheCond})
	}
	switch c.Layout.ForceSSL {
	case 1:
		reqs = append(reqs, map[string]any{"name": "rs", "force_ssl": false})
	case 2:
		reqs = append(reqs, map[string]any{"name": "rs", "force_ssl": true})
	}

	svc := res(svcType, "service", nil, map[string]any{
		"id": sid, "name": c.Service, "activate": true,
		"vcl":             []any{map[string]any{"name": "main", "main": true, "content": c20MainVCL}},
		"acl":             acls,
		"dictionary":      dicts,
		"backend":         backends,
		"director":        directors,
		"snippet":         snips,
		"dynamicsnippet":  dyn,
		"condition":       conds,
		"header":          headers,
		"response_object": resps,
		"request_setting": reqs,
		"logging_s3":      []any{map[string]any{"name": "s3-endpoint"}},
	})

	root := &c20Module{}
	place := func(depth int, branch string, rs ...any) {
		m := root
		for d := 1; d <= depth; d++ {
			addr := fmt.Sprintf("module.%s%d", branch, d)
			var next *c20Module
			for _, ch := range m.Children {
				if ch.Address == addr {
					next = ch
				}
			}
			if next == nil {
				next = &c20Module{Address: addr}
				m.Children = append(m.Children, next)
			}
			m = next
		}
		m.Resources = append(m.Resources, rs...)
	}

	if c.Layout.Foreign {
		// unrelated resources, and the same types from a provider that is not Fastly's
		place(0, "x", map[string]any{"address": "random_id.x", "mode": "managed", "type": "random_id", "name": "x", "provider_name": "registry.terraform.io/hashicorp/random", "values": map[string]any{"id": sid, "name": c.Service}})
		other := func(typ string, index string, values map[string]any) any {
			m := res(typ, "foreign", index, values)
			m["provider_name"] = "registry.terraform.io/acme/fastly"
			return m
		}
		if len(c.Dicts) > 0 {
			place(c.Layout.EntryDepth, "entries", other("fastly_service_dictionary_items", c.Dicts[0].Name, map[string]any{"service_id": sid, "items": map[string]string{"foreign-key": "foreign"}}))
		}
		if len(c.Acls) > 0 {
			place(0, "x", other("fastly_service_acl_entries", c.Acls[0].Name, map[string]any{"service_id": sid, "entry": []any{map[string]any{"ip": "198.51.100.7", "subnet": "32", "negated": false, "comment": "foreign"}}}))
		}
	}
	if c.Layout.Decoy {
		const did = "DECOYid02"
		dv := map[string]any{"id": did, "name": "zz-decoy", "vcl": []any{map[string]any{"name": "main", "main": true, "content": c20MainVCL}}, "backend": []any{map[string]any{"name": "decoy backend", "address": "decoy.example.com", "shield": "decoy-pop"}},
			"director": []any{map[string]any{"name": "decoy-director", "type": 1, "backends": []string{}, "retries": 5, "quorum": 75}},
			"snippet":  []any{map[string]any{"name": "decoy snippet", "type": "recv", "priority": 1, "content": "set req.http.Decoy = \"1\";"}}}
		var dres []any
		if len(c.Dicts) > 0 {
			dv["dictionary"] = []any{map[string]any{"name": c.Dicts[0].Name}}
			dres = append(dres, res("fastly_service_dictionary_items", "decoy_items", c.Dicts[0].Name, map[string]any{"service_id": did, "items": map[string]string{"decoy-key": "decoy"}}))
		}
		if len(c.Acls) > 0 {
			dv["acl"] = []any{map[string]any{"name": c.Acls[0].Name}}
			dres = append(dres, res("fastly_service_acl_entries", "decoy_entries", c.Acls[0].Name, map[string]any{"service_id": did, "entry": []any{map[string]any{"ip": "203.0.113.99", "subnet": "32", "negated": true, "comment": "decoy"}}}))
		}
		place(c.Layout.SvcDepth, "decoy", res("fastly_service_vcl", "decoy", nil, dv))
		place(c.Layout.EntryDepth, "entries", dres...)
	}
	place(c.Layout.SvcDepth, "svc", svc)
	place(c.Layout.EntryDepth, "entries", entryRes...)

	plan := map[string]any{"format_version": "1.2", "terraform_version": "1.9.0", "planned_values": map[string]any{"root_module": root}}
	var buf bytes.Buffer
	enc := json.NewEncoder(&buf)
	enc.SetEscapeHTML(false)
	if err := enc.Encode(plan); err != nil {
		return nil, err
	}
	return buf.Bytes(), nil
}

// ---------------------------------------------------------------------------
// Oracle

type c20Fail struct {
	path string // fake | tf | api | api-cache
	kind string // dict acl backend shield director header resp snippet include other
	name string
	sig  string // parse | mismatch | count | extra | fetch
	msg  string
	// evidence for the classifiers
	parseErr       string
	parseAtPct     bool // the parse error is located at a string literal that contains %
	pctOnlyDiff    bool // dict: the pairs that differ all contain %; all other pairs are right
	cleanMembersOK bool // director: name right, members that need no sanitising right
	errorScope     bool // resp: failure is in the error-scope item (synthetic body)
}

type c20Verifier struct {
	c     *C20Case
	path  string
	fails []c20Fail
}

func (v *c20Verifier) fail(f c20Fail) {
	f.path = v.path
	v.fails = append(v.fails, f)
}

func (v *c20Verifier) failf(kind, name, sig, format string, a ...any) {
	v.fail(c20Fail{kind: kind, name: name, sig: sig, msg: fmt.Sprintf(format, a...)})
}

func c20ParseVCL(src string) (stmts []ast.Statement, err error) {
	defer func() {
		if r := recover(); r != nil {
			err = fmt.Errorf("PANIC in parser: %v", r)
		}
	}()
	vcl, err := parser.New(lexer.NewFromString(src)).ParseVCL()
	if err != nil {
		return nil, err
	}
	return vcl.Statements, nil
}

func c20ParseSnippet(src string) (stmts []ast.Statement, err error) {
	defer func() {
		if r := recover(); r != nil {
			err = fmt.Errorf("PANIC in parser: %v", r)
		}
	}()
	return parser.New(lexer.NewFromString(src)).ParseSnippetVCL()
}

// c20ErrAtPctString reports whether err is a parse error located at a string
// token whose literal contains a percent sign (the escape decoder rejected it).
func c20ErrAtPctString(err error) bool {
	var pe *parser.ParseError
	if !errors.As(err, &pe) || pe == nil {
		return false
	}
	return pe.Token.Type == token.STRING && strings.Contains(pe.Token.Literal, "%")
}

func c20Clip(s string) string {
	if len(s) > 600 {
		return s[:300] + " … " + s[len(s)-300:]
	}
	return s
}

func (c *C20Case) shieldNames() []string {
	seen := map[string]bool{}
	var out []string
	for _, b := range c.Backends {
		if b.Shield != nil && *b.Shield != "" {
			n := "ssl_shield_" + c20Sanitise(*b.Shield)
			if !seen[n] {
				seen[n] = true
				out = append(out, n)
			}
		}
	}
	sort.Strings(out)
	return out
}

// origin maps the name of an embedded item to the resource it was generated from.
func (v *c20Verifier) origin(it snippet.Item) (kind, name string) {
	c := v.c
	for _, s := range c.Snips {
		if s.Type == "init" && it.Name == s.Name {
			return "snippet", s.Name
		}
	}
	switch {
	case strings.HasPrefix(it.Name, "Remote.EdgeDictionary:"):
		return "dict", strings.TrimPrefix(it.Name, "Remote.EdgeDictionary:")
	case strings.HasPrefix(it.Name, "Remote.Acl:"):
		return "acl", strings.TrimPrefix(it.Name, "Remote.Acl:")
	case strings.HasPrefix(it.Name, "Remote.Backend:"):
		return "backend", strings.TrimPrefix(it.Name, "Remote.Backend:")
	case strings.HasPrefix(it.Name, "Remote.Director:"):
		n := strings.TrimPrefix(it.Name, "Remote.Director:")
		for _, d := range c.Directors {
			if d.Name == n {
				return "director", n
			}
		}
		return "shield", n
	}
	return "other", it.Name
}

func c20IntValue(e ast.Expression) (int64, bool) {
	if i, ok := e.(*ast.Integer); ok {
		return i.Value, true
	}
	return 0, false
}

func c20StrValue(e ast.Expression) (string, bool) {
	if s, ok := e.(*ast.String); ok {
		return s.Value, true
	}
	return "", false
}

// verifyEmbedded checks the items returned by EmbedSnippets.
func (v *c20Verifier) verifyEmbedded(items []snippet.Item) {
	c := v.c
	seen := map[string]int{}
	for _, it := range items {
		kind, name := v.origin(it)
		seen[kind+"/"+name]++
		if kind == "other" {
			v.failf(kind, name, "extra", "embedded item %q does not come from any resource of the input:\n%s", it.Name, c20Clip(it.Data))
			continue
		}
		stmts, err := c20ParseVCL(it.Data)
		if err != nil {
			v.fail(c20Fail{kind: kind, name: name, sig: "parse", parseErr: err.Error(), parseAtPct: c20ErrAtPctString(err),
				msg: fmt.Sprintf("generated VCL for %s %q does not parse: %v\n--- generated ---\n%s", kind, name, err, c20Clip(it.Data))})
			continue
		}
		switch kind {
		case "snippet":
			for _, s := range c.Snips {
				if s.Type == "init" && s.Name == name && s.Content != it.Data {
					v.failf(kind, name, "mismatch", "init snippet %q embedded with different content:\n%s", name, c20Clip(it.Data))
				}
			}
			continue
		}
		if len(stmts) != 1 {
			v.fail(c20Fail{kind: kind, name: name, sig: "mismatch",
				msg: fmt.Sprintf("generated VCL for %s %q declares %d things instead of one\n--- generated ---\n%s", kind, name, len(stmts), c20Clip(it.Data))})
			continue
		}
		switch kind {
		case "dict":
			v.verifyDict(name, stmts[0], it.Data)
		case "acl":
			v.verifyAcl(name, stmts[0], it.Data)
		case "backend":
			v.verifyBackend(name, stmts[0], it.Data)
		case "director":
			v.verifyDirector(name, stmts[0], it.Data)
		case "shield":
			v.verifyShield(name, stmts[0], it.Data)
		}
	}
	expect := func(kind, name string) {
		if n := seen[kind+"/"+name]; n != 1 {
			v.failf(kind, name, "count", "%s %q has %d generated items, want exactly 1", kind, name, n)
		}
		delete(seen, kind+"/"+name)
	}
	for _, d := range c.Dicts {
		expect("dict", d.Name)
	}
	for _, a := range c.Acls {
		expect("acl", a.Name)
	}
	for _, b := range c.Backends {
		expect("backend", b.Name)
	}
	for _, d := range c.Directors {
		expect("director", d.Name)
	}
	for _, s := range c.shieldNames() {
		expect("shield", s)
	}
	for _, s := range c.Snips {
		if s.Type == "init" {
			expect("snippet", s.Name)
		}
	}
	var rest []string
	for k, n := range seen {
		if !strings.HasPrefix(k, "other/") && n > 0 {
			rest = append(rest, k)
		}
	}
	sort.Strings(rest)
	for _, k := range rest {
		kind, name, _ := strings.Cut(k, "/")
		v.failf(kind, name, "extra", "generated item for %s %q, which is not in the input", kind, name)
	}
}

func (v *c20Verifier) verifyDict(name string, st ast.Statement, data string) {
	var d *C20Dict
	for i := range v.c.Dicts {
		if v.c.Dicts[i].Name == name {
			d = &v.c.Dicts[i]
		}
	}
	if d == nil {
		return // reported as extra by the count check
	}
	t, ok := st.(*ast.TableDeclaration)
	if !ok {
		v.failf("dict", name, "mismatch", "dictionary %q generated a %T, not a table\n%s", name, st, c20Clip(data))
		return
	}
	if t.Name == nil || t.Name.Value != d.Name {
		v.failf("dict", name, "mismatch", "dictionary %q declared as table %q", name, t.Name.Value)
		return
	}
	if t.ValueType != nil && t.ValueType.Value != "STRING" {
		v.failf("dict", name, "mismatch", "dictionary %q declared with value type %s", name, t.ValueType.Value)
	}
	pair := func(k, val string) string { return strconv.Quote(k) + ": " + strconv.Quote(val) }
	var want, got []string
	for _, it := range d.Items {
		want = append(want, pair(it.K, it.V))
	}
	for _, p := range t.Properties {
		val, ok := c20StrValue(p.Value)
		if !ok {
			v.failf("dict", name, "mismatch", "dictionary %q: value of key %q is a %T, not a string", name, p.Key.Value, p.Value)
			return
		}
		got = append(got, pair(p.Key.Value, val))
	}
	sort.Strings(want)
	sort.Strings(got)
	if strings.Join(want, "\n") == strings.Join(got, "\n") {
		return
	}
	// which pairs differ
	cnt := map[string]int{}
	for _, g := range got {
		cnt[g]++
	}
	var missing []string
	pctOnly := len(want) == len(got)
	for _, it := range d.Items {
		p := pair(it.K, it.V)
		if cnt[p] > 0 {
			cnt[p]--
			continue
		}
		missing = append(missing, p)
		if !strings.Contains(it.K, "%") && !strings.Contains(it.V, "%") {
			pctOnly = false
		}
	}
	var surplus []string
	for _, g := range got {
		if cnt[g] > 0 {
			cnt[g]--
			surplus = append(surplus, g)
		}
	}
	v.fail(c20Fail{kind: "dict", name: name, sig: "mismatch", pctOnlyDiff: pctOnly,
		msg: fmt.Sprintf("table %q does not hold the dictionary's items (key: decoded value)\n input only: %s\n table only: %s\n--- generated ---\n%s",
			name, c20Clip(strings.Join(missing, ", ")), c20Clip(strings.Join(surplus, ", ")), c20Clip(data))})
}

func c20EntryString(ip string, mask *int64, neg bool) string {
	s := ""
	if neg {
		s = "!"
	}
	s += strconv.Quote(ip)
	if mask != nil {
		s += "/" + strconv.FormatInt(*mask, 10)
	}
	return s
}

func (v *c20Verifier) verifyAcl(name string, st ast.Statement, data string) {
	var a *C20Acl
	for i := range v.c.Acls {
		if v.c.Acls[i].Name == name {
			a = &v.c.Acls[i]
		}
	}
	if a == nil {
		return
	}
	d, ok := st.(*ast.AclDeclaration)
	if !ok {
		v.failf("acl", name, "mismatch", "ACL %q generated a %T, not an acl\n%s", name, st, c20Clip(data))
		return
	}
	if d.Name == nil || d.Name.Value != a.Name {
		v.failf("acl", name, "mismatch", "ACL %q declared as acl %q", name, d.Name.Value)
		return
	}
	var want, got []string
	for _, e := range a.Entries {
		var m *int64
		if e.Subnet != nil {
			x := int64(*e.Subnet)
			m = &x
		}
		want = append(want, c20EntryString(e.IP, m, e.Neg))
	}
	for _, cd := range d.CIDRs {
		var m *int64
		if cd.Mask != nil {
			x := cd.Mask.Value
			m = &x
		}
		ip := ""
		if cd.IP != nil {
			ip = cd.IP.Value
		}
		got = append(got, c20EntryString(ip, m, cd.Inverse != nil && cd.Inverse.Value))
	}
	if strings.Join(want, "\n") == strings.Join(got, "\n") {
		return
	}
	v.fail(c20Fail{kind: "acl", name: name, sig: "mismatch",
		msg: fmt.Sprintf("acl %q does not hold the ACL's entries (negation, address, mask; in order)\n input: %s\n   acl: %s\n--- generated ---\n%s",
			name, c20Clip(strings.Join(want, " ")), c20Clip(strings.Join(got, " ")), c20Clip(data))})
}

func (v *c20Verifier) verifyBackend(name string, st ast.Statement, data string) {
	var b *C20Backend
	for i := range v.c.Backends {
		if v.c.Backends[i].Name == name {
			b = &v.c.Backends[i]
		}
	}
	if b == nil {
		return
	}
	d, ok := st.(*ast.BackendDeclaration)
	if !ok {
		v.failf("backend", name, "mismatch", "backend %q generated a %T, not a backend\n%s", name, st, c20Clip(data))
		return
	}
	if want := "F_" + c20Sanitise(b.Name); d.Name == nil || d.Name.Value != want {
		v.failf("backend", name, "mismatch", "backend %q declared as %q, want %q (F_ + name with every non-identifier character replaced by _)", name, d.Name.Value, want)
	}
	var hosts []string
	for _, p := range d.Properties {
		if p.Key != nil && p.Key.Value == "host" {
			s, ok := c20StrValue(p.Value)
			if !ok {
				s = fmt.Sprintf("<%T>", p.Value)
			}
			hosts = append(hosts, s)
		}
	}
	switch {
	case b.Address != nil && (len(hosts) != 1 || hosts[0] != *b.Address):
		v.failf("backend", name, "mismatch", "backend %q: .host is %q, want [%q]", name, hosts, *b.Address)
	case b.Address == nil && len(hosts) != 0:
		v.failf("backend", name, "mismatch", "backend %q has no address but .host is %q", name, hosts)
	}
}

func (v *c20Verifier) verifyDirector(name string, st ast.Statement, data string) {
	var r *C20Director
	for i := range v.c.Directors {
		if v.c.Directors[i].Name == name {
			r = &v.c.Directors[i]
		}
	}
	if r == nil {
		return
	}
	d, ok := st.(*ast.DirectorDeclaration)
	if !ok {
		v.failf("director", name, "mismatch", "director %q generated a %T, not a director\n%s", name, st, c20Clip(data))
		return
	}
	nameOK := d.Name != nil && d.Name.Value == c20Sanitise(r.Name)
	if !nameOK {
		v.failf("director", name, "mismatch", "director %q declared as %q, want %q", name, d.Name.Value, c20Sanitise(r.Name))
	}
	if r.Type == 1 && (d.DirectorType == nil || d.DirectorType.Value != "random") {
		v.failf("director", name, "mismatch", "director %q of type 1 (random) declared as %q", name, d.DirectorType.Value)
	}
	var members []string
	for _, p := range d.Properties {
		switch x := p.(type) {
		case *ast.DirectorProperty:
			switch x.Key.Value {
			case "quorum":
				pe, ok := x.Value.(*ast.PostfixExpression)
				var n int64 = -1
				if ok && pe.Operator == "%" {
					n, _ = c20IntValue(pe.Left)
				}
				if n != int64(r.Quorum) {
					v.failf("director", name, "mismatch", "director %q: .quorum is %s, want %d%%", name, x.Value.String(), r.Quorum)
				}
			case "retries":
				if n, ok := c20IntValue(x.Value); !ok || n != int64(r.Retries) {
					v.failf("director", name, "mismatch", "director %q: .retries is %s, want %d", name, x.Value.String(), r.Retries)
				}
			}
		case *ast.DirectorBackendObject:
			n := 0
			for _, q := range x.Values {
				if q.Key.Value == "backend" {
					n++
					if id, ok := q.Value.(*ast.Ident); ok {
						members = append(members, id.Value)
					} else {
						members = append(members, fmt.Sprintf("<%T %s>", q.Value, q.Value.String()))
					}
				}
			}
			if n != 1 {
				members = append(members, fmt.Sprintf("<member object with %d .backend fields>", n))
			}
		}
	}
	var want []string
	cleanOK := nameOK && len(members) == len(r.Backends)
	cnt := map[string]int{}
	for _, m := range members {
		cnt[m]++
	}
	for _, b := range r.Backends {
		w := "F_" + c20Sanitise(b)
		want = append(want, w)
		if !c20NeedsSanitising(b) {
			if cnt[w] == 0 {
				cleanOK = false
			}
			cnt[w]--
		}
	}
	got := append([]string{}, members...)
	sort.Strings(want)
	sort.Strings(got)
	if strings.Join(want, "\n") != strings.Join(got, "\n") {
		v.fail(c20Fail{kind: "director", name: name, sig: "mismatch", cleanMembersOK: cleanOK,
			msg: fmt.Sprintf("director %q: members do not refer to the declarations of its backends\n want: %s\n  got: %s\n--- generated ---\n%s",
				name, strings.Join(want, " "), strings.Join(got, " "), c20Clip(data))})
	}
}

func (v *c20Verifier) verifyShield(name string, st ast.Statement, data string) {
	d, ok := st.(*ast.DirectorDeclaration)
	if !ok {
		v.failf("shield", name, "mismatch", "shield director item %q generated a %T\n%s", name, st, c20Clip(data))
		return
	}
	if d.Name == nil || d.Name.Value != name || d.DirectorType == nil || d.DirectorType.Value != "shield" || len(d.Properties) != 0 {
		v.failf("shield", name, "mismatch", "shield director %q declared as `director %s %s` with %d properties", name, d.Name.Value, d.DirectorType.Value, len(d.Properties))
	}
}

// --- scoped snippets: VCL snippets, header rules, response objects ----------

type c20Walk struct {
	ifs, sets, unsets, errors, synthetics, returns int
	setTargets, unsetTargets                       []string
	setValues                                      []ast.Expression
	errorCodes                                     []int64
	syntheticValues                                []ast.Expression
}

func (w *c20Walk) walk(ss []ast.Statement) {
	var all []ast.Statement
	allStatements(ss, 0, &all)
	for _, s := range all {
		switch x := s.(type) {
		case *ast.IfStatement:
			w.ifs++
		case *ast.SetStatement:
			w.sets++
			w.setTargets = append(w.setTargets, x.Ident.Value)
			w.setValues = append(w.setValues, x.Value)
		case *ast.UnsetStatement:
			w.unsets++
			w.unsetTargets = append(w.unsetTargets, x.Ident.Value)
		case *ast.ErrorStatement:
			w.errors++
			if n, ok := c20IntValue(x.Code); ok {
				w.errorCodes = append(w.errorCodes, n)
			}
		case *ast.SyntheticStatement:
			w.synthetics++
			w.syntheticValues = append(w.syntheticValues, x.Value)
		case *ast.ReturnStatement:
			w.returns++
		}
	}
}

var c20PhaseObject = map[string]string{"request": "req", "cache": "beresp", "response": "resp"}
var c20PhaseScope = map[string]string{"request": "recv", "cache": "fetch", "response": "deliver"}

func (v *c20Verifier) verifyHeader(h *C20Header, it snippet.Item) {
	ss, err := c20ParseSnippet(it.Data)
	if err != nil {
		v.fail(c20Fail{kind: "header", name: h.Name, sig: "parse", parseErr: err.Error(),
			msg: fmt.Sprintf("generated VCL for header rule %q does not parse: %v\n--- generated ---\n%s", h.Name, err, c20Clip(it.Data))})
		return
	}
	var w c20Walk
	w.walk(ss)
	// Skeleton only (the exact shape of the generated statements is falco's
	// choice): the rule writes to its destination and to nothing else, a set-like
	// action sets, delete unsets, a condition and ignore_if_set each need an if,
	// a regex action calls regsub/regsuball with the rule's pattern and substitution.
	target := c20PhaseObject[h.Type] + "." + h.Dest
	minIfs := 0
	if h.Cond != "" {
		minIfs++
	}
	if h.IgnoreIfSet {
		minIfs++
	}
	bad := w.ifs < minIfs || w.errors+w.synthetics+w.returns != 0
	switch h.Action {
	case "delete":
		bad = bad || w.unsets < 1 || w.sets != 0
	default:
		bad = bad || w.sets < 1 || w.unsets != 0
	}
	for _, t := range append(append([]string{}, w.setTargets...), w.unsetTargets...) {
		if t != target {
			bad = true
		}
	}
	if !bad && (h.Action == "regex" || h.Action == "regex_repeat") {
		fn := map[string]string{"regex": "regsub", "regex_repeat": "regsuball"}[h.Action]
		call, ok := w.setValues[0].(*ast.FunctionCallExpression)
		if !ok || call.Function.Value != fn || len(call.Arguments) != 3 {
			bad = true
		} else {
			re, ok1 := c20StrValue(call.Arguments[1])
			sub, ok2 := c20StrValue(call.Arguments[2])
			if !ok1 || !ok2 || re != h.Regex || sub != h.Subst {
				bad = true
			}
		}
	}
	if bad {
		v.failf("header", h.Name, "mismatch", "header rule %q (%s %s on %s, ignore_if_set=%v, condition=%q) rendered as %d set / %d unset / %d if on %v %v\n--- generated ---\n%s",
			h.Name, h.Action, h.Type, target, h.IgnoreIfSet, h.Cond, w.sets, w.unsets, w.ifs, w.setTargets, w.unsetTargets, c20Clip(it.Data))
	}
}

func (v *c20Verifier) verifyRespCond(r *C20Resp, it snippet.Item) (code int64, ok bool) {
	ss, err := c20ParseSnippet(it.Data)
	if err != nil {
		v.fail(c20Fail{kind: "resp", name: r.Name, sig: "parse", parseErr: err.Error(),
			msg: fmt.Sprintf("generated trigger for response object %q does not parse: %v\n--- generated ---\n%s", r.Name, err, c20Clip(it.Data))})
		return 0, false
	}
	var w c20Walk
	w.walk(ss)
	wantIfs := 0
	if r.ReqCond != "" || r.CacheCond != "" {
		wantIfs = 1
	}
	if w.errors != 1 || len(w.errorCodes) != 1 || w.ifs != wantIfs || w.sets+w.unsets+w.synthetics != 0 {
		v.failf("resp", r.Name, "mismatch", "trigger of response object %q rendered as %d error / %d if\n--- generated ---\n%s", r.Name, w.errors, w.ifs, c20Clip(it.Data))
		return 0, false
	}
	return w.errorCodes[0], true
}

func (v *c20Verifier) verifyRespBody(r *C20Resp, it snippet.Item) (code int64, ok bool) {
	ss, err := c20ParseSnippet(it.Data)
	if err != nil {
		v.fail(c20Fail{kind: "resp", name: r.Name, sig: "parse", parseErr: err.Error(), errorScope: true,
			msg: fmt.Sprintf("generated vcl_error handler for response object %q does not parse: %v\n--- generated ---\n%s", r.Name, err, c20Clip(it.Data))})
		return 0, false
	}
	mismatch := func(format string, a ...any) (int64, bool) {
		v.fail(c20Fail{kind: "resp", name: r.Name, sig: "mismatch", errorScope: true,
			msg: fmt.Sprintf("vcl_error handler of response object %q: ", r.Name) + fmt.Sprintf(format, a...) + "\n--- generated ---\n" + c20Clip(it.Data)})
		return 0, false
	}
	if len(ss) != 1 {
		return mismatch("%d top-level statements, want one if", len(ss))
	}
	ifs, isIf := ss[0].(*ast.IfStatement)
	if !isIf {
		return mismatch("top-level statement is a %T", ss[0])
	}
	cond, isInfix := ifs.Condition.(*ast.InfixExpression)
	if !isInfix || cond.Operator != "==" {
		return mismatch("condition is %s", ifs.Condition.String())
	}
	if id, isID := cond.Left.(*ast.Ident); !isID || id.Value != "obj.status" {
		return mismatch("condition is %s", ifs.Condition.String())
	}
	code, isInt := c20IntValue(cond.Right)
	if !isInt {
		return mismatch("condition is %s", ifs.Condition.String())
	}
	var w c20Walk
	w.walk(ss)
	if w.synthetics != 1 || w.errors != 0 {
		return mismatch("%d synthetic / %d error statements", w.synthetics, w.errors)
	}
	statusSet := false
	for i, t := range w.setTargets {
		switch t {
		case "obj.status":
			if n, isInt := c20IntValue(w.setValues[i]); !isInt || n != int64(r.Status) {
				return mismatch("obj.status set to %s, want %d", w.setValues[i].String(), r.Status)
			}
			statusSet = true
		case "obj.http.Content-Type":
			if s, isStr := c20StrValue(w.setValues[i]); !isStr || s != r.ContentType {
				return mismatch("Content-Type set to %s, want %q", w.setValues[i].String(), r.ContentType)
			}
		}
	}
	if !statusSet {
		return mismatch("obj.status is not set to %d", r.Status)
	}
	if r.Content != "" {
		if s, isStr := c20StrValue(w.syntheticValues[0]); !isStr || s != r.Content {
			return mismatch("synthetic body is %s, want %q", c20Clip(w.syntheticValues[0].String()), c20Clip(r.Content))
		}
	}
	return code, true
}

func (v *c20Verifier) verifyScoped(s *snippet.Snippets) {
	c := v.c
	type want struct {
		kind, name string
		seen       int
	}
	wants := map[string][]*want{} // scope -> expected items
	add := func(scope, kind, name string) { wants[scope] = append(wants[scope], &want{kind: kind, name: name}) }
	for _, sn := range c.Snips {
		if sn.Type != "none" {
			add(sn.Type, "snippet", sn.Name)
		}
	}
	for _, h := range c.Headers {
		add(c20PhaseScope[h.Type], "header", h.Name)
	}
	for _, r := range c.Resps {
		if r.CacheCond != "" {
			add("fetch", "respcond", r.Name)
		} else {
			add("recv", "respcond", r.Name)
		}
		add("error", "resp", r.Name)
	}
	if c.Layout.ForceSSL == 2 && c.Layout.TLS {
		add("recv", "forcessl", "")
		add("error", "forcessl", "")
	}
	condCode := map[string]int64{}
	bodyCode := map[string]int64{}
	var scopes []string
	for sc := range s.ScopedSnippets {
		scopes = append(scopes, sc)
	}
	sort.Strings(scopes)
	for _, sc := range scopes {
		for _, it := range s.ScopedSnippets[sc] {
			kind, name := "snippet", it.Name
			switch {
			case strings.HasPrefix(it.Name, "Remote.Header:"):
				kind, name = "header", strings.TrimPrefix(it.Name, "Remote.Header:")
			case strings.HasPrefix(it.Name, "Remote.ResponseObject.Condition:"):
				kind, name = "respcond", strings.TrimPrefix(it.Name, "Remote.ResponseObject.Condition:")
			case strings.HasPrefix(it.Name, "Remote.ResponseObject:"):
				kind, name = "resp", strings.TrimPrefix(it.Name, "Remote.ResponseObject:")
			case it.Name == "Remote.ForceSSL":
				kind, name = "forcessl", ""
			}
			var w *want
			for _, x := range wants[sc] {
				if x.kind == kind && x.name == name && x.seen == 0 {
					w = x
					break
				}
			}
			if w == nil {
				fk := kind
				if kind == "respcond" {
					fk = "resp"
				}
				v.failf(fk, name, "extra", "scope %q holds an item %q that no resource of the input accounts for:\n%s", sc, it.Name, c20Clip(it.Data))
				continue
			}
			w.seen++
			switch kind {
			case "snippet":
				for i := range c.Snips {
					sn := &c.Snips[i]
					if sn.Name != name {
						continue
					}
					if it.Data != sn.Content {
						v.failf("snippet", name, "mismatch", "VCL snippet %q (%s) embedded with different content:\n%s", name, sc, c20Clip(it.Data))
						continue
					}
					var err error
					if sc == "init" {
						_, err = c20ParseVCL(it.Data)
					} else {
						_, err = c20ParseSnippet(it.Data)
					}
					if err != nil {
						v.failf("snippet", name, "parse", "VCL snippet %q (%s) does not parse: %v\n%s", name, sc, err, c20Clip(it.Data))
					}
				}
			case "header":
				for i := range c.Headers {
					if c.Headers[i].Name == name {
						v.verifyHeader(&c.Headers[i], it)
					}
				}
			case "respcond":
				for i := range c.Resps {
					if c.Resps[i].Name == name {
						if code, ok := v.verifyRespCond(&c.Resps[i], it); ok {
							condCode[name] = code
						}
					}
				}
			case "resp":
				for i := range c.Resps {
					if c.Resps[i].Name == name {
						if code, ok := v.verifyRespBody(&c.Resps[i], it); ok {
							bodyCode[name] = code
						}
					}
				}
			case "forcessl":
				if _, err := c20ParseSnippet(it.Data); err != nil {
					v.failf("other", "ForceSSL", "parse", "force-SSL snippet (%s) does not parse: %v", sc, err)
				}
			}
		}
	}
	var wscopes []string
	for sc := range wants {
		wscopes = append(wscopes, sc)
	}
	sort.Strings(wscopes)
	for _, sc := range wscopes {
		for _, w := range wants[sc] {
			if w.seen != 1 {
				fk := w.kind
				if fk == "respcond" {
					fk = "resp"
				}
				v.failf(fk, w.name, "count", "scope %q: expected one item for %s %q, found %d", sc, w.kind, w.name, w.seen)
			}
		}
	}
	// the trigger and the handler of a response object must use the same,
	// otherwise unused, internal status
	used := map[int64]string{}
	for _, r := range c.Resps {
		cc, ok1 := condCode[r.Name]
		bc, ok2 := bodyCode[r.Name]
		if !ok1 || !ok2 {
			continue
		}
		if cc != bc {
			v.failf("resp", r.Name, "mismatch", "response object %q is triggered with error %d but handled at obj.status == %d", r.Name, cc, bc)
		}
		if other, dup := used[bc]; dup {
			v.failf("resp", r.Name, "mismatch", "response objects %q and %q share the internal status %d", other, r.Name, bc)
		}
		used[bc] = r.Name
	}
	// include ("none") snippets
	wantInc := map[string]string{}
	for _, sn := range c.Snips {
		if sn.Type == "none" {
			wantInc[sn.Name] = sn.Content
		}
	}
	var incNames []string
	for n := range s.IncludeSnippets {
		incNames = append(incNames, n)
	}
	sort.Strings(incNames)
	for _, n := range incNames {
		content, ok := wantInc[n]
		if !ok {
			v.failf("include", n, "extra", "include snippet %q is not in the input", n)
			continue
		}
		delete(wantInc, n)
		if s.IncludeSnippets[n].Data != content {
			v.failf("include", n, "mismatch", "include snippet %q has different content:\n%s", n, c20Clip(s.IncludeSnippets[n].Data))
		} else if _, err := c20ParseSnippet(content); err != nil {
			v.failf("include", n, "parse", "include snippet %q does not parse: %v", n, err)
		}
	}
	var missing []string
	for n := range wantInc {
		missing = append(missing, n)
	}
	sort.Strings(missing)
	for _, n := range missing {
		v.failf("include", n, "count", "include snippet %q is missing", n)
	}
}

// c20RunPath drives falco's public entry points for one fetcher.
func c20RunPath(c *C20Case, path string, mk func() (snippet.Fetcher, error)) (fails []c20Fail) {
	v := &c20Verifier{c: c, path: path}
	defer func() {
		if r := recover(); r != nil {
			v.failf("other", "", "fetch", "PANIC while generating VCL (%s path): %v", path, r)
		}
		fails = v.fails
	}()
	f, err := mk()
	if err != nil {
		v.failf("other", "", "fetch", "%s path: resources rejected: %v", path, err)
		return
	}
	s, err := snippet.Fetch(f)
	if err != nil {
		v.failf("other", "", "fetch", "%s path: snippet.Fetch failed: %v", path, err)
		return
	}
	items, err := s.EmbedSnippets(c.Layout.TLS)
	if err != nil {
		v.failf("other", "", "fetch", "%s path: EmbedSnippets failed: %v", path, err)
		return
	}
	v.verifyEmbedded(items)
	v.verifyScoped(s)
	return
}

// ---------------------------------------------------------------------------
// Known-finding classifiers: (feature of the input resource) ∧ (signature of
// the failure). A failure that does not satisfy both stays a violation.

func c20HasAny(s string, subs ...string) bool {
	for _, x := range subs {
		if strings.Contains(s, x) {
			return true
		}
	}
	return false
}

func (c *C20Case) dictFeature(name string) (quote, pct bool) {
	for _, d := range c.Dicts {
		if d.Name != name {
			continue
		}
		for _, it := range d.Items {
			if c20HasAny(it.K, "\"") || c20HasAny(it.V, "\"") {
				quote = true
			}
			if c20HasAny(it.K, "%") || c20HasAny(it.V, "%") {
				pct = true
			}
		}
	}
	return
}

func (c *C20Case) aclCommentNewline(name string) bool {
	for _, a := range c.Acls {
		if a.Name != name {
			continue
		}
		for _, e := range a.Entries {
			if strings.Contains(e.Comment, "\n") {
				return true
			}
		}
	}
	return false
}

func (c *C20Case) directorDirtyMember(name string) bool {
	for _, d := range c.Directors {
		if d.Name != name {
			continue
		}
		for _, b := range d.Backends {
			if c20NeedsSanitising(b) {
				return true
			}
		}
	}
	return false
}

func (c *C20Case) respCloser(name string) bool {
	for _, r := range c.Resps {
		if r.Name == name && strings.Contains(r.Content, "\"}") {
			return true
		}
	}
	return false
}

const (
	c20KeyDict     = "snippet.dictionary-value-not-escaped"
	c20KeyComment  = "snippet.acl-comment-newline-injection"
	c20KeyMember   = "snippet.backend-ref-not-sanitised-in-director"
	c20KeyRespBody = "snippet.response-content-closes-long-string"
)

func c20KnownKey(c *C20Case, f c20Fail) string {
	switch f.kind {
	case "dict":
		quote, pct := c.dictFeature(f.name)
		switch {
		case quote && (f.sig == "parse" || f.sig == "mismatch"):
			// an unescaped " ends the literal: everything after it is re-tokenised
			return c20KeyDict
		case pct && f.sig == "parse" && f.parseAtPct:
			return c20KeyDict
		case pct && f.sig == "mismatch" && f.pctOnlyDiff:
			return c20KeyDict
		}
	case "acl":
		// the text after the line feed is read as VCL: it can add entries, end the
		// acl early, or open a block comment that hides the entries that follow
		if c.aclCommentNewline(f.name) && (f.sig == "parse" || f.sig == "mismatch") {
			return c20KeyComment
		}
	case "director":
		if c.directorDirtyMember(f.name) && (f.sig == "parse" || f.sig == "mismatch" && f.cleanMembersOK) {
			return c20KeyMember
		}
	case "resp":
		if c.respCloser(f.name) && f.errorScope && (f.sig == "parse" || f.sig == "mismatch") {
			return c20KeyRespBody
		}
	}
	return ""
}

// ---------------------------------------------------------------------------
// Labels and the non-trivial rule

func c20TextClasses(s string) []string {
	var out []string
	add := func(cond bool, l string) {
		if cond {
			out = append(out, l)
		}
	}
	add(s == "", "empty")
	add(strings.Contains(s, "\""), "quote")
	add(strings.Contains(s, "%"), "percent")
	add(c20HasAny(s, "%20", "%41", "%25", "%0A", "%C3%A9"), "pct-escape")
	add(c20HasAny(s, "%u0041", "%u{"), "pct-u-escape")
	add(strings.Contains(s, "%00"), "pct-nul")
	add(strings.Contains(s, "{"), "lbrace")
	add(strings.Contains(s, "}"), "rbrace")
	add(strings.Contains(s, "\\"), "backslash")
	add(strings.Contains(s, "\n"), "newline")
	add(strings.Contains(s, "\"}"), "long-string-closer")
	add(c20HasAny(s, "#", "//", "/*"), "comment-marker")
	add(len(s) >= 255, "long")
	for _, r := range s {
		if r > 0x7f {
			out = append(out, "unicode")
			break
		}
	}
	return out
}

func c20IsSpecial(s string) bool { return strings.ContainsAny(s, "\"%{}\\\n") }

func c20Classify(c *C20Case, col *iso.Collector) {
	set := map[string]bool{}
	lab := func(l string) { set[l] = true }
	nt := false
	texts := func(prefix, s string) {
		for _, cl := range c20TextClasses(s) {
			lab(prefix + ":" + cl)
		}
		if c20IsSpecial(s) {
			nt = true
		}
	}
	clean := true
	if len(c.Dicts) > 0 {
		lab("kind:dictionary")
	}
	for _, d := range c.Dicts {
		switch {
		case len(d.Items) == 0:
			lab("dict:no-items")
		case len(d.Items) >= 4:
			lab("dict:many-items")
		}
		for _, it := range d.Items {
			texts("dict-key", it.K)
			texts("dict-value", it.V)
		}
		if q, p := c.dictFeature(d.Name); q || p {
			lab("trigger:" + c20KeyDict)
			clean = false
		}
	}
	if len(c.Acls) > 0 {
		lab("kind:acl")
	}
	for _, a := range c.Acls {
		switch {
		case len(a.Entries) == 0:
			lab("acl:no-entries")
		case len(a.Entries) >= 4:
			lab("acl:many-entries")
		}
		for _, e := range a.Entries {
			if strings.Contains(e.IP, ":") {
				lab("acl:ipv6")
				nt = true
			} else {
				lab("acl:ipv4")
			}
			if e.Neg {
				lab("acl:negated")
				nt = true
			}
			switch {
			case e.Subnet == nil:
				lab("acl:subnet-absent")
			case *e.Subnet == 0:
				lab("acl:subnet-0")
			default:
				lab("acl:subnet-n")
			}
			if e.Comment != "" {
				texts("acl-comment", e.Comment)
			} else {
				lab("acl-comment:empty")
			}
		}
		if c.aclCommentNewline(a.Name) {
			lab("trigger:" + c20KeyComment)
			clean = false
		}
	}
	if len(c.Backends) > 0 {
		lab("kind:backend")
	}
	for _, b := range c.Backends {
		if c20NeedsSanitising(b.Name) {
			lab("backend:name-sanitised")
			nt = true
		}
		if b.Address == nil {
			lab("backend:no-address")
		}
		if b.Shield != nil && *b.Shield != "" {
			lab("kind:shield-director")
		}
	}
	if len(c.Directors) > 0 {
		lab("kind:director")
	}
	for _, d := range c.Directors {
		if c20NeedsSanitising(d.Name) {
			lab("director:name-sanitised")
			nt = true
		}
		lab(fmt.Sprintf("director:type-%d", d.Type))
		switch {
		case len(d.Backends) == 0:
			lab("director:no-members")
		default:
			lab("director:members")
		}
		if c.directorDirtyMember(d.Name) {
			lab("trigger:" + c20KeyMember)
			clean = false
		}
	}
	if len(c.Conds) > 0 {
		lab("kind:condition")
	}
	for _, h := range c.Headers {
		lab("kind:header")
		lab("header:" + h.Action)
		lab("header:" + h.Type)
		if h.Cond != "" {
			lab("header:condition")
		}
		if h.IgnoreIfSet {
			lab("header:ignore-if-set")
		}
	}
	for _, r := range c.Resps {
		lab("kind:response-object")
		if r.Content != "" {
			texts("resp-content", r.Content)
		}
		if r.ReqCond != "" || r.CacheCond != "" {
			lab("resp:condition")
		}
		if c.respCloser(r.Name) {
			lab("trigger:" + c20KeyRespBody)
			clean = false
		}
	}
	for _, s := range c.Snips {
		lab("kind:vcl-snippet")
		lab("snippet:" + s.Type)
		if s.Dynamic {
			lab("snippet:dynamic")
		}
	}
	if c.Layout.ForceSSL == 2 {
		lab("kind:request-setting-force-ssl")
	}
	if c.Layout.API {
		lab("path:api")
		lab(fmt.Sprintf("api:version-%d", c.apiVersion()))
		if c.Layout.Cache {
			lab("api:cache-round-trip")
		}
		for _, d := range c.Dicts {
			if d.WriteOnly {
				lab("api:write-only-dictionary")
			}
		}
		for _, s := range c.Snips {
			if s.Dynamic {
				lab("api:dynamic-snippet")
			}
		}
		for _, a := range c.Acls {
			for _, e := range a.Entries {
				switch {
				case e.Subnet == nil:
					lab("api:subnet-null")
				case *e.Subnet == 0:
					lab("api:subnet-0")
				default:
					lab("api:subnet-n")
				}
				if e.Neg {
					lab("api:negated")
				}
			}
		}
	}
	if c.Layout.V1 {
		lab("tf:service-v1")
	}
	if c.Layout.SvcDepth > 0 || c.Layout.EntryDepth > 0 {
		lab("tf:child-modules")
	}
	if c.Layout.Decoy {
		lab("tf:decoy-service")
	}
	if c.Layout.Foreign {
		lab("tf:foreign-provider")
	}
	if len(c.Dicts)+len(c.Acls)+len(c.Backends)+len(c.Directors)+len(c.Headers)+len(c.Resps)+len(c.Snips) == 0 {
		lab("empty-service")
	}
	if clean {
		lab("free-of-known-triggers")
	}
	var ls []string
	for l := range set {
		ls = append(ls, l)
	}
	sort.Strings(ls)
	col.Label(ls...)
	col.Res.NonTrivial = nt
}

// ---------------------------------------------------------------------------
// Check

func checkC20(raw json.RawMessage) iso.Result {
	var c C20Case
	if err := json.Unmarshal(raw, &c); err != nil {
		return iso.Failf("bad case: %v", err)
	}
	col := iso.NewCollector("C20")
	c20Classify(&c, col)

	var fails []c20Fail
	// (i) fake Fetcher
	{
		cc := c // EmbedSnippets mutates the resources it is given; each path gets its own copy
		fails = append(fails, c20RunPath(&cc, "fake", func() (snippet.Fetcher, error) { return &c20Fetcher{c: &cc}, nil })...)
	}
	// (ii) Terraform plan
	plan, err := c20Plan(&c)
	if err != nil {
		return iso.Failf("harness: cannot build plan: %v", err)
	}
	fails = append(fails, c20RunPath(&c, "tf", func() (snippet.Fetcher, error) {
		svcs, err := terraform.ParseStdin(bytes.NewReader(plan))
		if err != nil {
			return nil, err
		}
		f := terraform.NewTerraformFetcher(svcs)
		if c.Layout.Decoy && c.Layout.SetName {
			// cmd/falco walks the services of a plan with ONE fetcher and calls SetName for each in turn:
			// the other service is selected and read first
			f.SetName("zz-decoy")
			f.Backends()     // nolint:errcheck
			f.Dictionaries() // nolint:errcheck
			f.Acls()         // nolint:errcheck
		}
		if c.Layout.SetName {
			f.SetName(c.Service)
		} else if len(svcs) != 1 {
			return nil, fmt.Errorf("plan with one Fastly service parsed into %d services", len(svcs))
		}
		return f, nil
	})...)

	// (iii) falco's Fastly API client over a fake api.fastly.com (c20_api.go)
	if c.Layout.API {
		fails = append(fails, c20RunAPI(&c)...)
	}

	for _, f := range fails {
		col.FailKey(c20KnownKey(&c, f), "[%s path] %s", f.path, f.msg)
	}
	col.Count("resources", len(c.Dicts)+len(c.Acls)+len(c.Backends)+len(c.Directors)+len(c.Headers)+len(c.Resps)+len(c.Snips))

	// (iv) CLI, sampled in the thorough tier
	if c.Layout.CLI && os.Getenv("VERIF_FALCO") != "" {
		c20CLI(col, &c, plan, len(fails) == 0)
	}
	return col.Done()
}

// c20CLI runs `falco terraform` on the plan. Observation: a parse error
// (":boom:" report) is printed iff some generated item fails to parse; lint
// findings on the generated declarations are not this property's business.
func c20CLI(col *iso.Collector, c *C20Case, plan []byte, libraryClean bool) {
	col.Label("cli:run")
	wd := os.Getenv("VERIF_WORKDIR")
	if wd == "" {
		wd = os.TempDir()
	}
	dir, err := os.MkdirTemp(wd, "c20cli")
	if err != nil {
		return
	}
	defer os.RemoveAll(dir)
	cmd := exec.Command(os.Getenv("VERIF_FALCO"), "terraform", "-vv")
	cmd.Dir = dir
	cmd.Stdin = bytes.NewReader(plan)
	cmd.Env = append(os.Environ(), "NO_COLOR=1", "HOME="+dir)
	out, _ := cmd.CombinedOutput()
	text := string(out)
	if c20HasAny(text, "panic:", "goroutine 1 [") {
		col.Failf("`falco terraform` crashed on the generated plan:\n%s", c20Clip(text))
		return
	}
	parseErr := c20HasAny(text, "Parse Error", "Failed to unmarshal")
	if libraryClean && parseErr {
		col.Failf("`falco terraform` reports a parse error although every generated item parses through the library:\n%s", c20Clip(text))
	}
	if libraryClean && !parseErr {
		col.Label("cli:clean")
	}
}
