package props

import (
	"encoding/json"
	"fmt"
	"net/http"
	"net/http/httptest"
	"strings"

	"github.com/ysugimoto/falco/v2/interpreter"
	icontext "github.com/ysugimoto/falco/v2/interpreter/context"
	"github.com/ysugimoto/falco/v2/resolver"
	"pgregory.net/rapid"

	"verif/iso"
)

// C13, kind "objects": a header written on one HTTP object must not change the header of the same
// name on another object (req / bereq / beresp / obj / resp are separate stores). The request runs
// through the real lifecycle (ServeHTTP), so the objects are the ones the simulator itself creates.

type C13ObjOp struct {
	Sub  string `json:"sub"`  // vcl_miss | vcl_pass | vcl_fetch | vcl_deliver | vcl_error
	Obj  string `json:"obj"`  // object written
	Name string `json:"name"` // header name: A | B
	Op   string `json:"op"`   // set | add | unset
	Val  string `json:"val,omitempty"`
}

var c13ObjectsIn = map[string][]string{
	"vcl_miss":    {"req", "bereq"},
	"vcl_pass":    {"req", "bereq"},
	"vcl_fetch":   {"req", "bereq", "beresp"},
	"vcl_deliver": {"req", "resp"},
	"vcl_error":   {"req", "obj"},
}

var c13PathSubs = map[string][]string{
	"lookup": {"vcl_miss", "vcl_fetch", "vcl_deliver"},
	"pass":   {"vcl_pass", "vcl_fetch", "vcl_deliver"},
	"error":  {"vcl_error", "vcl_deliver"},
}

func genC13Objects(t *rapid.T) C13Case {
	c := C13Case{Kind: "objects"}
	c.Path = rapid.SampledFrom([]string{"lookup", "pass", "error"}).Draw(t, "path")
	n := rapid.IntRange(1, 4).Draw(t, "nops")
	for i := 0; i < n; i++ {
		sub := rapid.SampledFrom(c13PathSubs[c.Path]).Draw(t, "sub")
		op := C13ObjOp{Sub: sub}
		op.Obj = rapid.SampledFrom(c13ObjectsIn[sub]).Draw(t, "obj")
		op.Name = rapid.SampledFrom([]string{"A", "B"}).Draw(t, "hname")
		op.Op = rapid.SampledFrom([]string{"set", "set", "add", "unset"}).Draw(t, "hop")
		if op.Op != "unset" {
			op.Val = fmt.Sprintf("w%d", i)
		}
		c.ObjOps = append(c.ObjOps, op)
	}
	return c
}

func c13ObjectsVCL(c C13Case) string {
	var b strings.Builder
	b.WriteString(backendDecl())
	b.WriteString("sub vcl_recv {\n  set req.http.A = \"ra\";\n  set req.http.B = \"rb\";\n")
	switch c.Path {
	case "pass":
		b.WriteString("  return(pass);\n")
	case "error":
		b.WriteString("  error 601;\n")
	default:
		b.WriteString("  return(lookup);\n")
	}
	b.WriteString("}\n")
	state := func(sub string) string {
		var parts []string
		for _, o := range c13ObjectsIn[sub] {
			for _, h := range []string{"A", "B"} {
				parts = append(parts, fmt.Sprintf("\" %s.%s=[\" %s.http.%s \"]\"", o, h, o, h))
			}
		}
		return strings.Join(parts, " ")
	}
	for _, sub := range []string{"vcl_miss", "vcl_pass", "vcl_fetch", "vcl_error", "vcl_deliver"} {
		fmt.Fprintf(&b, "sub %s {\n", sub)
		if sub == "vcl_fetch" {
			b.WriteString("  set beresp.http.A = \"ba\";\n")
		}
		for i, op := range c.ObjOps {
			if op.Sub != sub {
				continue
			}
			fmt.Fprintf(&b, "  log \"OP%d pre\" %s;\n", i, state(sub))
			switch op.Op {
			case "unset":
				fmt.Fprintf(&b, "  unset %s.http.%s;\n", op.Obj, op.Name)
			default:
				fmt.Fprintf(&b, "  %s %s.http.%s = \"%s\";\n", op.Op, op.Obj, op.Name, op.Val)
			}
			fmt.Fprintf(&b, "  log \"OP%d post\" %s;\n", i, state(sub))
		}
		b.WriteString("}\n")
	}
	return b.String()
}

func checkC13Objects(c C13Case) iso.Result {
	col := iso.NewCollector("C13")
	col.Label("kind:objects", "path:"+c.Path)
	vcl := c13ObjectsVCL(c)
	ip := interpreter.New(icontext.WithResolver(resolver.NewStaticResolver("main", vcl)))
	ip.Debugger = &capDebugger{}
	rec := httptest.NewRecorder()
	var pan string
	func() {
		defer func() {
			if r := recover(); r != nil {
				pan = fmt.Sprintf("%v", r)
			}
		}()
		ip.ServeHTTP(rec, httptest.NewRequest(http.MethodGet, "http://example.com/objects", nil))
	}()
	if pan != "" {
		col.Label("panic")
		return col.Done() // crashes are C08's business
	}
	var rep c06Report
	if err := json.Unmarshal(rec.Body.Bytes(), &rep); err != nil {
		col.Failf("harness: response is not a flow report: %.200s\n%s", rec.Body.String(), vcl)
		return col.Done()
	}
	logs := map[string]string{}
	for _, l := range rep.Logs {
		if strings.HasPrefix(l.Message, "OP") {
			if i := strings.Index(l.Message, " "); i > 0 {
				j := strings.Index(l.Message[i+1:], " ")
				if j > 0 {
					logs[l.Message[:i+1+j]] = l.Message[i+1+j:]
				}
			}
		}
	}
	parse := func(s string) map[string]string {
		out := map[string]string{}
		for _, f := range strings.Split(s, " ") {
			if k, v, ok := strings.Cut(f, "="); ok {
				out[k] = v
			}
		}
		return out
	}
	for i, op := range c.ObjOps {
		pre, ok1 := logs[fmt.Sprintf("OP%d pre", i)]
		post, ok2 := logs[fmt.Sprintf("OP%d post", i)]
		if !ok1 || !ok2 {
			col.Label("op-not-reached")
			continue
		}
		a, b := parse(pre), parse(post)
		target := op.Obj + "." + op.Name
		for k := range a {
			if k == target {
				continue
			}
			if a[k] != b[k] {
				col.Failf("`%s %s.http.%s` in %s changed %s.http.%s (%s -> %s): the objects are separate header stores\n before:%s\n  after:%s\n--- vcl ---\n%s", op.Op, op.Obj, op.Name, op.Sub, strings.Split(k, ".")[0], strings.Split(k, ".")[1], a[k], b[k], pre, post, vcl)
				return col.Done()
			}
		}
		col.Count("object-writes-checked", 1)
		col.Res.NonTrivial = true
	}
	return col.Done()
}
