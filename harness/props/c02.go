package props

import (
	"encoding/json"
	"strings"
	"time"

	"github.com/ysugimoto/falco/v2/ast"
	"github.com/ysugimoto/falco/v2/lexer"
	"github.com/ysugimoto/falco/v2/parser"
	"pgregory.net/rapid"

	"verif/canon"
	"verif/gen"
	"verif/iso"
)

// C02 — the parser builds the tree the grammar and precedence table dictate.

type C02Case struct {
	Src     string   `json:"src"`
	Want    string   `json:"want"` // canonical dump of the model tree (Explicit flag included)
	Snippet bool     `json:"snippet"`
	Labels  []string `json:"labels"`
	NonTriv bool     `json:"nontrivial"`
}

func init() {
	register("C02",
		"programs derived from the docs/parser.md grammar by a model generator (all declaration/statement kinds, expressions of bounded depth over all operators, juxtaposition, if(), calls, long strings, escapes, boundary numerics), rendered with random whitespace/comments and minimal or redundant parentheses; oracle: canonical dump of parsed tree == canonical dump of the model tree. non-trivial: expression mixing >=2 precedence levels or juxtaposition, escaped/long string, boundary numeric, switch, else-if chain or parameterised sub; distinct by source text",
		genC02, checkC02, 10*time.Second)
}

func genC02(t *rapid.T) any {
	g := gen.New(t, gen.Config{Profile: gen.Syntactic, MaxDecls: pick(3, 5), MaxStmts: pick(4, 6), MaxDepth: pick(4, 6), Comments: true})
	c := C02Case{}
	var want strings.Builder
	if rapid.IntRange(0, 4).Draw(t, "snippet") == 0 {
		var ss []gen.Stmt
		n := rapid.IntRange(1, 5).Draw(t, "n")
		for i := 0; i < n; i++ {
			ss = append(ss, g.Statement(0, false))
		}
		// ParseSnippetVCL has no entry for break/fallthrough/switch at top level
		c.Snippet = true
		c.Src = g.RenderStatements(ss)
		gen.CanonList(&want, gen.Mode{Explicit: true}, ss)
		c.Labels, c.NonTriv = classifyModel(ss)
	} else {
		p := g.Program()
		c.Src = g.Render(p)
		p.Canon(&want, gen.Mode{Explicit: true})
		c.Labels, c.NonTriv = classifyModel(p.Decls)
	}
	c.Want = want.String()
	return c
}

// classifyModel computes labels from the canonical form (cheap and robust).
func classifyModel(ss []gen.Stmt) ([]string, bool) {
	var b strings.Builder
	gen.CanonList(&b, gen.Mode{Explicit: true}, ss)
	s := b.String()
	var labels []string
	nt := false
	has := func(sub, label string, nontrivial bool) {
		if strings.Contains(s, sub) {
			labels = append(labels, label)
			if nontrivial {
				nt = true
			}
		}
	}
	has("(in +j ", "juxtaposition", true)
	has("(in +e ", "explicit-concat", false)
	has("(grp ", "group", false)
	has("(pre ", "prefix", false)
	has("(ife ", "if-expr", false)
	has("(fn ", "call-expr", false)
	has("(switch ", "switch", true)
	has("(elif ", "else-if", true)
	has("(param ", "sub-params", true)
	has("(float ", "float", true)
	has("(int 9223372036854775807)", "int-max", true)
	has("(int -9223372036854775808)", "int-min", true)
	has("(rtime ", "rtime", false)
	has("(acl ", "decl:acl", false)
	has("(backend ", "decl:backend", false)
	has("(director ", "decl:director", false)
	has("(table ", "decl:table", false)
	has("(probe", "probe", false)
	has("(post % ", "postfix", false)
	has("(label ", "label", false)
	has("(error - -)", "error-bare", false)
	// nested infix of different operators
	if n := strings.Count(s, "(in "); n >= 2 {
		labels = append(labels, "multi-infix")
		nt = true
	}
	return labels, nt
}

func checkC02(raw json.RawMessage) iso.Result {
	var c C02Case
	if err := json.Unmarshal(raw, &c); err != nil {
		return iso.Failf("bad case: %v", err)
	}
	col := iso.NewCollector("C02")
	col.Label(c.Labels...)
	col.Res.NonTrivial = c.NonTriv
	if strings.Contains(c.Src, "%") {
		col.Label("has-percent")
	}
	if strings.Contains(c.Src, "{\"") {
		col.Label("long-string")
	}
	var stmts []ast.Statement
	var err error
	if c.Snippet {
		stmts, err = parser.New(lexer.NewFromString(c.Src)).ParseSnippetVCL()
	} else {
		var vcl *ast.VCL
		vcl, err = parser.New(lexer.NewFromString(c.Src)).ParseVCL()
		if vcl != nil {
			stmts = vcl.Statements
		}
	}
	if err != nil {
		col.Failf("grammar-derived program rejected: %v\n--- source ---\n%s", err, c.Src)
		return col.Done()
	}
	got, cerr := canon.Statements(stmts, canon.Mode{Explicit: true})
	if cerr != nil {
		col.Failf("canonical dump failed: %v", cerr)
	}
	if got != c.Want {
		col.Failf("parsed tree differs from the tree the grammar dictates\n want: %s\n  got: %s\n--- source ---\n%s", c.Want, got, c.Src)
	}
	return col.Done()
}
