package props

import (
	"bytes"
	"encoding/json"
	"fmt"
	"os"
	"path/filepath"
	"strings"
	"time"

	"pgregory.net/rapid"

	"verif/gen"
	"verif/iso"
)

// C16 — `fmt --write` never damages the file it rewrites (DESIGN.md §3 C16).
//
// One case = one file content (five classes) × one fault plan. The plan
// "strace" is a complete enumeration, inside the check, of single faults at
// every syscall the clean run makes on the target file or on a sibling file in
// its directory (see c16_trace.go).

const c16KnownKey = "cli.fmt-write-truncates-before-formatting"

// attempts per enumerated fault until strace reports it at the intended call
const c16Attempts = 5

// calls for which the persistent "ENOSPC from here on" variant is run as well
var c16Persistent = map[string]bool{"openat": true, "write": true, "pwrite64": true, "fsync": true, "fdatasync": true,
	"rename": true, "renameat": true, "renameat2": true, "ftruncate": true}

type C16Plan struct {
	// "none" | "fsize" | "ro-file" | "ro-dir" | "strace"
	Kind  string `json:"kind"`
	FSize int    `json:"fsize,omitempty"` // RLIMIT_FSIZE for kind "fsize"
}

type C16Case struct {
	// "small" | "empty" | "snippet" | "invalid" | "big"
	Class string  `json:"class"`
	Src   string  `json:"src"`
	Plan  C16Plan `json:"plan"`
	// Symlink: FILE is a symbolic link to the real file (in the same directory)
	Symlink bool `json:"symlink,omitempty"`
	CRLF    bool `json:"crlf,omitempty"`
	// LongName: the file name is so long that a temporary sibling named after it cannot be created
	LongName bool `json:"long_name,omitempty"`
	// Stale: left-over files with temporary-looking names (longer than the formatted text) sit next to FILE
	Stale bool `json:"stale,omitempty"`
	// Multi: one more fault-free run in which the command names a second, valid file in front of FILE
	Multi bool `json:"multi,omitempty"`
}

func init() {
	register("C16",
		"file contents in five classes (parseable declaration file >=4KiB built from grammar-derived programs, small parseable file, statement-only snippet, syntactically invalid text, empty file) x fault plan (none; RLIMIT_FSIZE in {0,512,2048}; root-owned 0644 target run as uid 65534; read-only directory run as uid 65534; strace fault ENUMERATION: a calibration run lists every openat/write/pwrite64/rename*/fsync/fdatasync/close/chmod/fchmod/fchmodat/ftruncate/unlink*/link* call of the clean `falco fmt -w FILE` run that touches FILE or a sibling file in its directory, then for EVERY such call K and each of error=EIO, error=ENOSPC, error=EINTR, signal=KILL (once at K) and error=ENOSPC from K onwards one run with that injection; complete over K for each generated file, firing read back from strace's output). oracle: ORIG = bytes before, S = stdout of `falco fmt FILE` on a pristine copy if it exits 0, else 'fails'; after every run bytes(FILE) in {ORIG, S}; exit status non-zero => ORIG; killed by a signal => ORIG or complete S; S = 'fails' => ORIG. every fourth case puts left-over files with temporary-looking names (.NAME.tmp, NAME.tmp, .NAME.swp, NAME~, NAME.bak; longer than the formatted text) next to FILE; every third case also runs (fault-free) `fmt -w other.vcl FILE` and applies the oracle to both files. non-trivial: an injected fault fired at or after the first open-for-writing of the target or a sibling (or RLIMIT_FSIZE cut a write), or `falco fmt FILE` fails on a non-empty file (snippet/invalid class); distinct by (content, plan)",
		genC16, checkC16, 240*time.Second)
}

// ---------------------------------------------------------------------------
// Generator (parent side)

var c16Classes = []string{"small", "empty", "snippet", "invalid", "big", "big", "snippet", "big", "invalid", "big", "small", "big"}
var c16Plans = []string{"none", "fsize", "ro-file", "ro-dir", "strace", "strace", "fsize", "strace", "strace", "strace"}

var c16Junk = []string{"sub {\n", "}\n", "backend {", "acl a { 1 }\n", "table t { \"a\" }\n", "@@@\n", "sub a { set req.http.A = ; }\n", "sub a { if ( }\n", "sub a { \"unterminated\n", "\x00\xff\n"}

func genC16(t *rapid.T) any {
	c := C16Case{}
	c.Class = rapid.SampledFrom(c16Classes).Draw(t, "class")
	c.Plan.Kind = rapid.SampledFrom(c16Plans).Draw(t, "plan")
	if c.Plan.Kind == "fsize" {
		c.Plan.FSize = rapid.SampledFrom([]int{0, 512, 2048}).Draw(t, "fsize")
	}
	prog := func(maxDecls int) string {
		g := gen.New(t, gen.Config{Profile: gen.Syntactic, MaxDecls: maxDecls, MaxStmts: pick(3, 5), MaxDepth: pick(2, 3), Comments: true, NoInlineLineComments: true})
		p := g.Program()
		if len(p.Decls) == 0 {
			p.Decls = append(p.Decls, g.Decl("sub"))
		}
		return g.Render(p)
	}
	switch c.Class {
	case "empty":
		c.Src = rapid.SampledFrom([]string{"", "", "\n", "# only a comment\n"}).Draw(t, "empty")
	case "small":
		c.Src = prog(3)
	case "big":
		unit := prog(pick(4, 6))
		if !strings.HasSuffix(unit, "\n") {
			unit += "\n"
		}
		want := 4096 + rapid.IntRange(0, pick(4096, 16384)).Draw(t, "extra")
		var b strings.Builder
		for i := 0; b.Len() < want; i++ {
			fmt.Fprintf(&b, "# section %d\n", i)
			b.WriteString(unit)
		}
		c.Src = b.String()
	case "snippet":
		g := gen.New(t, gen.Config{Profile: gen.Syntactic, MaxStmts: 3, MaxDepth: 2, Comments: false})
		n := rapid.IntRange(1, 4).Draw(t, "nstmt")
		var ss []gen.Stmt
		for i := 0; i < n; i++ {
			ss = append(ss, g.Statement(0, false))
		}
		c.Src = g.RenderStatements(ss)
	case "invalid":
		base := prog(2)
		junk := rapid.SampledFrom(c16Junk).Draw(t, "junk")
		switch rapid.IntRange(0, 2).Draw(t, "where") {
		case 0:
			c.Src = base + "\n" + junk
		case 1:
			c.Src = junk + base
		default:
			at := rapid.IntRange(0, len(base)).Draw(t, "at")
			c.Src = base[:at] + junk + base[at:]
		}
	}
	c.Symlink = rapid.IntRange(0, 3).Draw(t, "symlink") == 3
	c.LongName = !c.Symlink && rapid.IntRange(0, 5).Draw(t, "longname") == 5
	c.Stale = !c.LongName && rapid.IntRange(0, 3).Draw(t, "stale") == 3
	c.Multi = rapid.IntRange(0, 2).Draw(t, "multi") == 2
	if rapid.IntRange(0, 4).Draw(t, "crlf") == 4 {
		// a file saved with CR LF line endings (comments and long strings keep their carriage return)
		c.Src = strings.ReplaceAll(strings.ReplaceAll(c.Src, "\r\n", "\n"), "\n", "\r\n")
		c.CRLF = true
	}
	return c
}

// ---------------------------------------------------------------------------
// Check (worker side)

type c16Ctx struct {
	col    *iso.Collector
	c      C16Case
	falco  string
	root   string // scratch root of this case
	dir    string // directory holding the target (recreated for every run)
	file   string // the target
	cwd    string
	orig   []byte
	s      []byte
	sOK    bool
	sWhy   string
	calOK  bool // calibration trace usable
	inplTr bool // the clean run opens the target itself with O_TRUNC (or ftruncates it)
	nt     bool
	nRuns  int
}

func checkC16(raw json.RawMessage) iso.Result {
	var c C16Case
	if err := json.Unmarshal(raw, &c); err != nil {
		return iso.Failf("bad case: %v", err)
	}
	falco := os.Getenv("VERIF_FALCO")
	if falco == "" {
		return iso.Result{Status: iso.Skip, Labels: []string{"infra:no-falco-binary"}}
	}
	work := os.Getenv("VERIF_WORKDIR")
	if work == "" {
		work = os.TempDir()
	}
	root, err := os.MkdirTemp(work, "c16-")
	if err != nil {
		return iso.Result{Status: iso.Skip, Labels: []string{"infra:no-scratch-dir"}}
	}
	defer os.RemoveAll(root)
	os.Chmod(root, 0o755)
	k := &c16Ctx{col: iso.NewCollector("C16"), c: c, falco: falco, root: root,
		dir: filepath.Join(root, "d"), cwd: filepath.Join(root, "cwd"), orig: []byte(c.Src)}
	k.file = filepath.Join(k.dir, "t.vcl")
	if c.LongName {
		k.file = filepath.Join(k.dir, strings.Repeat("n", 246)+".vcl")
	}
	os.Mkdir(k.cwd, 0o755)
	col := k.col
	col.Label("class:"+c.Class, "plan:"+c.Plan.Kind)
	if c.Symlink {
		col.Label("file:symlink")
	}
	if c.CRLF {
		col.Label("file:crlf")
	}
	if c.LongName {
		col.Label("file:long-name")
	}
	if c.Stale {
		col.Label("dir:stale-temporary-files")
	}
	if c.Plan.Kind == "fsize" {
		col.Label(fmt.Sprintf("fsize:%d", c.Plan.FSize))
	}
	if len(k.orig) >= 4096 {
		col.Label("size:>=4KiB")
	}

	// 1. S: what `falco fmt FILE` prints for a pristine copy
	if err := k.fresh(0o755, 0, 0); err != nil {
		return iso.Result{Status: iso.Skip, Labels: []string{"infra:cannot-create-target"}}
	}
	o := k.spawn([]string{k.falco, "fmt", k.file})
	o2 := k.spawn([]string{k.falco, "fmt", k.file})
	switch {
	case o.Infra() || o2.Infra():
		return iso.Result{Status: iso.Skip, Labels: []string{"infra:fmt-run-" + o.InfraWhy()}}
	case o.Failed() != o2.Failed() || (!o.Failed() && !bytes.Equal(o.Stdout, o2.Stdout)):
		// `falco fmt FILE` does not print one definite text for this file: the property's
		// right-hand side is undefined here (a formatter determinism matter, not C16's)
		return iso.Result{Status: iso.Skip, Labels: []string{"skip:fmt-output-not-deterministic"}}
	case !o.Failed():
		k.sOK, k.s = true, o.Stdout
		col.Label("S:ok")
		if bytes.Equal(k.s, k.orig) {
			col.Label("S==ORIG")
		}
	default:
		k.sWhy = o.Desc()
		col.Label("S:fails")
		if bytes.Contains(o.Stderr, []byte("panic:")) {
			col.Label("S:fails-by-panic")
		}
	}
	// `falco fmt FILE` itself must not touch the file
	if got, ok := k.read(); !ok || !bytes.Equal(got, k.orig) {
		col.Failf("`falco fmt FILE` (without -w) changed FILE (%d -> %d bytes, exists=%v)", len(k.orig), len(got), ok)
	}
	if !k.sOK && len(k.orig) > 0 {
		k.nt = true
	}

	// 2. calibration: the clean `fmt -w` run under strace; it is also a no-fault run for the oracle
	cal := k.straceRun("")
	if cal.tr != nil && cal.tr.usable(k.file) {
		k.calOK = true
		k.inplTr = cal.tr.truncatesInPlace(k.file)
		if k.inplTr {
			col.Label("impl:truncates-target-in-place")
		}
		if cal.tr.usesSibling(k.file) {
			col.Label("impl:writes-sibling-file")
		}
	} else {
		col.Label("infra:calibration-unusable")
	}
	k.judge("clean run under strace (calibration)", cal.out, false)

	// 3. the drawn fault plan
	switch c.Plan.Kind {
	case "none":
		if k.fresh(0o755, 0, 0) != nil {
			col.Label("infra:fresh-failed")
		} else {
			k.judge("no fault", k.spawn([]string{k.falco, "fmt", "-w", k.file}), false)
		}

	case "fsize":
		if k.fresh(0o755, 0, 0) == nil {
			o := k.spawn([]string{"prlimit", fmt.Sprintf("--fsize=%d", c.Plan.FSize), k.falco, "fmt", "-w", k.file})
			fired := o.Failed() && (o.Signal == "SIGXFSZ" || bytes.Contains(o.Stderr, []byte("file too large")))
			if fired {
				col.Label("fault:fsize-fired")
				col.Count("faults_fired", 1)
				col.Count("fired:rlimit_fsize", 1)
				col.Count("fired_class:"+c.Class, 1)
				k.nt = true
			}
			k.judge(fmt.Sprintf("RLIMIT_FSIZE=%d", c.Plan.FSize), o, fired)
		}
	case "ro-file", "ro-dir":
		if os.Geteuid() != 0 {
			col.Label("infra:not-root")
			break
		}
		var err error
		if c.Plan.Kind == "ro-file" {
			err = k.fresh(0o777, 0, 0) // anybody may create files in the directory; the file belongs to root, mode 0644
		} else {
			err = k.fresh(0o755, 65534, 65534) // the file belongs to the user; the directory does not
		}
		if err == nil {
			o := k.spawn([]string{"setpriv", "--reuid=65534", "--regid=65534", "--clear-groups", k.falco, "fmt", "-w", k.file})
			if bytes.HasPrefix(o.Stderr, []byte("setpriv:")) {
				col.Label("infra:setpriv-failed")
			}
			fired := o.Failed() && bytes.Contains(o.Stderr, []byte("permission denied"))
			if fired {
				col.Label("fault:" + c.Plan.Kind + "-fired")
				col.Count("faults_fired", 1)
				col.Count("fired:eacces", 1)
				col.Count("fired_class:"+c.Class, 1)
			}
			k.judge(c.Plan.Kind+" as uid 65534", o, fired)
		}
	case "strace":
		if k.calOK {
			k.enumerate(cal.tr)
		}
	}

	if c.Multi && k.fresh(0o755, 0, 0) == nil {
		k.multi()
	}

	col.Count("runs", k.nRuns)
	col.Res.NonTrivial = k.nt
	head := c.Src
	if len(head) > 160 {
		head = head[:160] + "…"
	}
	col.Res.Sample = map[string]any{"class": c.Class, "plan": c.Plan, "src_bytes": len(c.Src), "src_head": head,
		"S": map[bool]string{true: fmt.Sprintf("%d bytes", len(k.s)), false: "fails"}[k.sOK], "runs": k.nRuns, "counters": col.Res.Extra}
	return col.Done()
}

// fresh recreates the target directory with a pristine copy of the file.
func (k *c16Ctx) fresh(dirMode os.FileMode, fileUID, fileGID int) error {
	os.Chmod(k.dir, 0o755)
	os.RemoveAll(k.dir)
	if err := os.Mkdir(k.dir, 0o755); err != nil {
		return err
	}
	real := k.file
	if k.c.Symlink {
		real = filepath.Join(k.dir, "real.vcl")
	}
	if err := os.WriteFile(real, k.orig, 0o644); err != nil {
		return err
	}
	os.Chmod(real, 0o644)
	if fileUID != 0 || fileGID != 0 {
		if err := os.Chown(real, fileUID, fileGID); err != nil {
			return err
		}
	}
	if k.c.Symlink {
		if err := os.Symlink("real.vcl", k.file); err != nil {
			return err
		}
	}
	if k.c.Stale {
		// what an interrupted earlier run, an editor or a backup tool may have left behind
		base := filepath.Base(k.file)
		stale := append(append([]byte{}, k.orig...), []byte("\n# stale tail\n"+strings.Repeat("sub stale_left_over { set req.http.Stale = \"1\"; }\n", 150))...)
		for _, n := range []string{"." + base + ".tmp", base + ".tmp", "." + base + ".swp", base + "~", base + ".bak", ".tmp", "tmp"} {
			if err := os.WriteFile(filepath.Join(k.dir, n), stale, 0o666); err != nil {
				return err
			}
			os.Chmod(filepath.Join(k.dir, n), 0o666)
		}
	}
	return os.Chmod(k.dir, dirMode)
}

// c16Other: a second, valid file named in front of FILE on the command line (kind multi).
const c16Other = "sub   vcl_deliver {\n set   resp.http.Other = \"file\" ;\n\n\n}\n"

// multi: `falco fmt -w OTHER FILE` — every named file must hold its original bytes or exactly what
// `falco fmt <that file>` prints; the exit-status rule is applied to FILE only (OTHER never fails).
func (k *c16Ctx) multi() {
	other := filepath.Join(k.dir, "other.vcl")
	if err := os.WriteFile(other, []byte(c16Other), 0o644); err != nil {
		k.col.Label("infra:fresh-failed")
		return
	}
	so := k.spawn([]string{k.falco, "fmt", other})
	if so.Infra() || so.Failed() {
		k.col.Label("infra:multi-other-fmt-failed")
		return
	}
	k.col.Label("plan:two-files")
	o := k.spawn([]string{k.falco, "fmt", "-w", other, k.file})
	k.judge("no fault, two files named (other.vcl FILE)", o, false)
	if o.Infra() {
		return
	}
	got, err := os.ReadFile(other)
	if err != nil || !(bytes.Equal(got, []byte(c16Other)) || bytes.Equal(got, so.Stdout)) {
		k.col.Failf("`falco fmt -w other.vcl FILE`: other.vcl holds neither its original bytes nor the text `falco fmt other.vcl` prints (err=%v)\n--- other.vcl now (head) ---\n%s\n--- expected ---\n%s", err, c16Head(got, 600), c16Head(so.Stdout, 300))
	}
}

func (k *c16Ctx) read() ([]byte, bool) {
	b, err := os.ReadFile(k.file)
	if err != nil {
		return nil, false
	}
	return b, true
}

// judge applies the oracle to the state of FILE after one run.
func (k *c16Ctx) judge(what string, o c16Out, faultFired bool) {
	k.nRuns++
	if o.Infra() {
		k.col.Label("infra:run-" + o.InfraWhy())
		return
	}
	got, exists := k.read()
	desc := func() string {
		sdesc := "fails (" + k.sWhy + ")"
		if k.sOK {
			sdesc = fmt.Sprintf("%d bytes", len(k.s))
		}
		return fmt.Sprintf("class=%s run=%q outcome=%s\n ORIG=%d bytes, S=%s, FILE now=%d bytes (exists=%v)\n stderr: %s\n--- ORIG (head) ---\n%s\n--- FILE now (head) ---\n%s",
			k.c.Class, what, o.Desc(), len(k.orig), sdesc, len(got), exists, c16Tail(o.Stderr, 300), c16Head(k.orig, 400), c16Head(got, 400))
	}
	switch {
	case !exists:
		k.col.Failf("FILE is gone after `falco fmt -w FILE`\n%s", desc())
	case bytes.Equal(got, k.orig):
		k.col.Label("result:original")
	case k.sOK && bytes.Equal(got, k.s):
		k.col.Label("result:formatted")
		if o.Failed() && o.Signal == "" {
			key := ""
			if len(got) == 0 && k.calOK && k.inplTr {
				key = c16KnownKey // S is empty: the O_TRUNC open alone produced it before the command failed
			}
			k.col.FailKey(key, "the command failed (exit status %d) but FILE was rewritten (property: whenever the command fails the file is byte-identical to what it was before)\n%s", o.Exit, desc())
		}
	default:
		truncated := len(got) == 0 || (k.sOK && len(got) < len(k.s) && bytes.HasPrefix(k.s, got))
		failedOrFault := o.Failed() || faultFired || !k.sOK
		traceRefutes := k.calOK && !k.inplTr // the clean run does not truncate the target in place: a different root cause
		kind := "holds neither its original bytes nor the text `falco fmt FILE` prints"
		if truncated {
			kind = "was truncated (empty or a strict prefix of the formatted text)"
		}
		if truncated && failedOrFault && !traceRefutes {
			k.col.FailKey(c16KnownKey, "FILE %s\n%s", kind, desc())
			k.col.Label("result:truncated(known-signature)")
		} else {
			k.col.Failf("FILE %s\n%s", kind, desc())
		}
	}
}

// enumerate runs the complete single-fault enumeration over the calibrated calls.
func (k *c16Ctx) enumerate(cal *c16Trace) {
	col := k.col
	pts := cal.touching()
	firstW := len(pts)
	for i, p := range pts {
		if p.opensForWrite() {
			firstW = i
			break
		}
	}
	col.Count("enum_points", len(pts))
	col.Count("enum_cases", 1)
	type inj struct{ tag, spec string }
	complete := true
	for i, p := range pts {
		col.Count("points:"+p.Name, 1)
		injs := []inj{
			{"EIO", fmt.Sprintf("%s:error=EIO:when=%d", p.Name, p.Ord)},
			{"ENOSPC", fmt.Sprintf("%s:error=ENOSPC:when=%d", p.Name, p.Ord)},
			{"EINTR", fmt.Sprintf("%s:error=EINTR:when=%d", p.Name, p.Ord)},
			{"KILL", fmt.Sprintf("%s:signal=KILL:when=%d", p.Name, p.Ord)},
		}
		if i >= firstW && c16Persistent[p.Name] {
			// the device stays full: this call and every later one of its kind fails
			injs = append(injs, inj{"ENOSPC+", fmt.Sprintf("%s:error=ENOSPC:when=%d+", p.Name, p.Ord)})
		}
		for _, in := range injs {
			col.Count("faults_planned", 1)
			hit := false
			for attempt := 0; attempt < c16Attempts && !hit; attempt++ {
				r := k.straceRun(in.spec)
				firedIdx, firedName, elsewhere := -1, "", 0
				actual := "no call"
				if r.tr != nil {
					firedIdx, firedName, elsewhere = r.tr.fired(in.tag == "KILL")
					if firedIdx >= 0 {
						actual = fmt.Sprintf("call #%d %s", firedIdx+1, r.tr.touching()[firedIdx].short())
					} else if elsewhere > 0 {
						actual = "a call that does not touch the directory"
					}
				}
				k.judge(fmt.Sprintf("strace inject=%s aimed at call #%d of the clean run, %s; fired at %s", in.spec, i+1, p.short(), actual), r.out, firedIdx >= 0 || elsewhere > 0)
				col.Count("enum_runs", 1)
				if elsewhere > 0 {
					col.Count("faults_fired_elsewhere", elsewhere)
				}
				if firedIdx == i && firedName == p.Name {
					hit = true
					col.Count("faults_fired", 1)
					col.Count("fired:"+p.Name, 1)
					col.Count("fired_kind:"+in.tag, 1)
					col.Count("fired_class:"+k.c.Class, 1)
					if i >= firstW {
						col.Count("faults_fired_after_write_open", 1)
						k.nt = true
					}
				} else if firedIdx >= 0 {
					col.Count("faults_fired_off_target_ordinal", 1)
				}
				if !hit && attempt < c16Attempts-1 {
					col.Count("enum_retries", 1)
				}
			}
			if !hit {
				complete = false
				col.Count("faults_missed", 1)
				col.Count("missed:"+in.tag+":"+p.Name, 1)
			}
		}
	}
	if complete {
		col.Label("enum:complete")
		col.Count("enum_complete_cases", 1)
	} else {
		col.Label("enum:incomplete")
	}
}

func c16Head(b []byte, n int) string {
	if len(b) > n {
		return string(b[:n]) + "…"
	}
	return string(b)
}

func c16Tail(b []byte, n int) string {
	s := strings.TrimSpace(string(b))
	if len(s) > n {
		s = "…" + s[len(s)-n:]
	}
	return s
}
