package props

import (
	"bytes"
	"context"
	"encoding/json"
	"fmt"
	"io"
	"os"
	"os/exec"
	"path/filepath"
	"regexp"
	"sort"
	"strconv"
	"strings"
	"time"

	"verif/iso"
)

// C10 — test-runner verdicts are faithful (DESIGN.md §3 C10).
//
// The generator (c10_gen.go) produces a main VCL, a test file made of test
// subroutines with verdicts known by construction, and a list of runs
// (orders/subsets x coverage x reporter). The worker writes the files into a
// fresh directory, runs the built `falco test` binary once per run and checks
// every run against the expectations and all runs against each other.

type C10Expect struct {
	Scope string   `json:"scope"` // as reported: RECV, FETCH, ...
	Fail  bool     `json:"fail"`
	Why   string   `json:"why,omitempty"`
	Logs  []string `json:"logs,omitempty"` // expected log values in order ("\x00*" = any value)
}

type C10Test struct {
	Name   string      `json:"name"` // reported name: @suite value or subroutine name
	Src    string      `json:"src"`  // annotation comments + subroutine
	Skip   bool        `json:"skip,omitempty"`
	Helper bool        `json:"helper,omitempty"` // mock target; falco runs it as a test too
	Needs  []int       `json:"needs,omitempty"`  // helper tests that must be in the same file
	Expect []C10Expect `json:"expect"`
	Labels []string    `json:"labels,omitempty"`
	Trig   []string    `json:"trig,omitempty"` // known-finding keys this test is a trigger of
	// custom messages of the holding assert.equal_fold calls whose operands differ in case
	FoldMsg []string `json:"foldmsg,omitempty"`
}

type C10Run struct {
	Order    []int  `json:"order"`
	Kind     string `json:"kind"` // full | single | permutation | subset
	Coverage bool   `json:"coverage,omitempty"`
	CovFlag  string `json:"covflag,omitempty"`
	Plain    bool   `json:"plain,omitempty"`
}

type C10Case struct {
	Main  string    `json:"main"`
	Pre   string    `json:"pre,omitempty"` // declarations at the top of the test file (tables)
	Tests []C10Test `json:"tests"`
	Runs  []C10Run  `json:"runs"`
}

func init() {
	register("C10",
		"generated main VCL (backend, table, user + functional subroutine, vcl_recv/fetch/deliver built from if/else-if chains, switch, if-expressions, regex captures, table lookups, return/error/restart) x test file of 1-8 test subroutines whose verdict, logs and failing step are known by construction (every documented assert.* kind holding or failing, runtime errors, @skip, multi-scope @scope, logs, runner-global facilities with sibling observers of the documented defaults); each case is run as generated, every test alone, in drawn permutations and subsets, each with and without coverage through `falco test -json`, and once through the plain reporter. Oracle: failed <=> constructed to fail, skipped <=> @skip, exit status != 0 <=> some test failed, counts add up (JSON cases and plain summary line), stdout is one JSON document, and (verdict, error text, logs) of every test identical in all runs. non-trivial: >=2 tests with different verdicts or a run pair differing in order or coverage; distinct by case",
		genC10, checkC10, 120*time.Second)
}

// ---------------------------------------------------------------------------

type c10Suite struct {
	Name     string   `json:"name"`
	Error    string   `json:"error"`
	Group    string   `json:"group"`
	Scope    string   `json:"scope"`
	Skip     bool     `json:"skip"`
	Logs     []string `json:"logs"`
	File     string   `json:"file"`
	Line     int      `json:"line"`
	Position int      `json:"position"`
}

type c10Doc struct {
	Tests []struct {
		File   string     `json:"file"`
		Suites []c10Suite `json:"suites"`
	} `json:"tests"`
	Summary *struct {
		Asserts int `json:"asserts"`
		Passes  int `json:"passes"`
		Fails   int `json:"fails"`
		Skips   int `json:"skips"`
	} `json:"summary"`
}

type c10Obs struct {
	run     int
	verdict string // pass | fail | skip
	err     string // normalised error text
	errLine string // relative location of the error
	logs    []string
	plain   bool
}

type c10Spawn struct {
	stdout, stderr []byte
	exit           int
	timedOut       bool
	err            error
}

func c10Exec(dir string, args ...string) c10Spawn {
	ctx, cancel := context.WithTimeout(context.Background(), 30*time.Second)
	defer cancel()
	cmd := exec.CommandContext(ctx, os.Getenv("VERIF_FALCO"), args...)
	cmd.Dir = dir
	// minimal environment: no CI (forces colours), no foreign FASTLY_* / config variables
	cmd.Env = []string{"PATH=/usr/bin:/bin", "HOME=" + dir, "C10_ENV=c10-env-value", "TZ=UTC"}
	var so, se bytes.Buffer
	cmd.Stdout, cmd.Stderr = &so, &se
	err := cmd.Run()
	r := c10Spawn{stdout: so.Bytes(), stderr: se.Bytes()}
	if ctx.Err() != nil {
		r.timedOut = true
		return r
	}
	if err != nil {
		if ee, ok := err.(*exec.ExitError); ok {
			r.exit = ee.ExitCode()
		} else {
			r.err = err
		}
	}
	return r
}

var (
	c10LogLoc    = regexp.MustCompile(`^(.*) \((main\.test\.vcl|main\.vcl) (\d+):(\d+)\)$`)
	c10ErrLoc    = regexp.MustCompile(`main\.test\.vcl at line: (\d+)`)
	c10PlainCase = regexp.MustCompile(`^  (✓|●|-) \[VCL_([A-Z]+)\] (.*?)( \(\d+ms\))?$`)
	c10FoldErr   = regexp.MustCompile(`^Assertion error: expect=(.*), actual=(.*)$`)
	c10PlainSum  = regexp.MustCompile(`^(\d+) passed, (\d+) failed, (\d+) skipped, (\d+) total, (\d+) assertions$`)
)

// c10Render lays out the test file for one run and returns, per test index,
// the 1-based line of the first line of its source.
func c10Render(c *C10Case, order []int) (string, map[int]int) {
	var sb strings.Builder
	start := map[int]int{}
	line := 1
	put := func(s string) {
		sb.WriteString(s)
		line += strings.Count(s, "\n")
	}
	if c.Pre != "" {
		put(c.Pre)
		put("\n")
	}
	for _, i := range order {
		start[i] = line
		put(c.Tests[i].Src)
		put("\n")
	}
	return sb.String(), start
}

// ownerOf maps an absolute line of the test file to the test whose source contains it.
func c10Owner(c *C10Case, order []int, start map[int]int, line int) (int, bool) {
	for _, i := range order {
		n := strings.Count(c.Tests[i].Src, "\n")
		if line >= start[i] && line < start[i]+n {
			return i, true
		}
	}
	return 0, false
}

func c10HasTrig(t *C10Test, key string) bool {
	for _, k := range t.Trig {
		if k == key {
			return true
		}
	}
	return false
}

func c10ConfigAbove(dir string) string {
	for d := dir; ; d = filepath.Dir(d) {
		for _, n := range []string{".falco.yaml", ".falco.yml"} {
			if _, err := os.Stat(filepath.Join(d, n)); err == nil {
				return filepath.Join(d, n)
			}
		}
		if d == filepath.Dir(d) {
			return ""
		}
	}
}

func checkC10(raw json.RawMessage) iso.Result {
	var c C10Case
	if err := json.Unmarshal(raw, &c); err != nil {
		return iso.Failf("bad case: %v", err)
	}
	col := iso.NewCollector("C10")
	if os.Getenv("VERIF_FALCO") == "" {
		return iso.Failf("INFRA: VERIF_FALCO is not set (the check needs the built falco binary; checkconf must say \"cli\": True)")
	}
	base := os.Getenv("VERIF_WORKDIR")
	if base == "" {
		base = "/var/tmp"
	}
	dir, err := os.MkdirTemp(base, "c10-")
	if err != nil {
		return iso.Failf("INFRA: cannot create scratch directory: %v", err)
	}
	defer os.RemoveAll(dir)
	if f := c10ConfigAbove(dir); f != "" {
		return iso.Failf("INFRA: a falco configuration file %s would be picked up", f)
	}
	if err := os.WriteFile(filepath.Join(dir, "main.vcl"), []byte(c.Main), 0o644); err != nil {
		return iso.Failf("INFRA: %v", err)
	}

	// labels (generator health)
	labels := map[string]bool{}
	verdicts := map[string]bool{}
	for i := range c.Tests {
		t := &c.Tests[i]
		for _, l := range t.Labels {
			labels[l] = true
		}
		for _, k := range t.Trig {
			labels["trigger:"+k] = true
		}
		for _, e := range t.Expect {
			switch {
			case t.Skip:
				verdicts["skip"] = true
			case e.Fail:
				verdicts["fail"] = true
				labels["expect-fail:"+strings.SplitN(e.Why, ":", 2)[0]] = true
			default:
				verdicts["pass"] = true
			}
		}
	}
	for v := range verdicts {
		labels["verdict:"+v] = true
	}
	if len(verdicts) >= 2 {
		labels["mixed-verdicts"] = true
	}
	labels[fmt.Sprintf("tests:%d", len(c.Tests))] = true

	seen := map[string][]c10Obs{} // "testindex|scope" -> observations
	describe := func(ri int) string {
		r := c.Runs[ri]
		var names []string
		for _, i := range r.Order {
			names = append(names, c.Tests[i].Name)
		}
		mode := "-json"
		if r.Plain {
			mode = "plain"
		}
		cov := "coverage off"
		if r.Coverage {
			cov = "coverage on (" + r.CovFlag + ")"
		}
		return fmt.Sprintf("run %d [%s, %s, %s; tests in order: %s]", ri, r.Kind, mode, cov, strings.Join(names, ", "))
	}
	lastFile := ""

	for ri, run := range c.Runs {
		labels["run:"+run.Kind] = true
		if run.Coverage {
			labels["run:coverage-on"] = true
			labels["covflag:"+run.CovFlag] = true
		} else {
			labels["run:coverage-off"] = true
		}
		if run.Plain {
			labels["run:plain-reporter"] = true
		}
		src, start := c10Render(&c, run.Order)
		lastFile = src
		if err := os.WriteFile(filepath.Join(dir, "main.test.vcl"), []byte(src), 0o644); err != nil {
			return iso.Failf("INFRA: %v", err)
		}
		args := []string{"test"}
		if !run.Plain {
			args = append(args, "-json")
		}
		if run.Coverage {
			args = append(args, run.CovFlag)
		}
		args = append(args, "main.vcl")
		sp := c10Exec(dir, args...)
		col.Count("falco_runs", 1)
		if sp.err != nil {
			return iso.Failf("INFRA: cannot run falco: %v", sp.err)
		}

		// expectations of this run
		type exp struct {
			ti      int
			e       *C10Expect
			verdict string
		}
		var want []exp
		for _, ti := range run.Order {
			t := &c.Tests[ti]
			for k := range t.Expect {
				e := &t.Expect[k]
				v := "pass"
				switch {
				case t.Skip:
					v = "skip"
				case e.Fail:
					v = "fail"
				}
				want = append(want, exp{ti, e, v})
			}
		}
		// known-finding feature predicates of this run
		stateMsgTrigger := false
		for _, ti := range run.Order {
			if !c.Tests[ti].Skip && c10HasTrig(&c.Tests[ti], c10KeyStateMsg) {
				stateMsgTrigger = true
			}
		}
		// keyFor: classifier of known findings = feature predicate on the input
		// (the generator marked the test as a trigger) AND signature predicate on
		// the failure (which run, which verdict, which error text).
		keyFor := func(ti int, gotVerdict, errText string, haveErr bool) string {
			t := &c.Tests[ti]
			if c10HasTrig(t, c10KeyEqualFold) && gotVerdict == "fail" {
				if !haveErr {
					return c10KeyEqualFold
				}
				if m := c10FoldErr.FindStringSubmatch(errText); m != nil && m[1] != m[2] && strings.EqualFold(m[1], m[2]) {
					return c10KeyEqualFold
				}
				for _, fm := range t.FoldMsg {
					if fm == errText {
						return c10KeyEqualFold
					}
				}
			}
			return ""
		}

		if sp.timedOut {
			col.Failf("%s: falco did not terminate within 30s\n--- test file ---\n%s", describe(ri), src)
			continue
		}
		crashed := sp.exit != 0 && sp.exit != 1 || bytes.Contains(sp.stderr, []byte("panic:")) || bytes.Contains(sp.stderr, []byte("fatal error:"))
		if crashed {
			key := ""
			if stateMsgTrigger && (bytes.Contains(sp.stderr, []byte("function.Assert_state(")) || bytes.Contains(sp.stderr, []byte("function.Assert_not_state("))) {
				key = c10KeyStateMsg
			}
			col.FailKey(key, "%s: the test runner crashed (exit status %d), no verdict is reported for any test\n--- stderr ---\n%s\n--- test file ---\n%s\n--- main.vcl ---\n%s",
				describe(ri), sp.exit, clip(string(sp.stderr)), src, c.Main)
			continue
		}

		if run.Plain {
			// ---- plain reporter -------------------------------------------------
			got := map[string]string{}
			var sum []int
			nCaseLines := 0
			for _, ln := range strings.Split(string(sp.stderr), "\n") {
				if m := c10PlainCase.FindStringSubmatch(ln); m != nil {
					v := map[string]string{"✓": "pass", "●": "fail", "-": "skip"}[m[1]]
					got[m[3]+"|"+m[2]] = v
					nCaseLines++
				} else if m := c10PlainSum.FindStringSubmatch(ln); m != nil {
					sum = nil
					for _, x := range m[1:] {
						n, _ := strconv.Atoi(x)
						sum = append(sum, n)
					}
				}
			}
			if sum == nil {
				col.Failf("%s: no summary line `N passed, N failed, N skipped, N total, N assertions` in the plain report\n--- stderr ---\n%s", describe(ri), clip(string(sp.stderr)))
				continue
			}
			if sum[0]+sum[1]+sum[2] != sum[3] {
				col.Failf("%s: plain summary does not add up: %d passed + %d failed + %d skipped != %d total", describe(ri), sum[0], sum[1], sum[2], sum[3])
			}
			if sum[3] != len(want) {
				col.Failf("%s: plain summary reports %d tests in total, %d were run (test x scope)\n--- stderr ---\n%s", describe(ri), sum[3], len(want), clip(string(sp.stderr)))
			}
			np, nf, ns := 0, 0, 0
			for _, v := range got {
				switch v {
				case "pass":
					np++
				case "fail":
					nf++
				default:
					ns++
				}
			}
			if nCaseLines == len(got) && (sum[0] != np || sum[1] != nf || sum[2] != ns) {
				col.Failf("%s: plain summary says %d passed, %d failed, %d skipped; the report lists %d passed, %d failed, %d skipped tests\n--- stderr ---\n%s",
					describe(ri), sum[0], sum[1], sum[2], np, nf, ns, clip(string(sp.stderr)))
			}
			for _, w := range want {
				k := c.Tests[w.ti].Name + "|" + w.e.Scope
				v, ok := got[k]
				if !ok {
					col.Failf("%s: test %q scope %s is missing from the plain report\n--- stderr ---\n%s", describe(ri), c.Tests[w.ti].Name, w.e.Scope, clip(string(sp.stderr)))
					continue
				}
				if v != w.verdict {
					col.FailKey(keyFor(w.ti, v, "", false), "%s: plain report marks test %q scope %s as %s, constructed to %s (%s)\n--- test file ---\n%s\n--- main.vcl ---\n%s",
						describe(ri), c.Tests[w.ti].Name, w.e.Scope, v, w.verdict, w.e.Why, src, c.Main)
				}
				key := fmt.Sprintf("%d|%s", w.ti, w.e.Scope)
				seen[key] = append(seen[key], c10Obs{run: ri, verdict: v, plain: true})
			}
			if (sp.exit != 0) != (sum[1] > 0) {
				col.Failf("%s: exit status %d although the plain report counts %d failed tests", describe(ri), sp.exit, sum[1])
			}
			continue
		}

		// ---- JSON reporter ------------------------------------------------------
		var doc c10Doc
		br := bytes.NewReader(sp.stdout)
		dec := json.NewDecoder(br)
		if err := dec.Decode(&doc); err != nil {
			col.Failf("%s: stdout is not a JSON document: %v\n--- stdout ---\n%s\n--- stderr ---\n%s\n--- test file ---\n%s", describe(ri), err, clip(string(sp.stdout)), clip(string(sp.stderr)), src)
			continue
		}
		if rest, _ := io.ReadAll(io.MultiReader(dec.Buffered(), br)); len(bytes.TrimSpace(rest)) != 0 {
			col.Failf("%s: stdout holds more than one JSON document: trailing %q", describe(ri), clip(string(rest)))
		}
		if len(doc.Tests) != 1 || doc.Summary == nil {
			col.Failf("%s: expected one test file and a summary in the JSON report, got %d files\n--- stdout ---\n%s", describe(ri), len(doc.Tests), clip(string(sp.stdout)))
			continue
		}
		suites := doc.Tests[0].Suites
		gotBy := map[string]*c10Suite{}
		nPass, nFail, nSkip := 0, 0, 0
		dup := false
		for si := range suites {
			s := &suites[si]
			k := s.Name + "|" + s.Scope
			if gotBy[k] != nil {
				dup = true
			}
			gotBy[k] = s
			switch {
			case s.Skip:
				nSkip++
			case s.Error != "":
				nFail++
			default:
				nPass++
			}
		}
		if len(suites) != len(want) || dup {
			col.Failf("%s: %d results reported (duplicates: %v), %d tests (test x scope) were run\n--- stdout ---\n%s\n--- test file ---\n%s", describe(ri), len(suites), dup, len(want), clip(string(sp.stdout)), src)
		}
		if doc.Summary.Skips != nSkip {
			col.Failf("%s: summary.skips = %d but %d results are marked skipped", describe(ri), doc.Summary.Skips, nSkip)
		}
		if (doc.Summary.Fails > 0) != (nFail > 0) {
			col.Failf("%s: summary.fails = %d but %d results carry an error", describe(ri), doc.Summary.Fails, nFail)
		}
		if (sp.exit != 0) != (nFail > 0) {
			col.Failf("%s: exit status %d although %d results carry an error", describe(ri), sp.exit, nFail)
		}
		for _, w := range want {
			t := &c.Tests[w.ti]
			s := gotBy[t.Name+"|"+w.e.Scope]
			if s == nil {
				col.Failf("%s: test %q scope %s is missing from the JSON report\n--- stdout ---\n%s\n--- test file ---\n%s", describe(ri), t.Name, w.e.Scope, clip(string(sp.stdout)), src)
				continue
			}
			v := "pass"
			switch {
			case s.Skip:
				v = "skip"
			case s.Error != "":
				v = "fail"
			}
			if v != w.verdict {
				col.FailKey(keyFor(w.ti, v, s.Error, true), "%s: test %q scope %s reported as %s (error %q), constructed to %s (%s)\n--- test file ---\n%s\n--- main.vcl ---\n%s",
					describe(ri), t.Name, w.e.Scope, v, s.Error, w.verdict, w.e.Why, src, c.Main)
			}
			// logs: values against the construction, locations relative to the test
			o := c10Obs{run: ri, verdict: v}
			var vals []string
			for _, l := range s.Logs {
				m := c10LogLoc.FindStringSubmatch(l)
				if m == nil {
					o.logs = append(o.logs, l)
					vals = append(vals, l)
					continue
				}
				ln, _ := strconv.Atoi(m[3])
				loc := m[2] + ":" + m[3] + ":" + m[4]
				if m[2] == "main.test.vcl" {
					if own, ok := c10Owner(&c, run.Order, start, ln); ok {
						loc = fmt.Sprintf("%s:+%d:%s", c.Tests[own].Name, ln-start[own], m[4])
					}
				}
				o.logs = append(o.logs, m[1]+" @ "+loc)
				vals = append(vals, m[1])
			}
			if v != "skip" && v == w.verdict {
				ok := len(vals) == len(w.e.Logs)
				for i := 0; ok && i < len(vals); i++ {
					if w.e.Logs[i] != c10Wild && w.e.Logs[i] != vals[i] {
						ok = false
					}
				}
				if !ok {
					col.FailKey(keyFor(w.ti, v, s.Error, true), "%s: test %q scope %s logs %q, by construction it logs %q (* = any)\n--- test file ---\n%s\n--- main.vcl ---\n%s",
						describe(ri), t.Name, w.e.Scope, vals, strings.ReplaceAll(fmt.Sprint(w.e.Logs), c10Wild, "*"), src, c.Main)
				}
			}
			if v == "skip" && len(s.Logs) > 0 {
				col.Failf("%s: skipped test %q has logs %q", describe(ri), t.Name, s.Logs)
			}
			// error text with locations made relative
			o.err = c10ErrLoc.ReplaceAllStringFunc(s.Error, func(m string) string {
				ln, _ := strconv.Atoi(c10ErrLoc.FindStringSubmatch(m)[1])
				if own, ok := c10Owner(&c, run.Order, start, ln); ok {
					return fmt.Sprintf("main.test.vcl at line: %s+%d", c.Tests[own].Name, ln-start[own])
				}
				return m
			})
			if s.Line > 0 {
				o.errLine = fmt.Sprintf("%s:%d:%d", filepath.Base(s.File), s.Line, s.Position)
				if strings.HasSuffix(s.File, "main.test.vcl") {
					if own, ok := c10Owner(&c, run.Order, start, s.Line); ok {
						o.errLine = fmt.Sprintf("%s:+%d:%d", c.Tests[own].Name, s.Line-start[own], s.Position)
					}
				}
			}
			key := fmt.Sprintf("%d|%s", w.ti, w.e.Scope)
			seen[key] = append(seen[key], o)
		}
	}

	// ---- identity across runs -------------------------------------------------
	keys := make([]string, 0, len(seen))
	for k := range seen {
		keys = append(keys, k)
	}
	sort.Strings(keys)
	for _, k := range keys {
		obs := seen[k]
		var ti int
		var scope string
		fmt.Sscanf(strings.SplitN(k, "|", 2)[0], "%d", &ti)
		scope = strings.SplitN(k, "|", 2)[1]
		// reference: first JSON observation without coverage, else first JSON observation
		ref := -1
		for i, o := range obs {
			if !o.plain && !c.Runs[o.run].Coverage {
				ref = i
				break
			}
		}
		if ref < 0 {
			for i, o := range obs {
				if !o.plain {
					ref = i
					break
				}
			}
		}
		if ref < 0 {
			continue
		}
		r := obs[ref]
		for i, o := range obs {
			if i == ref {
				continue
			}
			// coverage finding: feature = the generator marked the test as a trigger
			// (it logs an output computed from captures read ahead of an
			// if-expression); signature = the two runs differ in coverage and the
			// logs differ at exactly those log positions and nowhere else
			key, logKey := "", ""
			if c10HasTrig(&c.Tests[ti], c10KeyIfExprCov) && c.Runs[o.run].Coverage != c.Runs[r.run].Coverage && len(o.logs) == len(r.logs) {
				var want []string
				for _, e := range c.Tests[ti].Expect {
					if e.Scope == scope {
						want = e.Logs
					}
				}
				logKey = c10KeyIfExprCov
				for li := range o.logs {
					if o.logs[li] != r.logs[li] && (li >= len(want) || want[li] != c10Wild) {
						logKey = ""
					}
				}
			}
			if o.verdict != r.verdict {
				col.FailKey(key, "test %q scope %s: verdict %s in %s but %s in %s\n--- test source ---\n%s\n--- main.vcl ---\n%s",
					c.Tests[ti].Name, scope, r.verdict, describe(r.run), o.verdict, describe(o.run), c.Tests[ti].Src, c.Main)
				continue
			}
			if o.plain {
				continue
			}
			if o.err != r.err || o.errLine != r.errLine {
				col.FailKey(key, "test %q scope %s: error %q at %s in %s but %q at %s in %s\n--- test source ---\n%s\n--- main.vcl ---\n%s",
					c.Tests[ti].Name, scope, r.err, r.errLine, describe(r.run), o.err, o.errLine, describe(o.run), c.Tests[ti].Src, c.Main)
			}
			if strings.Join(o.logs, "\n") != strings.Join(r.logs, "\n") {
				col.FailKey(logKey, "test %q scope %s: logs %q in %s but %q in %s\n--- test source ---\n%s\n--- main.vcl ---\n%s",
					c.Tests[ti].Name, scope, r.logs, describe(r.run), o.logs, describe(o.run), c.Tests[ti].Src, c.Main)
			}
		}
	}
	_ = lastFile

	for l := range labels {
		col.Label(l)
	}
	sort.Strings(col.Res.Labels)
	// non-trivial: >=2 tests with different verdicts, or a run pair differing in order/coverage
	pair := false
	for i := range c.Runs {
		for j := i + 1; j < len(c.Runs); j++ {
			a, b := c.Runs[i], c.Runs[j]
			if a.Plain || b.Plain {
				continue
			}
			if a.Coverage != b.Coverage || fmt.Sprint(a.Order) != fmt.Sprint(b.Order) {
				pair = true
			}
		}
	}
	col.Res.NonTrivial = len(verdicts) >= 2 || pair
	return col.Done()
}
