package props

import (
	"fmt"
	"math"
	"net"
	"strconv"

	"pgregory.net/rapid"

	"verif/ref"
)

// Type-directed generator of core-language programs (C07, C09, C13).

type corePool struct {
	Ints, Floats, Strs, Bools, RTimes, IPs, Hdrs []string
}

var pool = corePool{
	Ints:   []string{"var.i1", "var.i2", "var.i3"},
	Floats: []string{"var.f1", "var.f2"},
	Strs:   []string{"var.s1", "var.s2", "var.s3"},
	Bools:  []string{"var.b1", "var.b2"},
	RTimes: []string{"var.r1", "var.r2"},
	IPs:    []string{"var.ip1"},
	Hdrs:   []string{"req.http.H1", "req.http.H2", "req.http.H3"},
}

func (p corePool) all() []string {
	var out []string
	for _, l := range [][]string{p.Ints, p.Floats, p.Strs, p.Bools, p.RTimes, p.IPs, p.Hdrs} {
		out = append(out, l...)
	}
	return out
}

func (p corePool) typeOf(name string) string {
	for _, n := range p.Ints {
		if n == name {
			return ref.TInt
		}
	}
	for _, n := range p.Floats {
		if n == name {
			return ref.TFloat
		}
	}
	for _, n := range p.Bools {
		if n == name {
			return ref.TBool
		}
	}
	for _, n := range p.RTimes {
		if n == name {
			return ref.TRTime
		}
	}
	for _, n := range p.IPs {
		if n == name {
			return ref.TIP
		}
	}
	return ref.TStr
}

type coreGen struct {
	t      *rapid.T
	acls   []*ref.Acl
	nextID int
	depth  int
	// feature switches
	noSwitch bool
}

func (g *coreGen) n(lo, hi int, l string) int { return rapid.IntRange(lo, hi).Draw(g.t, l) }
func (g *coreGen) chance(pct int, l string) bool {
	return rapid.IntRange(0, 99).Draw(g.t, l) >= 100-pct
}
func pickS(g *coreGen, xs []string, l string) string { return xs[rapid.IntRange(0, len(xs)-1).Draw(g.t, l)] }

var coreStrings = []string{"a", "", "abc", "foo", "bar", "x1", "123", "aXc", "y", "xy", "foo bar", "A"}
var coreRegexes = []string{"^a", "b$", "a.c", "[0-9]+", "foo|bar", "x?y", "ab*", "(ab)+c", "^[a-z]+$", "X", "^$"}
var intBoundaries = []int64{0, 1, -1, 2, 7, 63, 64, 255, 1000, -1000, math.MaxInt32, math.MinInt32, 1 << 40}

func (g *coreGen) intLit() *ref.Expr {
	var v int64
	switch g.n(0, 3, "intclass") {
	case 0:
		v = int64(g.n(0, 9, "small"))
	case 1:
		v = int64(g.n(-1000, 1000, "mid"))
	case 2:
		v = intBoundaries[g.n(0, len(intBoundaries)-1, "ibound")]
	default:
		v = int64(g.n(-100000, 100000, "wide"))
	}
	return intLitOf(v)
}

func intLitOf(v int64) *ref.Expr {
	return &ref.Expr{K: "int", T: ref.TInt, I: v, Lit: strconv.FormatInt(v, 10)}
}

func (g *coreGen) floatLit() *ref.Expr {
	// literals with an exact short decimal spelling
	whole := g.n(-500, 500, "fwhole")
	frac := []string{"0", "5", "25", "125", "75"}[g.n(0, 4, "ffrac")]
	lit := fmt.Sprintf("%d.%s", whole, frac)
	if whole == 0 && frac != "0" && g.chance(50, "fneg") {
		lit = "-0." + frac // negative zero itself is not generated: its rendering is not documented
	}
	f, _ := strconv.ParseFloat(lit, 64)
	return &ref.Expr{K: "float", T: ref.TFloat, F: f, Lit: lit}
}

func (g *coreGen) rtimeLit() *ref.Expr {
	n := int64(g.n(0, 120, "rn"))
	unit := pickS(g, []string{"ms", "s", "m", "h", "ms", "s", "m", "h", "d", "y"}, "runit")
	mult := map[string]int64{"ms": 1, "s": 1000, "m": 60000, "h": 3600000, "d": 86400000, "y": 365 * 86400000}[unit]
	return &ref.Expr{K: "rtime", T: ref.TRTime, I: n * mult, Lit: fmt.Sprintf("%d%s", n, unit)}
}

func (g *coreGen) varOf(names []string, t string) *ref.Expr {
	return &ref.Expr{K: "var", T: t, Name: pickS(g, names, "var")}
}

func (g *coreGen) hdr() *ref.Expr {
	return &ref.Expr{K: "hdr", T: ref.TStr, Name: pickS(g, pool.Hdrs, "hdr")}
}

// strExpr draws a STRING-typed expression.
func (g *coreGen) strExpr(depth int) *ref.Expr {
	k := g.n(0, 9, "strkind")
	if depth <= 0 && k >= 6 {
		k = g.n(0, 5, "strleaf")
	}
	switch {
	case k <= 2:
		return &ref.Expr{K: "str", T: ref.TStr, S: pickS(g, coreStrings, "strlit")}
	case k <= 4:
		return g.varOf(pool.Strs, ref.TStr)
	case k == 5:
		return g.hdr()
	case k <= 7:
		a := g.strAtom(depth - 1)
		if g.chance(20, "typed-left-operand") {
			// a concatenation may start with (or consist only of) typed variables: `var.i var.f`
			a = g.catOperand()
			if a.K == "str" {
				a = g.varOf(pool.Ints, ref.TInt)
			}
		}
		b := g.catOperand()
		return &ref.Expr{K: "cat", T: ref.TStr, A: a, Bx: b, Expl: g.chance(50, "explicit")}
	default:
		return &ref.Expr{K: "ifx", T: ref.TStr, A: g.condExpr(depth - 1), Bx: g.strAtom(0), C: g.strAtom(0)}
	}
}

func (g *coreGen) strAtom(depth int) *ref.Expr {
	switch g.n(0, 3, "atom") {
	case 0:
		return &ref.Expr{K: "str", T: ref.TStr, S: pickS(g, coreStrings, "strlit")}
	case 1:
		return g.varOf(pool.Strs, ref.TStr)
	case 2:
		if depth > 0 {
			a := g.strAtom(depth - 1)
			return &ref.Expr{K: "cat", T: ref.TStr, A: a, Bx: g.catOperand(), Expl: g.chance(50, "explicit")}
		}
		return g.varOf(pool.Strs, ref.TStr)
	default:
		return &ref.Expr{K: "hdr", T: ref.TStr, Name: pickS(g, pool.Hdrs[:2], "sethdr")}
	}
}

// catOperand: right operand of a concatenation (string literal/variable, or a
// typed variable converted to its string form).
func (g *coreGen) catOperand() *ref.Expr {
	switch g.n(0, 7, "catop") {
	case 0, 1:
		return &ref.Expr{K: "str", T: ref.TStr, S: pickS(g, coreStrings, "strlit")}
	case 2, 3:
		return g.varOf(pool.Strs, ref.TStr)
	case 4:
		return g.varOf(pool.Ints, ref.TInt)
	case 5:
		return g.varOf(pool.Bools, ref.TBool)
	case 6:
		return g.varOf(pool.RTimes, ref.TRTime)
	default:
		return g.varOf(pool.Floats, ref.TFloat)
	}
}

var cmpOps = []string{"==", "!=", "<", ">", "<=", ">="}

// condExpr draws a condition (boolean context).
func (g *coreGen) condExpr(depth int) *ref.Expr {
	k := g.n(0, 13, "condkind")
	if depth <= 0 && k >= 10 {
		k = g.n(0, 9, "condleaf")
	}
	switch k {
	case 0, 1:
		return &ref.Expr{K: "cmp", Op: pickS(g, cmpOps, "cmpop"), A: g.varOf(pool.Ints, ref.TInt), Bx: g.intOperand()}
	case 2:
		return &ref.Expr{K: "cmp", Op: pickS(g, cmpOps, "cmpop"), A: g.varOf(pool.Floats, ref.TFloat), Bx: g.floatOperand()}
	case 3:
		return &ref.Expr{K: "cmp", Op: pickS(g, cmpOps, "cmpop"), A: g.varOf(pool.RTimes, ref.TRTime), Bx: g.rtimeOperand()}
	case 4, 5:
		var l *ref.Expr
		if g.chance(50, "lhdr") {
			l = g.hdr()
		} else {
			l = g.varOf(pool.Strs, ref.TStr)
		}
		var r *ref.Expr
		switch g.n(0, 2, "streqr") {
		case 0:
			r = &ref.Expr{K: "str", T: ref.TStr, S: pickS(g, coreStrings, "strlit")}
		case 1:
			r = g.varOf(pool.Strs, ref.TStr)
		default:
			r = g.hdr()
		}
		return &ref.Expr{K: "cmp", Op: pickS(g, []string{"==", "!="}, "eqop"), A: l, Bx: r}
	case 6:
		var l *ref.Expr
		if g.chance(50, "lhdr") {
			l = g.hdr()
		} else {
			l = g.varOf(pool.Strs, ref.TStr)
		}
		return &ref.Expr{K: "match", A: l, S: pickS(g, coreRegexes, "regex"), Neg: g.chance(40, "negmatch")}
	case 7:
		return &ref.Expr{K: "truth", A: g.varOf(pool.Bools, ref.TBool)}
	case 8:
		if g.chance(40, "truth-of-local") {
			return &ref.Expr{K: "truth", A: g.varOf(pool.Strs, ref.TStr)} // a STRING local: falsy while not set
		}
		return &ref.Expr{K: "truth", A: g.hdr()}
	case 9:
		if len(g.acls) > 0 {
			return &ref.Expr{K: "aclmatch", A: g.varOf(pool.IPs, ref.TIP), Name: g.acls[g.n(0, len(g.acls)-1, "acl")].Name, Neg: g.chance(30, "negacl")}
		}
		return &ref.Expr{K: "cmp", Op: pickS(g, []string{"==", "!="}, "eqop"), A: g.varOf(pool.Bools, ref.TBool), Bx: &ref.Expr{K: "bool", T: ref.TBool, B: g.chance(50, "b")}}
	case 10:
		return &ref.Expr{K: "and", A: g.condOperand(depth - 1), Bx: g.condOperand(depth - 1)}
	case 11:
		return &ref.Expr{K: "or", A: g.condOperand(depth - 1), Bx: g.condOperand(depth - 1)}
	case 12:
		x := g.n(0, 1, "notkind")
		if x == 0 {
			return &ref.Expr{K: "not", A: &ref.Expr{K: "truth", A: g.hdr()}}
		}
		return &ref.Expr{K: "not", A: &ref.Expr{K: "grp", A: g.condExpr(depth - 1)}}
	default:
		return &ref.Expr{K: "grp", A: g.condExpr(depth - 1)}
	}
}

// condOperand wraps compound operands in parentheses so that the rendering
// never relies on the precedence table (C02 covers that).
func (g *coreGen) condOperand(depth int) *ref.Expr {
	c := g.condExpr(depth)
	switch c.K {
	case "and", "or", "cmp", "match", "aclmatch":
		return &ref.Expr{K: "grp", A: c}
	}
	return c
}

func (g *coreGen) intOperand() *ref.Expr {
	if g.chance(40, "intvar") {
		return g.varOf(pool.Ints, ref.TInt)
	}
	return g.intLit()
}

func (g *coreGen) floatOperand() *ref.Expr {
	if g.chance(40, "floatvar") {
		return g.varOf(pool.Floats, ref.TFloat)
	}
	return g.floatLit()
}

func (g *coreGen) rtimeOperand() *ref.Expr {
	if g.chance(40, "rtimevar") {
		return g.varOf(pool.RTimes, ref.TRTime)
	}
	return g.rtimeLit()
}

var intAssignOps = []string{"=", "+=", "-=", "*=", "/=", "%=", "|=", "&=", "^=", "<<=", ">>=", "rol=", "ror="}

func (g *coreGen) id() int {
	g.nextID++
	return g.nextID
}

// stmt draws one statement.
func (g *coreGen) stmt(nest int) ref.Stmt {
	k := g.n(0, 19, "stmtkind")
	if nest >= 3 && k >= 14 && k <= 17 {
		k = g.n(0, 13, "flatkind")
	}
	switch {
	case k <= 2: // integer assignment
		op := pickS(g, intAssignOps, "intop")
		var r *ref.Expr
		switch op {
		case "<<=", ">>=", "rol=", "ror=":
			r = intLitOf(int64(g.n(0, 63, "shiftcount")))
			if g.chance(70, "smallshift") {
				r = intLitOf(int64(g.n(0, 8, "smallcount")))
			}
			if g.chance(30, "count-from-variable") {
				r = g.varOf(pool.Ints, ref.TInt) // the count is read from a variable (which must not change)
			}
		case "/=", "%=":
			r = g.intOperand()
			if r.K == "int" && r.I == 0 {
				r = intLitOf(3)
			}
		case "=", "+=", "-=", "*=":
			r = g.intOperand()
			if g.chance(15, "int-from-float") {
				r = g.varOf(pool.Floats, ref.TFloat) // INTEGER op= FLOAT variable (a FLOAT literal is a type error)
			}
		default:
			r = g.intOperand()
		}
		if op == "/=" && g.chance(15, "intdiv-by-float") {
			r = g.varOf(pool.Floats, ref.TFloat)
		}
		return ref.Stmt{K: "set", ID: g.id(), Name: pickS(g, pool.Ints, "itarget"), Op: op, E: r}
	case k == 3: // float
		op := pickS(g, []string{"=", "+=", "-=", "*=", "/="}, "floatop")
		r := g.floatOperand()
		if op == "/=" && r.K == "float" && r.F == 0 {
			r = &ref.Expr{K: "float", T: ref.TFloat, F: 2.5, Lit: "2.5"}
		}
		if op == "=" && g.chance(12, "float-from-rtime") {
			return ref.Stmt{K: "set", ID: g.id(), Name: pickS(g, pool.Floats, "ftarget"), Op: "=", E: g.varOf(pool.RTimes, ref.TRTime)}
		}
		if g.chance(25, "float-from-int") {
			r = g.intOperand() // FLOAT op= INTEGER
			if op == "/=" && r.K == "int" && r.I == 0 {
				r = intLitOf(4)
			}
		}
		return ref.Stmt{K: "set", ID: g.id(), Name: pickS(g, pool.Floats, "ftarget"), Op: op, E: r}
	case k == 4: // rtime
		if g.chance(25, "rtime-numeric") {
			// RTIME op= INTEGER / FLOAT: factor for *= and /=, seconds (variables only) for += and -=
			op := pickS(g, []string{"*=", "/=", "+=", "-="}, "rtimenumop")
			var r *ref.Expr
			switch {
			case op == "+=" || op == "-=":
				r = g.varOf(pool.Ints, ref.TInt)
			case g.chance(30, "rtime-float-factor"):
				r = g.varOf(pool.Floats, ref.TFloat)
			default:
				r = intLitOf(int64(g.n(1, 9, "rtimefactor")))
				if g.chance(40, "rtime-int-var") {
					r = g.varOf(pool.Ints, ref.TInt)
				}
			}
			return ref.Stmt{K: "set", ID: g.id(), Name: pickS(g, pool.RTimes, "rtarget"), Op: op, E: r}
		}
		return ref.Stmt{K: "set", ID: g.id(), Name: pickS(g, pool.RTimes, "rtarget"), Op: pickS(g, []string{"=", "+=", "-="}, "rtimeop"), E: g.rtimeOperand()}
	case k <= 6: // string local
		return ref.Stmt{K: "set", ID: g.id(), Name: pickS(g, pool.Strs, "starget"), Op: pickS(g, []string{"=", "=", "+="}, "strop"), E: g.strExpr(2)}
	case k == 7: // bool
		op := pickS(g, []string{"=", "=", "&&=", "||="}, "boolop")
		var r *ref.Expr
		switch g.n(0, 2, "boolr") {
		case 0:
			r = &ref.Expr{K: "bool", T: ref.TBool, B: g.chance(50, "b")}
		case 1:
			r = g.varOf(pool.Bools, ref.TBool)
		default:
			if op == "=" {
				// a parenthesised comparison; bare truthiness of a string is not assignable
				c := g.condExpr(0)
				for c.K != "cmp" && c.K != "match" && c.K != "aclmatch" {
					c = &ref.Expr{K: "cmp", Op: pickS(g, cmpOps, "cmpop"), A: g.varOf(pool.Ints, ref.TInt), Bx: g.intOperand()}
				}
				r = &ref.Expr{K: "grp", A: c}
			} else {
				r = g.varOf(pool.Bools, ref.TBool)
			}
		}
		return ref.Stmt{K: "set", ID: g.id(), Name: pickS(g, pool.Bools, "btarget"), Op: op, E: r}
	case k == 8: // ip
		return ref.Stmt{K: "set", ID: g.id(), Name: pool.IPs[0], Op: "=", E: &ref.Expr{K: "ip", T: ref.TIP, S: g.probeAddress()}}
	case k <= 10: // header set
		return ref.Stmt{K: "set", ID: g.id(), Name: pickS(g, pool.Hdrs, "htarget"), Op: "=", E: g.strExpr(2)}
	case k == 11:
		return ref.Stmt{K: "unset", ID: g.id(), Name: pickS(g, pool.Hdrs, "hunset")}
	case k <= 13: // log
		return ref.Stmt{K: "log", ID: g.id(), E: &ref.Expr{K: "cat", T: ref.TStr, A: &ref.Expr{K: "str", T: ref.TStr, S: fmt.Sprintf("L%d=", g.nextID+1)}, Bx: g.catOperand(), Expl: true}}
	case k <= 16: // if
		s := ref.Stmt{K: "if", ID: g.id()}
		s.Arms = append(s.Arms, ref.Arm{Cond: g.condExpr(2), Body: g.block(nest + 1)})
		for i, n := 0, g.n(0, 2, "nelif"); i < n; i++ {
			s.Arms = append(s.Arms, ref.Arm{Cond: g.condExpr(2), Body: g.block(nest + 1), Kw: pickS(g, []string{"else if", "elseif", "elsif"}, "elifkw")})
		}
		if g.chance(60, "else") {
			s.HasEl = true
			s.Else = g.block(nest + 1)
		}
		return s
	case k == 17 && !g.noSwitch: // switch
		s := ref.Stmt{K: "switch", ID: g.id()}
		if g.chance(50, "swhdr") {
			s.E = g.hdr()
		} else {
			s.E = g.varOf(pool.Strs, ref.TStr)
		}
		n := g.n(1, 4, "ncases")
		def := -1
		if g.chance(60, "default") {
			def = g.n(0, n-1, "defpos")
		}
		seen := map[string]bool{}
		for i := 0; i < n; i++ {
			c := ref.Case{Body: g.block(nest + 1)}
			if i == def {
				c.Default = true
			} else {
				c.Regex = g.chance(35, "caseregex")
				for tries := 0; ; tries++ {
					if c.Regex {
						c.Test = pickS(g, coreRegexes, "casere")
					} else {
						c.Test = pickS(g, coreStrings, "casestr")
					}
					key := fmt.Sprint(c.Regex, c.Test)
					if !seen[key] {
						seen[key] = true
						break
					}
					if tries > 20 {
						c.Test = fmt.Sprintf("u%d", i)
						c.Regex = false
						break
					}
				}
			}
			if i < n-1 {
				c.Fallthrough = g.chance(35, "fallthrough")
			}
			s.Cases = append(s.Cases, c)
		}
		return s
	default:
		return ref.Stmt{K: "log", ID: g.id(), E: &ref.Expr{K: "str", T: ref.TStr, S: fmt.Sprintf("M%d", g.nextID+1)}}
	}
}

func (g *coreGen) block(nest int) []ref.Stmt {
	n := g.n(0, 3, "blocklen")
	out := []ref.Stmt{{K: "log", ID: g.id(), E: &ref.Expr{K: "str", T: ref.TStr, S: fmt.Sprintf("B%d", g.nextID+1)}}}
	for i := 0; i < n; i++ {
		out = append(out, g.stmt(nest))
	}
	return out
}

// prelude declares and initialises the pool.
func (g *coreGen) prelude() []ref.Stmt {
	var out []ref.Stmt
	decl := func(names []string, t string) {
		for _, n := range names {
			out = append(out, ref.Stmt{K: "declare", ID: g.id(), Name: n, T: t})
		}
	}
	decl(pool.Ints, ref.TInt)
	decl(pool.Floats, ref.TFloat)
	decl(pool.Strs, ref.TStr)
	decl(pool.Bools, ref.TBool)
	decl(pool.RTimes, ref.TRTime)
	decl(pool.IPs, ref.TIP)
	for _, n := range pool.Ints {
		out = append(out, ref.Stmt{K: "set", ID: g.id(), Name: n, Op: "=", E: g.intLit()})
	}
	for _, n := range pool.Floats {
		out = append(out, ref.Stmt{K: "set", ID: g.id(), Name: n, Op: "=", E: g.floatLit()})
	}
	for _, n := range pool.Strs[:2] {
		out = append(out, ref.Stmt{K: "set", ID: g.id(), Name: n, Op: "=", E: &ref.Expr{K: "str", T: ref.TStr, S: pickS(g, coreStrings, "init")}})
	}
	for _, n := range pool.Bools {
		out = append(out, ref.Stmt{K: "set", ID: g.id(), Name: n, Op: "=", E: &ref.Expr{K: "bool", T: ref.TBool, B: g.chance(50, "b")}})
	}
	for _, n := range pool.RTimes {
		out = append(out, ref.Stmt{K: "set", ID: g.id(), Name: n, Op: "=", E: g.rtimeLit()})
	}
	out = append(out, ref.Stmt{K: "set", ID: g.id(), Name: pool.IPs[0], Op: "=", E: &ref.Expr{K: "ip", T: ref.TIP, S: g.probeAddress()}})
	for _, n := range pool.Hdrs[:2] {
		out = append(out, ref.Stmt{K: "set", ID: g.id(), Name: n, Op: "=", E: &ref.Expr{K: "str", T: ref.TStr, S: pickS(g, coreStrings[2:], "hinit")}})
	}
	return out
}

// program draws prelude + body.
func (g *coreGen) program(maxStmts int) []ref.Stmt {
	out := g.prelude()
	n := g.n(1, maxStmts, "nstmts")
	for i := 0; i < n; i++ {
		out = append(out, g.stmt(0))
	}
	return out
}

// ---------------------------------------------------------------------------
// ACLs and probe addresses

var v4Bases = []string{"10.0.0.0", "10.1.2.3", "192.168.0.1", "192.168.100.200", "172.16.5.4", "8.8.8.8", "127.0.0.1", "255.255.255.255", "0.0.0.0"}
var v6Bases = []string{"2001:db8::1", "2001:db8:1::", "::1", "fe80::1234", "2001:db8:ffff:ffff::"}

func (g *coreGen) genAcls() {
	n := g.n(0, 2, "nacls")
	for i := 0; i < n; i++ {
		a := &ref.Acl{Name: fmt.Sprintf("acl_%d", i)}
		m := g.n(1, 8, "nentries")
		polarity := map[string]bool{}
		for j := 0; j < m; j++ {
			e := ref.AclEntry{Neg: g.chance(30, "neg"), Mask: -1}
			v6 := g.chance(25, "v6")
			if v6 {
				e.IP = pickS(g, v6Bases, "v6base")
				if g.chance(70, "hasmask") {
					e.Mask = []int{0, 16, 32, 48, 64, 96, 127, 128}[g.n(0, 7, "v6mask")]
				}
			} else {
				e.IP = pickS(g, v4Bases, "v4base")
				if g.chance(70, "hasmask") {
					e.Mask = []int{0, 8, 12, 16, 24, 25, 30, 31, 32}[g.n(0, 8, "v4mask")]
				}
			}
			// the statement does not order entries of equal specificity that disagree:
			// keep one polarity per (network, mask)
			key := networkKey(e)
			if neg, ok := polarity[key]; ok {
				e.Neg = neg
			}
			polarity[key] = e.Neg
			a.Entries = append(a.Entries, e)
		}
		g.acls = append(g.acls, a)
	}
}

func networkKey(e ref.AclEntry) string {
	ip := net.ParseIP(e.IP)
	size := 128
	if ip.To4() != nil {
		size = 32
	}
	mask := e.Mask
	if mask < 0 {
		mask = size
	}
	var n net.IP
	if size == 32 {
		n = ip.To4().Mask(net.CIDRMask(mask, 32))
	} else {
		n = ip.To16().Mask(net.CIDRMask(mask, 128))
	}
	return fmt.Sprintf("%s/%d", n.String(), mask)
}

// probeAddress: inside, on the boundaries of, and outside ACL entries.
func (g *coreGen) probeAddress() string {
	var entries []ref.AclEntry
	for _, a := range g.acls {
		entries = append(entries, a.Entries...)
	}
	if len(entries) == 0 || g.chance(20, "randaddr") {
		if g.chance(25, "v6addr") {
			return pickS(g, v6Bases, "v6addr")
		}
		return pickS(g, v4Bases, "v4addr")
	}
	e := entries[g.n(0, len(entries)-1, "probeentry")]
	ip := net.ParseIP(e.IP)
	size := 128
	b := ip.To16()
	if ip.To4() != nil {
		size = 32
		b = ip.To4()
	}
	mask := e.Mask
	if mask < 0 {
		mask = size
	}
	network := append(net.IP{}, b.Mask(net.CIDRMask(mask, size))...)
	last := append(net.IP{}, network...)
	for i := mask; i < size; i++ {
		last[i/8] |= 1 << uint(7-i%8)
	}
	switch g.n(0, 4, "probekind") {
	case 0:
		return network.String() // first address
	case 1:
		return last.String() // last address
	case 2: // just below the network
		return addIP(network, -1).String()
	case 3: // just above the range
		return addIP(last, 1).String()
	default:
		return ip.String()
	}
}

func addIP(ip net.IP, d int) net.IP {
	out := append(net.IP{}, ip...)
	for i := len(out) - 1; i >= 0; i-- {
		v := int(out[i]) + d
		if v >= 0 && v <= 255 {
			out[i] = byte(v)
			return out
		}
		if v < 0 {
			out[i] = 255
			d = -1
		} else {
			out[i] = 0
			d = 1
		}
	}
	return out
}
