package props

import (
	"encoding/json"
	"fmt"
	"os"
	"path/filepath"
	"sort"
	"strconv"
	"strings"
	"testing"
	"time"

	"pgregory.net/rapid"

	"verif/iso"
)

var stats *iso.Stats

type corpusResult struct {
	File   string   `json:"file"`
	Expect string   `json:"expect"`
	Status string   `json:"status"`
	Msg    string   `json:"msg,omitempty"`
	Known  []string `json:"known,omitempty"`
}

func TestMain(m *testing.M) {
	if os.Getenv("VERIF_WORKER") == "1" {
		iso.WorkerMain()
		os.Exit(0)
	}
	id := os.Getenv("VERIF_PROP")
	stats = iso.NewStats(id)
	if p := iso.Lookup(id); p != nil {
		stats.Rule = p.Rule
	}
	switch os.Getenv("VERIF_MODE") {
	case "corpus":
		os.Exit(runCorpus(id))
	case "replay":
		os.Exit(runReplay(id))
	}
	code := m.Run()
	if p := os.Getenv("VERIF_STATS"); p != "" {
		if err := stats.Write(p); err != nil {
			fmt.Fprintln(os.Stderr, "cannot write stats:", err)
			os.Exit(2)
		}
	}
	os.Exit(code)
}

func runCorpus(id string) int {
	p := iso.Lookup(id)
	if p == nil {
		fmt.Fprintln(os.Stderr, "unknown property", id)
		return 2
	}
	dir := os.Getenv("VERIF_CORPUS_DIR")
	files, _ := filepath.Glob(filepath.Join(dir, "*.json"))
	sort.Strings(files)
	runner := &iso.Runner{}
	defer runner.Close()
	var out []corpusResult
	for _, f := range files {
		rp, err := iso.ReadReplay(f)
		if err != nil {
			fmt.Fprintln(os.Stderr, "bad corpus file", f, err)
			return 2
		}
		res := runner.Run(p, rp.Case)
		stats.Record(rp.Case, res)
		out = append(out, corpusResult{File: f, Expect: rp.Expect, Status: res.Status, Msg: res.Msg, Known: res.Known})
	}
	b, _ := json.Marshal(map[string]any{"corpus": out, "stats": stats})
	if sp := os.Getenv("VERIF_STATS"); sp != "" {
		stats.Write(sp + ".stats")
		os.WriteFile(sp, b, 0o644)
	}
	return 0
}

func runReplay(id string) int {
	f := os.Getenv("VERIF_REPLAY")
	rp, err := iso.ReadReplay(f)
	if err != nil {
		fmt.Fprintln(os.Stderr, "bad replay file", f, err)
		return 2
	}
	if id == "" {
		id = rp.Property
	}
	p := iso.Lookup(id)
	if p == nil {
		fmt.Fprintln(os.Stderr, "unknown property", id)
		return 2
	}
	runner := &iso.Runner{}
	defer runner.Close()
	res := runner.Run(p, rp.Case)
	b, _ := json.MarshalIndent(res, "", " ")
	fmt.Println(string(b))
	if res.Status == iso.Fail {
		fmt.Printf("VIOLATION property=%s replay=%s\n", id, f)
		return 1
	}
	return 0
}

// TestProp is the rapid-driven campaign for the property in VERIF_PROP.
func TestProp(t *testing.T) {
	id := os.Getenv("VERIF_PROP")
	p := iso.Lookup(id)
	g := gens[id]
	if p == nil || g == nil {
		t.Skip("no property selected")
	}
	runner := &iso.Runner{}
	defer runner.Close()
	budget := 0.0
	if s := os.Getenv("VERIF_BUDGET_S"); s != "" {
		budget, _ = strconv.ParseFloat(s, 64)
	}
	start := time.Now()
	var lastRaw json.RawMessage
	var lastMsg string
	failed := false
	var firstViolation *iso.Violation
	_ = firstViolation
	triage := os.Getenv("VERIF_TRIAGE") == "1" // development aid: record failures without shrinking and continue
	ntriage := 0
	defer func() {
		if failed {
			dir := os.Getenv("VERIF_REPLAY_DIR")
			if dir == "" {
				dir = "/verif/replay/" + id
			}
			path, err := iso.WriteReplay(dir, id, lastRaw, lastMsg, os.Getenv("VERIF_SEED"))
			if err != nil {
				fmt.Fprintln(os.Stderr, "cannot write replay:", err)
			}
			stats.AddViolation(iso.Violation{Replay: path, Msg: firstLines(lastMsg, 12)})
		}
	}()
	rapid.Check(t, func(rt *rapid.T) {
		if !failed && budget > 0 && time.Since(start).Seconds() > budget {
			stats.Extra["budget_exhausted"] = 1
			return
		}
		c := g(rt)
		raw, err := json.Marshal(c)
		if err != nil {
			panic(err)
		}
		res := runner.Run(p, raw)
		if !failed {
			stats.Record(raw, res)
		}
		if res.Status == iso.Fail {
			if triage {
				ntriage++
				if ntriage <= 60 {
					dir := os.Getenv("VERIF_REPLAY_DIR")
					path, _ := iso.WriteReplay(dir, id, raw, res.Msg, os.Getenv("VERIF_SEED"))
					stats.AddViolation(iso.Violation{Replay: path, Msg: firstLines(res.Msg, 3)})
				}
				return
			}
			if !failed {
				// Record the unshrunk failure at once: if this process is killed while shrinking
				// (hangs make every shrink step cost a deadline) the violation is not lost.
				dir := os.Getenv("VERIF_REPLAY_DIR")
				if dir == "" {
					dir = "/verif/replay/" + id
				}
				if path, err := iso.WriteReplay(dir, id, raw, res.Msg, os.Getenv("VERIF_SEED")); err == nil {
					firstViolation = &iso.Violation{Replay: path, Msg: firstLines(res.Msg, 12)}
					if sp := os.Getenv("VERIF_STATS"); sp != "" {
						stats.AddViolation(*firstViolation)
						stats.Write(sp) // nolint:errcheck
						stats.DropLastViolation()
					}
				}
			}
			failed = true
			lastRaw, lastMsg = raw, res.Msg
			rt.Fatalf("%s", res.Msg)
		}
	})
}

// Enumerations: complete enumeration of a finite space, sharded by index.
type Enum func(emit func(c any))

var enums = map[string]Enum{}

func TestEnum(t *testing.T) {
	id := os.Getenv("VERIF_PROP")
	p := iso.Lookup(id)
	e := enums[id]
	if p == nil || e == nil {
		t.Skip("no enumeration selected")
	}
	shard, _ := strconv.Atoi(os.Getenv("VERIF_SHARD"))
	nshards, _ := strconv.Atoi(os.Getenv("VERIF_NSHARDS"))
	if nshards < 1 {
		nshards = 1
	}
	slice, _ := strconv.Atoi(os.Getenv("VERIF_ENUM_SLICE")) // run every slice-th cell only (0/1 = all)
	sliceOff, _ := strconv.Atoi(os.Getenv("VERIF_ENUM_OFFSET"))
	runner := &iso.Runner{}
	defer runner.Close()
	idx := -1
	total := 0
	nviol := 0
	e(func(c any) {
		idx++
		total++
		if idx%nshards != shard {
			return
		}
		if slice > 1 && (idx/nshards)%slice != sliceOff%slice {
			return
		}
		raw, err := json.Marshal(c)
		if err != nil {
			panic(err)
		}
		res := runner.Run(p, raw)
		stats.Record(raw, res)
		if res.Status == iso.Fail {
			nviol++
			if nviol <= 5 {
				dir := os.Getenv("VERIF_REPLAY_DIR")
				if dir == "" {
					dir = "/verif/replay/" + id
				}
				path, _ := iso.WriteReplay(dir, id, raw, res.Msg, os.Getenv("VERIF_SEED"))
				stats.AddViolation(iso.Violation{Replay: path, Msg: firstLines(res.Msg, 12)})
				t.Errorf("%s", res.Msg)
			}
		}
	})
	stats.Extra["enum_space"] = total
}

func firstLines(s string, n int) string {
	ls := strings.Split(s, "\n")
	if len(ls) > n {
		ls = ls[:n]
	}
	return strings.Join(ls, "\n")
}
