// Package props holds one file per property: a generator (parent side) and a
// Check function (worker side). See DESIGN.md §1.3.
package props

import (
	"encoding/json"
	"os"
	"time"

	"pgregory.net/rapid"

	"verif/iso"
)

// Tier parameters.
var Thorough = os.Getenv("VERIF_TIER") == "thorough"

// Gen draws one case; the returned value is marshalled to JSON and handed to
// Check in the worker.
type Gen func(t *rapid.T) any

var gens = map[string]Gen{}

// register adds a property with its generator and checker.
func register(id, rule string, g Gen, check func(raw json.RawMessage) iso.Result, deadline time.Duration) {
	gens[id] = g
	iso.Register(&iso.Prop{ID: id, Rule: rule, Check: check, Deadline: deadline})
}

// pick returns q in the quick tier and th in the thorough tier.
func pick(q, th int) int {
	if Thorough {
		return th
	}
	return q
}
