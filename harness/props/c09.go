package props

import (
	"encoding/json"
	"fmt"
	"net/http"
	"net/http/httptest"
	"sort"
	"strings"
	"time"

	"github.com/ysugimoto/falco/v2/config"
	"github.com/ysugimoto/falco/v2/interpreter"
	icontext "github.com/ysugimoto/falco/v2/interpreter/context"
	"github.com/ysugimoto/falco/v2/lexer"
	"github.com/ysugimoto/falco/v2/linter"
	lcontext "github.com/ysugimoto/falco/v2/linter/context"
	"github.com/ysugimoto/falco/v2/parser"
	"github.com/ysugimoto/falco/v2/resolver"
	"github.com/ysugimoto/falco/v2/snippet"
	"pgregory.net/rapid"

	"verif/canon"
	"verif/iso"
	"verif/ref"
)

// C09 — comments and layout never change what a program means (metamorphic).

type C09Case struct {
	Snippets bool `json:"snippets,omitempty"` // lifecycle kind: VCL snippets for the recv and deliver macros are configured
	Kind      string     `json:"kind"` // core | lint | lifecycle | tester
	Main      string     `json:"main,omitempty"` // tester kind: main VCL (Plain / Decorated hold the test file)
	Acls      []*ref.Acl `json:"acls,omitempty"`
	Plain     string     `json:"plain"`
	Decorated string     `json:"decorated"`
	URLs      []string   `json:"urls,omitempty"`
	NComments int        `json:"ncomments"`
	Slots     []string   `json:"slots,omitempty"` // token pairs around inserted comments (for labels)
}

func init() {
	register("C09",
		"base programs (type-directed core programs run at statement level; the same programs wrapped in vcl_recv with injected lint errors; synthesised nine-subroutine lifecycle VCLs from the C06 plan generator; kind tester: the main VCL and test file of the C10 generator, the test file decorated with ordinary comments in front of, between and behind the @scope/@suite/@skip annotation lines and around statements, both run through `falco test -json` and the reports compared without positions and timings) kind reject: switch statements with duplicate case labels or two default clauses, which the parser rejects — the decorated text must be rejected too; each rendered plainly and with decorations: ordinary #, // and /* */ comments between arbitrary tokens (inside return( ), around operators, between else and if, inside argument lists, after case labels), blank lines, indentation, line breaks; oracle (metamorphic): both texts parse to the same canonical tree, lint diagnostics are equal as multisets of (rule, severity, message), simulator runs give equal logs, final pooled values, flows, restarts, status and headers (minus Date/Age). non-trivial: >=1 comment at an inline position and the base program has >=1 diagnostic or executes >=1 branch; distinct by (plain, decorated)",
		genC09, checkC09, 20*time.Second)
}

// vclTokens splits harness-rendered VCL into tokens (the harness controls the
// rendering, so a small lexer is enough and independent of falco's).
func vclTokens(src string) []string {
	var toks []string
	ops := []string{"&&=", "||=", "<<=", ">>=", "rol=", "ror=", "==", "!=", "<=", ">=", "&&", "||", "+=", "-=", "*=", "/=", "%=", "|=", "&=", "^=", "!~", "~", "=", "<", ">", "+", "!", "(", ")", "{", "}", ";", ",", ":"}
	isWord := func(c byte) bool {
		return c == '_' || c == '.' || c == '-' || c == ':' || c >= '0' && c <= '9' || c >= 'a' && c <= 'z' || c >= 'A' && c <= 'Z'
	}
	i := 0
	for i < len(src) {
		c := src[i]
		switch {
		case c == ' ' || c == '\n' || c == '\t' || c == '\r':
			i++
		case c == '#' || strings.HasPrefix(src[i:], "// @") || strings.HasPrefix(src[i:], "// falco-"): // macro/annotation/directive comment line produced by the harness: keep as one token incl. newline
			j := strings.IndexByte(src[i:], '\n')
			if j < 0 {
				j = len(src) - i
			}
			toks = append(toks, src[i:i+j]+"\n")
			i += j
		case c == '"':
			j := i + 1
			for j < len(src) && src[j] != '"' {
				j++
			}
			toks = append(toks, src[i:j+1])
			i = j + 1
		case c == '{' && i+1 < len(src) && (src[i+1] == '"' || strings.HasPrefix(src[i+1:], "QZ\"")):
			end := "\"}"
			if src[i+1] != '"' {
				end = "\"QZ}"
			}
			j := strings.Index(src[i+2:], end)
			toks = append(toks, src[i:i+2+j+len(end)])
			i = i + 2 + j + len(end)
		case isWord(c) && c != ':' && !(c == '-' && i+1 < len(src) && src[i+1] == '='):
			j := i
			for j < len(src) && isWord(src[j]) {
				j++
			}
			w := src[i:j]
			if (w == "rol" || w == "ror") && j < len(src) && src[j] == '=' {
				w += "="
				j++
			}
			toks = append(toks, w)
			i = j
		default:
			matched := false
			for _, op := range ops {
				if strings.HasPrefix(src[i:], op) {
					toks = append(toks, op)
					i += len(op)
					matched = true
					break
				}
			}
			if !matched {
				toks = append(toks, string(c))
				i++
			}
		}
	}
	return toks
}

var c09Words = []string{"@see docs", "@todo tidy up", "@author me", "note", "todo: x", "keep", "a=b", "set req.http.A = \"b\";", "if (x) {", "}", "return(pass)", "100%", "héllo", "; ;", "\"q\"", "restart", "error 500"}

// decorate joins tokens with drawn whitespace and ordinary comments.
func decorate(t *rapid.T, toks []string) (string, int, []string) {
	var b strings.Builder
	n := 0
	var slots []string
	density := rapid.IntRange(0, 35).Draw(t, "density")
	for i, tok := range toks {
		if i > 0 {
			prev := toks[i-1]
			ws := rapid.SampledFrom([]string{" ", " ", "\n", "  ", "\t", "\n\n", "\n    "}).Draw(t, "ws")
			glued := strings.HasPrefix(prev, "#") || strings.HasPrefix(prev, "// @") || strings.HasPrefix(prev, "// falco-") // after a macro/annotation/directive line we are already on a fresh line
			if glued {
				ws = ""
				if strings.HasPrefix(prev, "// falco-ignore-next-line") {
					// empty lines between the directive and its statement are layout only
					ws = rapid.SampledFrom([]string{"", "", "\n", "\n\n", "  "}).Draw(t, "ws-after-directive")
				}
			}
			trailingDirective := strings.HasPrefix(tok, "// falco-ignore\n") || strings.HasPrefix(tok, "// falco-ignore ")
			if trailingDirective {
				ws = " " // a trailing directive stays on the line of its statement
			}
			if (strings.Contains(tok, "@scope") || strings.HasPrefix(tok, "// falco-ignore-next-line")) && !strings.Contains(ws, "\n") {
				// an annotation stays on a line of its own: on the line of the previous token it
				// would be that token's trailing comment and annotate nothing
				ws = "\n"
			}
			b.WriteString(ws)
			if density > 0 && rapid.IntRange(0, 99).Draw(t, "c") < density {
				body := fmt.Sprintf("c%d %s", n, rapid.SampledFrom(c09Words).Draw(t, "w"))
				if i := strings.Index(body, "@"); i > 0 {
					body = body[i:] // documentation tags stand at the beginning of the comment: `// @see docs`
				}
				cform := rapid.IntRange(0, 7).Draw(t, "cform")
				if trailingDirective && (cform == 0 || cform == 1 || cform == 6 || cform == 7) {
					cform = 2 // only a one-line block comment keeps the directive on the line
				}
				switch cform {
				case 0:
					b.WriteString("# " + body + "\n")
				case 1:
					b.WriteString("// " + body + "\n")
				case 3: // closed by an even run of stars
					b.WriteString("/** " + body + " **/ ")
				case 4:
					b.WriteString("/*** " + body + " * / ***/ ")
				case 5: // empty block comment
					b.WriteString("/**/ ")
				case 6:
					b.WriteString("## " + body + " ##\n")
				case 7:
					b.WriteString("/* " + body + "\n   * more\n   */ ")
				default:
					b.WriteString("/* " + body + " */ ")
				}
				n++
				if len(slots) < 12 {
					slots = append(slots, slotClass(prev, tok))
				}
			}
		}
		b.WriteString(tok)
	}
	b.WriteString("\n")
	return b.String(), n, slots
}

func slotClass(prev, next string) string {
	class := func(s string) string {
		switch {
		case s == "(" || s == ")" || s == "{" || s == "}" || s == ";" || s == "," || s == ":":
			return s
		case s == "return" || s == "else" || s == "if" || s == "case" || s == "set" || s == "switch" || s == "log" || s == "declare" || s == "unset" || s == "error" || s == "restart" || s == "sub" || s == "default" || s == "break" || s == "fallthrough":
			return s
		case strings.HasPrefix(s, "\"") || strings.HasPrefix(s, "{"):
			return "str"
		case strings.ContainsAny(s[:1], "=!<>&|+~*/%^") || s == "rol=" || s == "ror=":
			return "op"
		}
		return "word"
	}
	return class(prev) + "_" + class(next)
}

var lintInjections = []string{
	"set req.http.X-I = std.nope(\"a\");\n",
	"set var.undeclared = 1;\n",
	"set var.i1 = \"str\";\n",
	"set req.http.X-I = std.strlen();\n",
	"set req.http.Fastly-FF = \"x\";\n",
	"set beresp.ttl = 1s;\n",
	"set req.http.X-I = std.tolower(1);\n",
	"declare local var.unused STRING;\n",
	"set req.http.X-I = table.lookup(nope, \"k\");\n",
	"esi;\n",
	"if (req.http.X-Go) { return(pass); }\n",
	"if (req.http.X-Lk) { return(lookup); }\n",
	"if (req.http.X-Bad) { return(deliver); }\n",
	"if (req.http.X-E) { error 601 \"msg\"; }\n",
	"if (req.restarts == 0 && req.http.X-R) { restart; }\n",
	"std.collect(req.http.Cookie);\n",
	// one trigger per further linter rule that a statement of vcl_recv can raise
	"if (req.url ~ \"\\.(jpg|png)$\") { set req.http.X-Ext = \"1\"; }\n",
	"if (req.url.path !~ \"\\.css$\") { set req.http.X-Ext = \"0\"; }\n",
	"if (req.http.X-A ~ \"(a)\") { if (req.http.X-B ~ \"(b)\") { set req.http.X-I = re.group.1; } }\n",
	"set req.http.X-I = re.group.2;\n",
	"if (req.http.X-A == 1) { set req.http.X-I = \"n\"; }\n",
	"if (client.ip == \"999.1.1.1\") { set req.http.X-I = \"ip\"; }\n",
	"set var.i1 += \"a\";\n",
	"set req.backend = no_such_backend;\n",
	"call no_such_subroutine;\n",
	"declare local var.c09dup STRING;\ndeclare local var.c09dup STRING;\n",
	"declare local var.c09bad FOO;\n",
	"if (req.http.X-G) { goto c09_lbl; }\nc09_lbl:\n",
	"error 1000;\n",
	"set req.http.X-I = now + 5;\n",
	"unset var.i1;\n",
	"add var.i1 = 1;\n",
	"if (\"lit\") { set req.http.X-I = \"l\"; }\n",
	"set req.http.X-I = req.http.X-A req.http.X-B;\nset req.http.X-I = client.geo.city.ascii;\n",
	"set req.grace = 1s;\n",
}

func genC09(t *rapid.T) any {
	kind := rapid.SampledFrom([]string{"core", "core", "core", "core", "lint", "lint", "lint", "lint", "lifecycle", "lifecycle", "tester"}).Draw(t, "kind")
	c := C09Case{Kind: kind}
	if rapid.IntRange(0, 24).Draw(t, "reject") == 0 {
		// a program the parser rejects for what it says, not for how it is spelled: duplicate case labels,
		// two default clauses. No decoration may turn it into an accepted program.
		c := C09Case{Kind: "reject"}
		var b strings.Builder
		b.WriteString("sub vcl_recv {\n  switch (req.http.H1) {\n")
		labels := []string{"\"a\"", "\"b\"", "~ \"^a\"", "~ \"b$\"", "default"}
		n := rapid.IntRange(2, 4).Draw(t, "ncases")
		var used []string
		for i := 0; i < n; i++ {
			l := rapid.SampledFrom(labels).Draw(t, "label")
			if i == n-1 && rapid.Bool().Draw(t, "dup") {
				l = used[rapid.IntRange(0, len(used)-1).Draw(t, "dupof")]
			}
			used = append(used, l)
			if l == "default" {
				fmt.Fprintf(&b, "    default:\n      set req.http.X-C = \"%d\";\n      break;\n", i)
			} else {
				fmt.Fprintf(&b, "    case %s:\n      set req.http.X-C = \"%d\";\n      break;\n", l, i)
			}
		}
		b.WriteString("  }\n}\n")
		c.Plain = b.String()
		c.Decorated, c.NComments, c.Slots = decorate(t, vclTokens(c.Plain))
		return c
	}
	switch kind {
	case "tester":
		return genC09Tester(t)
	case "core", "lint":
		g := &coreGen{t: t}
		g.genAcls()
		c.Acls = g.acls
		prog := g.program(pick(12, 20))
		body := ref.RenderStmts(prog, "  ")
		if kind == "core" {
			c.Plain = "{\n" + body + "}\n"
		} else {
			lines := strings.SplitAfter(body, "\n")
			// inject lint errors between top-level statements of the body (only at statement starts at depth 0)
			var out []string
			depth := 0
			for _, l := range lines {
				if depth == 0 && l != "" && rapid.IntRange(0, 9).Draw(t, "inject") == 0 {
					inj := rapid.SampledFrom(lintInjections).Draw(t, "injection")
					switch rapid.IntRange(0, 5).Draw(t, "directive") {
					case 0:
						out = append(out, "  // falco-ignore-next-line\n")
					case 1:
						if !strings.HasPrefix(inj, "if ") && !strings.HasPrefix(inj, "declare") {
							inj = strings.TrimSuffix(inj, "\n") + " // falco-ignore\n"
						}
					}
					out = append(out, "  "+inj)
				}
				out = append(out, l)
				depth += strings.Count(l, "{") - strings.Count(l, "}")
			}
			var b strings.Builder
			b.WriteString("backend b { .host = \"127.0.0.1\"; .port = \"1\"; }\n")
			for _, a := range c.Acls {
				b.WriteString(a.Render())
			}
			// user subroutines: scope from an annotation, scope inferred from the caller, never called
			b.WriteString("# @scope: recv\nsub c09_annotated {\n  set req.http.X-H = req.http.Host;\n")
			if rapid.Bool().Draw(t, "helper-injection") {
				b.WriteString("  " + rapid.SampledFrom(lintInjections).Draw(t, "hinjection"))
			}
			b.WriteString("}\nsub c09_inferred {\n  set req.http.X-H2 = client.ip;\n}\n")
			b.WriteString("// @scope: deliver\nsub c09_deliver_only {\n  set resp.http.X-D = \"1\";\n}\n")
			b.WriteString("sub c09_fn(STRING var.s) STRING {\n  return var.s \"!\";\n}\n")
			calls := ""
			if rapid.Bool().Draw(t, "calls") {
				calls = "  call c09_annotated;\n  call c09_inferred;\n  set req.http.X-F = c09_fn(\"a\");\n"
			}
			b.WriteString("sub vcl_recv {\n#FASTLY recv\n" + calls + strings.Join(out, "") + "}\n")
			c.Plain = b.String()
		}
	case "lifecycle":
		pc := genC06(t).(C06Case)
		c.URLs = pc.URLs
		c.Plain = c06VCLNoBackend(pc)
		// calls of user subroutines (plain, with arguments, functional) on the executed path
		if rapid.IntRange(0, 3).Draw(t, "calls") > 0 {
			c.Plain = strings.Replace(c.Plain, "sub vcl_recv {\n", "sub vcl_recv {\n  call c09_mark;\n  call c09_arg(\"a\", 1);\n  set req.http.X-F = c09_fn(\"a\");\n", 1)
			c.Plain = strings.Replace(c.Plain, "sub vcl_deliver {\n", "sub vcl_deliver {\n  call c09_mark;\n  log c09_fn(req.http.X-F);\n", 1)
			c.Plain += "# @scope: recv, deliver\nsub c09_mark {\n  log \"mark \" req.restarts;\n}\n" +
				"sub c09_arg(STRING var.s, INTEGER var.n) {\n  log \"arg \" var.s var.n;\n}\n" +
				"sub c09_fn(STRING var.s) STRING {\n  return var.s \"!\";\n}\n"
		}
		// #FASTLY macros, expanded by the simulator from configured VCL snippets
		if rapid.Bool().Draw(t, "macros") {
			c.Snippets = true
			for _, sc := range []string{"recv", "deliver"} {
				c.Plain = strings.Replace(c.Plain, "sub vcl_"+sc+" {\n", "sub vcl_"+sc+" {\n#FASTLY "+sc+"\n", 1)
			}
		}
	}
	c.Decorated, c.NComments, c.Slots = decorate(t, vclTokens(c.Plain))
	return c
}

// c06VCLNoBackend renders the plan without the backend declaration (its port is only known in the worker).
func c06VCLNoBackend(c C06Case) string {
	v := c06VCL(c)
	if i := strings.Index(v, "penaltybox pb"); i >= 0 {
		return v[i:]
	}
	return v
}

type lintDiag struct {
	Rule, Severity, Message string
}

func lintSource(src string) ([]lintDiag, string) {
	vcl, err := parser.New(lexer.NewFromString(src, lexer.WithFile("main.vcl"))).ParseVCL()
	if err != nil {
		return nil, "parse error: " + err.Error()
	}
	ctx := lcontext.New(lcontext.WithResolver(resolver.NewStaticResolver("main.vcl", src)))
	lt := linter.New(&config.LinterConfig{})
	lt.Lint(vcl, ctx)
	if lt.FatalError != nil {
		return nil, fmt.Sprintf("fatal: %v", lt.FatalError.Error)
	}
	var out []lintDiag
	for _, e := range lt.Errors {
		out = append(out, lintDiag{string(e.Rule), string(e.Severity), e.Message})
	}
	sort.Slice(out, func(i, j int) bool {
		a, b := out[i], out[j]
		if a.Rule != b.Rule {
			return a.Rule < b.Rule
		}
		if a.Severity != b.Severity {
			return a.Severity < b.Severity
		}
		return a.Message < b.Message
	})
	return out, ""
}

func checkC09(raw json.RawMessage) iso.Result {
	var c C09Case
	if err := json.Unmarshal(raw, &c); err != nil {
		return iso.Failf("bad case: %v", err)
	}
	col := iso.NewCollector("C09")
	col.Label("kind:" + c.Kind)
	for _, s := range c.Slots {
		col.Label("slot:" + s)
	}
	if c.Kind == "tester" {
		return checkC09Tester(c, col)
	}
	show := func() string {
		return fmt.Sprintf("--- plain ---\n%s\n--- decorated ---\n%s", c.Plain, c.Decorated)
	}
	// 1. same tree
	dump := func(src string) (string, error) {
		if c.Kind == "core" {
			ss, err := parseSnippet(src)
			if err != nil {
				return "", err
			}
			return canon.Statements(ss, canon.Mode{Explicit: true})
		}
		full := src
		if c.Kind == "lifecycle" {
			full = "backend b { .host = \"127.0.0.1\"; .port = \"1\"; }\n" + src
		}
		v, err := parser.New(lexer.NewFromString(full)).ParseVCL()
		if err != nil {
			return "", err
		}
		return canon.VCL(v, canon.Mode{Explicit: true})
	}
	if c.Kind == "reject" {
		dp, ep := dump(c.Plain)
		dd, ed := dump(c.Decorated)
		switch {
		case (ep == nil) != (ed == nil):
			col.FailKey(c09Key(c, "verdict"), "comments/layout change whether the parser accepts the program: plain %v, decorated %v\n%s", ep, ed, show())
		case ep == nil && dp != dd:
			col.FailKey(c09Key(c, "tree"), "comments/layout changed the syntax tree\n plain:     %s\n decorated: %s\n%s", clip(dp), clip(dd), show())
		}
		if ep != nil {
			col.Label("plain-rejected")
			col.Res.NonTrivial = c.NComments > 0
		}
		return col.Done()
	}
	dp, err := dump(c.Plain)
	if err != nil {
		col.Failf("harness: plain rendering does not parse: %v\n%s", err, c.Plain)
		return col.Done()
	}
	dd, err := dump(c.Decorated)
	if err != nil {
		col.FailKey(c09Key(c, "parse"), "decorated rendering does not parse: %v\n%s", err, show())
		return col.Done()
	}
	if dp != dd {
		col.FailKey(c09Key(c, "tree"), "comments/layout changed the syntax tree\n plain:     %s\n decorated: %s\n%s", clip(dp), clip(dd), show())
		return col.Done()
	}
	interesting := false
	switch c.Kind {
	case "lint":
		a, ea := lintSource(c.Plain)
		b, eb := lintSource(c.Decorated)
		if ea != eb {
			col.FailKey(c09Key(c, "lint"), "lint outcome differs: plain %q, decorated %q\n%s", ea, eb, show())
			return col.Done()
		}
		if fmt.Sprint(a) != fmt.Sprint(b) {
			col.FailKey(c09Key(c, "lint"), "comments/layout changed the lint diagnostics\n%s\n%s", diagDiff(a, b), show())
			return col.Done()
		}
		col.Count("diagnostics", len(a))
		interesting = len(a) > 0
	case "core":
		ra := runCore(c.Acls, c.Plain)
		rb := runCore(c.Acls, c.Decorated)
		if ra.init != nil || rb.init != nil {
			col.Failf("harness: cannot run: %v / %v", ra.init, rb.init)
			return col.Done()
		}
		if fmt.Sprint(ra.err != nil) != fmt.Sprint(rb.err != nil) {
			col.FailKey(c09Key(c, "sim"), "comments/layout changed whether the program fails: plain err=%v, decorated err=%v\n%s", ra.err, rb.err, show())
			return col.Done()
		}
		if strings.Join(ra.dbg.Logs, "\n") != strings.Join(rb.dbg.Logs, "\n") {
			col.FailKey(c09Key(c, "sim"), "comments/layout changed the log output\n plain: %q\n decorated: %q\n%s", ra.dbg.Logs, rb.dbg.Logs, show())
			return col.Done()
		}
		for _, name := range pool.all() {
			va, ea := readVar(ra.ip, name)
			vb, eb := readVar(rb.ip, name)
			sa, sb := fmt.Sprint(ea), fmt.Sprint(eb)
			if ea == nil {
				sa = string(va.Type()) + ":" + va.String()
			}
			if eb == nil {
				sb = string(vb.Type()) + ":" + vb.String()
			}
			if sa != sb {
				col.FailKey(c09Key(c, "sim"), "comments/layout changed the final value of %s: plain %s, decorated %s\n%s", name, sa, sb, show())
				return col.Done()
			}
		}
		interesting = len(ra.dbg.Logs) > 0
	case "lifecycle":
		la, ea := lintSource("backend b { .host = \"127.0.0.1\"; .port = \"1\"; }\n" + c.Plain)
		lb, eb := lintSource("backend b { .host = \"127.0.0.1\"; .port = \"1\"; }\n" + c.Decorated)
		if ea != eb || fmt.Sprint(la) != fmt.Sprint(lb) {
			col.FailKey(c09Key(c, "lint"), "comments/layout changed the lint diagnostics: %q / %q\n%s\n%s", ea, eb, diagDiff(la, lb), show())
			return col.Done()
		}
		col.Count("diagnostics", len(la))
		a := runLifecycle(c.Plain, c.URLs, c.Snippets)
		b := runLifecycle(c.Decorated, c.URLs, c.Snippets)
		if a != b {
			col.FailKey(c09Key(c, "sim"), "comments/layout changed what the simulator does\n plain:\n%s\n decorated:\n%s\n%s", a, b, show())
			return col.Done()
		}
		interesting = true
	}
	if c.NComments >= 1 && interesting {
		col.Res.NonTrivial = true
	}
	return col.Done()
}

func diagDiff(a, b []lintDiag) string {
	cnt := map[lintDiag]int{}
	for _, d := range a {
		cnt[d]++
	}
	for _, d := range b {
		cnt[d]--
	}
	var out []string
	for d, n := range cnt {
		if n > 0 {
			out = append(out, fmt.Sprintf(" only plain (%d): [%s/%s] %s", n, d.Severity, d.Rule, d.Message))
		} else if n < 0 {
			out = append(out, fmt.Sprintf(" only decorated (%d): [%s/%s] %s", -n, d.Severity, d.Rule, d.Message))
		}
	}
	sort.Strings(out)
	return strings.Join(out, "\n")
}

// runLifecycle serves the requests and returns a normalised transcript.
func runLifecycle(vclBody string, urls []string, snippets ...bool) string {
	vcl := backendDecl() + vclBody
	opts := []icontext.Option{icontext.WithResolver(resolver.NewStaticResolver("main", vcl))}
	if len(snippets) > 0 && snippets[0] {
		opts = append(opts, icontext.WithSnippets(&snippet.Snippets{
			ScopedSnippets: snippet.ScopedSnippets{
				"recv":    {{Name: "snip_recv", Priority: 10, Data: "log \"snippet recv\";\nset req.http.X-Snip = \"r\";"}},
				"deliver": {{Name: "snip_deliver", Priority: 10, Data: "log \"snippet deliver \" req.http.X-Snip;\nset resp.http.X-Snip = \"d\";"}},
			},
			IncludeSnippets: snippet.IncludeSnippets{},
		}))
	}
	ip := interpreter.New(opts...)
	ip.Debugger = &capDebugger{}
	var out strings.Builder
	for k, u := range urls {
		req := httptest.NewRequest(http.MethodGet, "http://example.com"+u, nil)
		req.Header.Set("X-Req", fmt.Sprint(k))
		rec := httptest.NewRecorder()
		func() {
			defer func() {
				if r := recover(); r != nil {
					fmt.Fprintf(&out, "PANIC %v\n", r)
				}
			}()
			ip.ServeHTTP(rec, req)
		}()
		var rep c06Report
		if err := json.Unmarshal(rec.Body.Bytes(), &rep); err != nil {
			fmt.Fprintf(&out, "req %d: http %d non-JSON\n", k, rec.Code)
			continue
		}
		var flows, logs []string
		for _, f := range rep.Flows {
			flows = append(flows, f.Subroutine)
		}
		for _, l := range rep.Logs {
			logs = append(logs, l.Message)
		}
		var hs []string
		for h, v := range rep.ClientResponse.Headers {
			switch h {
			case "date", "age", "content-length":
				continue
			}
			hs = append(hs, h+"="+v)
		}
		sort.Strings(hs)
		// error text may quote a token position: keep only its first words
		errText := rep.Error
		if i := strings.Index(errText, " in main"); i > 0 {
			errText = errText[:i]
		}
		fmt.Fprintf(&out, "req %d: flows=%v restarts=%d cached=%v status=%d error=%q logs=%q headers=%v\n", k, flows, rep.Restarts, rep.Cached, rep.ClientResponse.StatusCode, errText, logs, hs)
	}
	return out.String()
}

// c09Key: classifier of known findings (filled in during triage).
func c09Key(c C09Case, sig string) string { return "" }
