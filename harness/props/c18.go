package props

import (
	"encoding/json"
	"fmt"
	"io"
	"net/http"
	"net/http/httptest"
	"os"
	"path/filepath"
	"regexp"
	"runtime"
	"sort"
	"strconv"
	"strings"
	"sync"
	"time"

	"github.com/ysugimoto/falco/v2/ast"
	"github.com/ysugimoto/falco/v2/config"
	"github.com/ysugimoto/falco/v2/interpreter"
	icontext "github.com/ysugimoto/falco/v2/interpreter/context"
	"github.com/ysugimoto/falco/v2/lexer"
	"github.com/ysugimoto/falco/v2/linter"
	lcontext "github.com/ysugimoto/falco/v2/linter/context"
	"github.com/ysugimoto/falco/v2/parser"
	"github.com/ysugimoto/falco/v2/resolver"
	"pgregory.net/rapid"

	"verif/iso"
)

// C18 — concurrent requests and concurrent lint plugins are serialisable.
// The test binary of this property is built with -race; the worker runs with
// GORACE=halt_on_error=1, so a data race kills the worker and the parent reports
// the case with the race report (WORKER-DIED … WARNING: DATA RACE).

type C18Req struct {
	Kind    string `json:"kind"` // lookup | pass | error | restart | rc | pb
	URL     string `json:"url"`
	Key     string `json:"key,omitempty"`
	Inc     int    `json:"inc,omitempty"`
	Add     bool   `json:"add,omitempty"`
	DelayUS int    `json:"delay_us,omitempty"` // jitter before the request is issued
}

type C18Plugin struct {
	Name    string   `json:"name"`
	Msgs    []string `json:"msgs"`     // diagnostics the plugin returns
	SleepMS int      `json:"sleep_ms"` // jitter before it answers
	Mode    string   `json:"mode"`     // ok | fail (exit 1) | garbage (not JSON) | missing (no executable)
}

type C18Case struct {
	Kind    string      `json:"kind"` // sim | plugin
	Procs   int         `json:"procs"`
	Reqs    []C18Req    `json:"reqs,omitempty"`
	Server  bool        `json:"server,omitempty"` // go through httptest.NewServer instead of calling ServeHTTP directly
	Proxy   bool        `json:"proxy,omitempty"`  // simulator answers with the actual response (context.WithActualResponse) instead of the flow report
	Plugins []C18Plugin `json:"plugins,omitempty"`
	Stmts   int         `json:"stmts,omitempty"` // plugin kind: number of annotated statements
}

func init() {
	register("C18",
		"kind sim: 2-16 concurrent requests (distinct marker headers; cacheable lookups of <=3 URLs, pass, error, restart, rate-counter increments on <=2 keys, penalty-box checks/adds on <=2 keys) released together (drawn per-request jitter 0-300us, GOMAXPROCS in {1,2,4,16}, direct ServeHTTP or through httptest.NewServer) against one Interpreter in a -race build; oracle: every response carries only its own marker (logs, echoed header), an order exists in which the harness' shared-state model (cached URLs, counter sums, penalty-box keys) yields each request's observation (exactly one MISS per URL, counter values are prefix sums of the increments in some order, penalty-box observations admit a first adder), each response equals (flows, logs, restarts, status, headers) what the same request produces sequentially on a fresh simulator brought to the observed shared state, sequential probe requests afterwards see the model's final state, and the race detector stays silent. kind plugin: 1-3 statements annotated with 2-4 @plugin comments served by generated executables (ok / exit 1 / not JSON / missing; jitter 0-30 ms); oracle: the multiset of plugin diagnostics in Linter.Errors equals what the plugins returned, no data race. non-trivial: >=2 requests touching the same shared object, or >=2 plugins returning >=1 diagnostic each; distinct by case",
		genC18, checkC18, 20*time.Second) // three overruns in a row = hang; must fit into the quick tier's wall-clock cap
}

func genC18(t *rapid.T) any {
	c := C18Case{Procs: rapid.SampledFrom([]int{16, 1, 2, 4}).Draw(t, "procs")}
	if rapid.IntRange(0, 3).Draw(t, "kind") == 3 {
		c.Kind = "plugin"
		c.Stmts = rapid.IntRange(1, 3).Draw(t, "stmts")
		n := rapid.IntRange(2, 4).Draw(t, "nplugins")
		for i := 0; i < n; i++ {
			p := C18Plugin{Name: fmt.Sprintf("p%d", i), SleepMS: rapid.SampledFrom([]int{0, 0, 0, 1, 5, 30}).Draw(t, "sleep")}
			p.Mode = rapid.SampledFrom([]string{"ok", "ok", "ok", "ok", "ok", "fail", "garbage", "missing"}).Draw(t, "mode")
			k := rapid.IntRange(0, 3).Draw(t, "nmsgs")
			for j := 0; j < k; j++ {
				p.Msgs = append(p.Msgs, fmt.Sprintf("diag-%s-%d", p.Name, j))
			}
			c.Plugins = append(c.Plugins, p)
		}
		return c
	}
	c.Kind = "sim"
	c.Server = rapid.IntRange(0, 3).Draw(t, "server") == 3
	c.Proxy = rapid.IntRange(0, 3).Draw(t, "proxy") == 3
	n := rapid.IntRange(2, pick(12, 16)).Draw(t, "nreq")
	for i := 0; i < n; i++ {
		r := C18Req{Kind: rapid.SampledFrom([]string{"lookup", "lookup", "lookup", "rc", "rc", "pb", "pb", "pass", "error", "restart", "purge"}).Draw(t, "rkind")}
		r.DelayUS = rapid.SampledFrom([]int{0, 0, 0, 20, 100, 300}).Draw(t, "delay")
		switch r.Kind {
		case "lookup":
			r.URL = rapid.SampledFrom([]string{"/a", "/b", "/c"}).Draw(t, "url")
		case "rc":
			r.URL, r.Key, r.Inc = "/rc", rapid.SampledFrom([]string{"k1", "k2"}).Draw(t, "key"), rapid.IntRange(1, 5).Draw(t, "inc")
		case "pb":
			r.URL, r.Key, r.Add = "/pb", rapid.SampledFrom([]string{"k1", "k2"}).Draw(t, "key"), rapid.Bool().Draw(t, "add")
		default:
			r.URL = "/x-" + r.Kind
		}
		c.Reqs = append(c.Reqs, r)
	}
	return c
}

func c18VCL() string {
	return backendDecl() + `
penaltybox pb { }
ratecounter rc { }
sub vcl_recv {
  declare local var.n INTEGER;
  log "M=" req.http.X-Marker " recv " req.restarts;
  if (req.http.X-Kind == "error") { error 601; }
  if (req.http.X-Kind == "restart" && req.restarts == 0) { restart; }
  if (req.http.X-Kind == "restart") { error 604; }
  if (req.http.X-Kind == "pass") { return(pass); }
  if (req.http.X-Kind == "rc") {
    set var.n = ratelimit.ratecounter_increment(rc, req.http.X-Key, std.atoi(req.http.X-Inc));
    log "RC=" ratecounter.rc.bucket.60s;
    set req.http.X-RC = ratecounter.rc.bucket.60s;
    error 602;
  }
  if (req.http.X-Kind == "pb") {
    if (ratelimit.penaltybox_has(pb, req.http.X-Key)) { log "PB=1"; set req.http.X-PB = "1"; } else { log "PB=0"; set req.http.X-PB = "0"; }
    if (req.http.X-Add == "1") { ratelimit.penaltybox_add(pb, req.http.X-Key, 10m); }
    error 603;
  }
  return(lookup);
}
sub vcl_hash { set req.hash += req.url; set req.hash += req.http.host; return(hash); }
sub vcl_hit { log "M=" req.http.X-Marker " hit"; }
sub vcl_miss { log "M=" req.http.X-Marker " miss"; }
sub vcl_pass { log "M=" req.http.X-Marker " pass"; }
sub vcl_fetch {
  set beresp.ttl = 3600s;
  set beresp.cacheable = true;
  log "M=" req.http.X-Marker " fetch";
  return(deliver);
}
sub vcl_error {
  set obj.http.X-Echo-Err = req.http.X-Marker;
  set obj.http.X-RC = req.http.X-RC;
  set obj.http.X-PB = req.http.X-PB;
  log "M=" req.http.X-Marker " error " obj.status;
  return(deliver);
}
sub vcl_deliver {
  set resp.http.X-Echo = req.http.X-Marker;
  log "M=" req.http.X-Marker " deliver";
  return(deliver);
}
sub vcl_log { log "M=" req.http.X-Marker " log"; }
`
}

type c18Resp struct {
	status   int
	rep      c06Report
	raw      string
	proxy    bool
	panicked string
}

func c18Request(i int, r C18Req, marker string) *http.Request {
	method := http.MethodGet
	if r.Kind == "purge" {
		method = "FASTLYPURGE" // runs vcl_recv only and is answered with the purge acceptance document
	}
	req := httptest.NewRequest(method, "http://example.com"+r.URL, nil)
	req.Header.Set("X-Marker", marker)
	req.Header.Set("X-Kind", r.Kind)
	if r.Key != "" {
		req.Header.Set("X-Key", r.Key)
	}
	if r.Inc > 0 {
		req.Header.Set("X-Inc", strconv.Itoa(r.Inc))
	}
	if r.Add {
		req.Header.Set("X-Add", "1")
	}
	return req
}

func c18Serve(ip *interpreter.Interpreter, req *http.Request, proxy bool) (out c18Resp) {
	defer func() {
		if e := recover(); e != nil {
			out.panicked = fmt.Sprintf("%v", e)
		}
	}()
	rec := httptest.NewRecorder()
	ip.ServeHTTP(rec, req)
	if proxy {
		return c18FromHTTP(rec.Result())
	}
	out.status = rec.Code
	out.raw = rec.Body.String()
	json.Unmarshal(rec.Body.Bytes(), &out.rep) // nolint:errcheck
	return out
}

// c18FromHTTP turns an actual response (proxy mode) into the same shape: status, headers, body.
func c18FromHTTP(res *http.Response) (out c18Resp) {
	defer res.Body.Close()
	body, _ := io.ReadAll(res.Body)
	out.status, out.raw, out.proxy = res.StatusCode, string(body), true
	out.rep.ClientResponse.StatusCode = res.StatusCode
	out.rep.ClientResponse.Headers = map[string]string{}
	for k, v := range res.Header {
		out.rep.ClientResponse.Headers[strings.ToLower(k)] = strings.Join(v, ", ")
	}
	return out
}

func c18New(proxy bool) *interpreter.Interpreter {
	ip := interpreter.New(icontext.WithResolver(resolver.NewStaticResolver("main", c18VCL())), icontext.WithActualResponse(proxy))
	ip.Debugger = quietDebugger{}
	return ip
}

// quietDebugger: stateless (ServeHTTP calls Debugger.Message outside its lock).
type quietDebugger struct{}

func (quietDebugger) Run(ast.Node) interpreter.DebugState { return interpreter.DebugPass }
func (quietDebugger) Message(string)                      {}
func (quietDebugger) Log(*ast.LogStatement, string)       {}

var c18Volatile = map[string]bool{"date": true, "age": true, "x-timer": true, "x-served-by": true, "fastly-debug-ttl": true, "fastly-debug-path": true, "fastly-debug-digest": true}

// c18Norm renders the parts of a response the property names, with the marker replaced.
func c18Norm(r c18Resp, marker string) string {
	var b strings.Builder
	if strings.Contains(r.raw, "falco_purge_") {
		return fmt.Sprintf("purge answer status=%d body=%s\n", r.status, r.raw)
	}
	if r.proxy {
		// the actual response: status, the headers the VCL and the cache produce, body
		fmt.Fprintf(&b, "status=%d\n", r.status)
		for _, k := range []string{"x-echo", "x-echo-err", "x-cache", "x-cache-hits", "x-rc", "x-pb", "x-origin"} {
			if v, ok := r.rep.ClientResponse.Headers[k]; ok {
				fmt.Fprintf(&b, "  %s: %s\n", k, strings.ReplaceAll(v, marker, "<M>"))
			}
		}
		fmt.Fprintf(&b, "body: %q\n", r.raw)
		return b.String()
	}
	fmt.Fprintf(&b, "status=%d restarts=%d error=%q cached=%v\nflows:", r.status, r.rep.Restarts, r.rep.Error, r.rep.Cached)
	for _, f := range r.rep.Flows {
		b.WriteString(" " + f.Subroutine)
	}
	b.WriteString("\nlogs:\n")
	for _, l := range r.rep.Logs {
		b.WriteString("  " + strings.ReplaceAll(l.Message, marker, "<M>") + "\n")
	}
	fmt.Fprintf(&b, "client status=%d\n", r.rep.ClientResponse.StatusCode)
	var keys []string
	for k := range r.rep.ClientResponse.Headers {
		if !c18Volatile[strings.ToLower(k)] {
			keys = append(keys, k)
		}
	}
	sort.Strings(keys)
	for _, k := range keys {
		fmt.Fprintf(&b, "  %s: %s\n", k, strings.ReplaceAll(r.rep.ClientResponse.Headers[k], marker, "<M>"))
	}
	return b.String()
}

var c18MarkerRe = regexp.MustCompile(`M=(\S+)`)

type c18Obs struct {
	hit  bool
	hits int // X-Cache-Hits of a hit: how many times the object has been hit, this one included
	rc   int
	pb   int
	have bool
}

func c18Observe(r C18Req, resp c18Resp) (o c18Obs) {
	h := resp.rep.ClientResponse.Headers
	switch r.Kind {
	case "lookup":
		switch h["x-cache"] {
		case "HIT":
			o.hit, o.have = true, true
			o.hits, _ = strconv.Atoi(h["x-cache-hits"])
		case "MISS":
			o.have = true
		}
	case "rc":
		if v, ok := h["x-rc"]; ok {
			o.rc, _ = strconv.Atoi(v)
			o.have = true
		}
	case "pb":
		if v, ok := h["x-pb"]; ok {
			o.pb, _ = strconv.Atoi(v)
			o.have = true
		}
	default:
		o.have = true
	}
	return o
}

func checkC18(raw json.RawMessage) iso.Result {
	var c C18Case
	if err := json.Unmarshal(raw, &c); err != nil {
		return iso.Failf("bad case: %v", err)
	}
	if c.Procs < 1 {
		c.Procs = 1
	}
	old := runtime.GOMAXPROCS(c.Procs)
	defer runtime.GOMAXPROCS(old)
	if c.Kind == "plugin" {
		return checkC18Plugin(c)
	}
	col := iso.NewCollector("C18")
	col.Label("kind:sim", fmt.Sprintf("procs:%d", c.Procs))
	ip := c18New(c.Proxy)
	if c.Proxy {
		col.Label("mode:actual-response")
	}
	n := len(c.Reqs)
	resps := make([]c18Resp, n)
	markers := make([]string, n)
	for i := range markers {
		markers[i] = fmt.Sprintf("mk%02dz", i)
	}
	var srv *httptest.Server
	// One connection per request, as from distinct clients: in actual-response mode the
	// simulator hijacks the connection and closes it after a response that does not say
	// "Connection: close", so a pooled connection can be reused after the server dropped it
	// ("server closed idle connection" for a non-replayable PURGE) — a keep-alive matter that
	// happens one-at-a-time as well and is not what C18 states.
	tr := &http.Transport{DisableKeepAlives: true}
	if c.Server {
		srv = httptest.NewServer(ip)
		defer srv.Close()
		col.Label("via:http-server")
	}
	// send issues a request the way the case says: direct call or through the HTTP server
	send := func(req *http.Request, path string) (r c18Resp) {
		if srv == nil {
			return c18Serve(ip, req, c.Proxy)
		}
		out, err := http.NewRequest(req.Method, srv.URL+path, nil)
		if err != nil {
			r.panicked = err.Error()
			return r
		}
		out.Header = req.Header.Clone()
		out.Host = "example.com"
		res, err := tr.RoundTrip(out)
		if err != nil {
			r.panicked = "transport: " + err.Error()
			return r
		}
		if c.Proxy {
			return c18FromHTTP(res)
		}
		defer res.Body.Close()
		body, _ := io.ReadAll(res.Body)
		r.status, r.raw = res.StatusCode, string(body)
		json.Unmarshal(body, &r.rep) // nolint:errcheck
		return r
	}
	start := make(chan struct{})
	var wg sync.WaitGroup
	for i := range c.Reqs {
		wg.Add(1)
		go func(i int) {
			defer wg.Done()
			req := c18Request(i, c.Reqs[i], markers[i])
			<-start
			if d := c.Reqs[i].DelayUS; d > 0 {
				spinFor(time.Duration(d) * time.Microsecond)
			}
			resps[i] = send(req, c.Reqs[i].URL)
		}(i)
	}
	close(start)
	wg.Wait()

	plan := func() string {
		var b strings.Builder
		fmt.Fprintf(&b, "GOMAXPROCS=%d server=%v actual-response=%v\n", c.Procs, c.Server, c.Proxy)
		for i, r := range c.Reqs {
			fmt.Fprintf(&b, "  #%d %s %s key=%s inc=%d add=%v delay=%dus -> obs %+v\n", i, r.Kind, r.URL, r.Key, r.Inc, r.Add, r.DelayUS, c18Observe(r, resps[i]))
		}
		return b.String()
	}
	// 1. no cross-talk
	for i, r := range resps {
		if r.panicked != "" {
			col.Failf("request #%d: ServeHTTP panicked / transport failed: %s\n%s", i, r.panicked, plan())
			return col.Done()
		}
		if !c.Proxy && len(r.rep.Flows) == 0 && c.Reqs[i].Kind != "purge" {
			col.Failf("request #%d: response is not a flow report (status %d): %.300s\n%s", i, r.status, r.raw, plan())
			return col.Done()
		}
		for _, l := range r.rep.Logs {
			for _, m := range c18MarkerRe.FindAllStringSubmatch(l.Message, -1) {
				if m[1] != markers[i] {
					col.Failf("request #%d (marker %s) carries a log line of another request: %q\n%s", i, markers[i], l.Message, plan())
					return col.Done()
				}
			}
		}
		for k, v := range r.rep.ClientResponse.Headers {
			if strings.HasPrefix(strings.ToLower(k), "x-echo") && v != markers[i] {
				col.Failf("request #%d (marker %s) got header %s: %s of another request\n%s", i, markers[i], k, v, plan())
				return col.Done()
			}
		}
	}
	// 2. an order exists (the shared objects are independent, so the condition factorises)
	obs := make([]c18Obs, n)
	for i, r := range c.Reqs {
		obs[i] = c18Observe(r, resps[i])
		if !obs[i].have {
			col.Failf("request #%d (%s): the response lacks the observation of the shared state\n%s\n%s", i, r.Kind, c18Norm(resps[i], markers[i]), plan())
			return col.Done()
		}
	}
	shared := 0
	cached := map[string]bool{}
	for _, u := range []string{"/a", "/b", "/c"} {
		miss, total := 0, 0
		var hits []int
		for i, r := range c.Reqs {
			if r.Kind == "lookup" && r.URL == u {
				total++
				if !obs[i].hit {
					miss++
				} else {
					hits = append(hits, obs[i].hits)
				}
			}
		}
		sort.Ints(hits)
		for k, h := range hits {
			if h != k+1 {
				col.Failf("the hits of %s report X-Cache-Hits %v: in every one-at-a-time order the k-th hit reports k\n%s", u, hits, plan())
				return col.Done()
			}
		}
		if total > 0 {
			cached[u] = true
			if miss != 1 {
				col.Failf("%d concurrent lookups of %s saw %d MISSes: no one-at-a-time order gives that (exactly one must miss)\n%s", total, u, miss, plan())
				return col.Done()
			}
		}
		if total >= 2 {
			shared++
		}
	}
	rcSum := map[string]int{}
	for _, k := range []string{"k1", "k2"} {
		var idx []int
		for i, r := range c.Reqs {
			if r.Kind == "rc" && r.Key == k {
				idx = append(idx, i)
				rcSum[k] += r.Inc
			}
		}
		sort.Slice(idx, func(a, b int) bool { return obs[idx[a]].rc < obs[idx[b]].rc })
		prev := 0
		for _, i := range idx {
			if obs[i].rc-prev != c.Reqs[i].Inc {
				col.Failf("rate counter %s: the observed values are not the prefix sums of the increments in any order (request #%d inc %d saw %d after %d)\n%s", k, i, c.Reqs[i].Inc, obs[i].rc, prev, plan())
				return col.Done()
			}
			prev = obs[i].rc
		}
		if len(idx) >= 2 {
			shared++
		}
	}
	pbFinal := map[string]bool{}
	for _, k := range []string{"k1", "k2"} {
		adders, zeroAdders, ones, total := 0, 0, 0, 0
		for i, r := range c.Reqs {
			if r.Kind != "pb" || r.Key != k {
				continue
			}
			total++
			if r.Add {
				adders++
				if obs[i].pb == 0 {
					zeroAdders++
				}
			}
			if obs[i].pb == 1 {
				ones++
			}
		}
		if adders > 0 {
			pbFinal[k] = true
		}
		if (adders == 0 && ones > 0) || (adders > 0 && zeroAdders != 1) {
			col.Failf("penalty box %s: %d adders of which %d saw the key absent, %d requests saw it present: no one-at-a-time order gives that\n%s", k, adders, zeroAdders, ones, plan())
			return col.Done()
		}
		if total >= 2 && adders > 0 {
			shared++
		}
	}
	// 3. each response equals the sequential response for the same observation
	for i, r := range c.Reqs {
		ref := c18New(c.Proxy)
		switch r.Kind {
		case "lookup":
			if obs[i].hit {
				for k := 0; k < obs[i].hits; k++ { // one miss, then the earlier hits
					c18Serve(ref, c18Request(0, r, "prefix"), c.Proxy)
				}
			}
		case "rc":
			if before := obs[i].rc - r.Inc; before > 0 {
				c18Serve(ref, c18Request(0, C18Req{Kind: "rc", URL: r.URL, Key: r.Key, Inc: before}, "prefix"), c.Proxy)
			}
		case "pb":
			if obs[i].pb == 1 {
				c18Serve(ref, c18Request(0, C18Req{Kind: "pb", URL: r.URL, Key: r.Key, Add: true}, "prefix"), c.Proxy)
			}
		}
		want := c18Norm(c18Serve(ref, c18Request(i, r, markers[i]), c.Proxy), markers[i])
		got := c18Norm(resps[i], markers[i])
		if want != got {
			col.Failf("request #%d (%s %s): the concurrent response differs from the one-at-a-time response in the same shared state\n--- sequential ---\n%s--- concurrent ---\n%s%s", i, r.Kind, r.URL, want, got, plan())
			return col.Done()
		}
	}
	// 4. final state, probed sequentially
	for u := range cached {
		p := send(c18Request(0, C18Req{Kind: "lookup", URL: u}, "probe"), u)
		if !c18Observe(C18Req{Kind: "lookup"}, p).hit {
			col.Failf("after the concurrent requests %s is not cached although it was fetched (final state not reachable by any order)\n%s", u, plan())
			return col.Done()
		}
	}
	for _, k := range []string{"k1", "k2"} {
		p := send(c18Request(0, C18Req{Kind: "rc", URL: "/rc", Key: k, Inc: 1}, "probe"), "/rc")
		if got := c18Observe(C18Req{Kind: "rc"}, p).rc; got != rcSum[k]+1 {
			col.Failf("after the concurrent requests rate counter %s holds %d, every order gives %d (lost update)\n%s", k, got-1, rcSum[k], plan())
			return col.Done()
		}
		p = send(c18Request(0, C18Req{Kind: "pb", URL: "/pb", Key: k}, "probe"), "/pb")
		if got := c18Observe(C18Req{Kind: "pb"}, p).pb == 1; got != pbFinal[k] {
			col.Failf("after the concurrent requests penalty box key %s present=%v, every order gives %v\n%s", k, got, pbFinal[k], plan())
			return col.Done()
		}
	}
	col.Count("requests", n)
	if shared > 0 {
		col.Res.NonTrivial = true
		col.Label("shared-object-contended")
	}
	if n >= 8 {
		col.Label("requests>=8")
	}
	return col.Done()
}

func spinFor(d time.Duration) {
	t0 := time.Now()
	for time.Since(t0) < d {
		runtime.Gosched()
	}
}

// ---------------------------------------------------------------------------
// plugins

func checkC18Plugin(c C18Case) iso.Result {
	col := iso.NewCollector("C18")
	col.Label("kind:plugin", fmt.Sprintf("procs:%d", c.Procs))
	base := os.Getenv("VERIF_WORKDIR")
	if base == "" {
		base = "/var/tmp"
	}
	dir, err := os.MkdirTemp(base, "c18-")
	if err != nil {
		return iso.Failf("INFRA: cannot create scratch directory: %v", err)
	}
	defer os.RemoveAll(dir)
	var annotations []string
	want := map[string]int{}
	returning := 0
	for _, p := range c.Plugins {
		annotations = append(annotations, "  // @plugin: "+p.Name+" arg")
		if p.Mode == "missing" {
			continue
		}
		var errs []string
		for _, m := range p.Msgs {
			errs = append(errs, fmt.Sprintf(`{"Severity":2,"Message":"%s"}`, m))
		}
		body := "#!/bin/sh\ncat >/dev/null\n"
		if p.SleepMS > 0 {
			body += fmt.Sprintf("sleep 0.%03d\n", p.SleepMS)
		}
		switch p.Mode {
		case "fail":
			body += "echo plugin-failed-" + p.Name + " >&2\nexit 1\n"
		case "garbage":
			body += "echo this-is-not-json\n"
		default:
			body += "printf '%s' '{\"errors\":[" + strings.Join(errs, ",") + "]}'\n"
			for _, m := range p.Msgs {
				want[m] += c.Stmts
			}
			if len(p.Msgs) > 0 {
				returning++
			}
		}
		if err := os.WriteFile(filepath.Join(dir, "falco-"+p.Name), []byte(body), 0o755); err != nil {
			return iso.Failf("INFRA: %v", err)
		}
		col.Label("plugin-mode:" + p.Mode)
	}
	oldPath := os.Getenv("PATH")
	os.Setenv("PATH", dir+":/usr/bin:/bin")
	defer os.Setenv("PATH", oldPath)

	var b strings.Builder
	nested := 0
	b.WriteString("backend b { .host = \"127.0.0.1\"; .port = \"1\"; }\nsub vcl_recv {\n#FASTLY recv\n  set req.backend = b;\n")
	for s := 0; s < c.Stmts; s++ {
		b.WriteString(strings.Join(annotations, "\n") + "\n")
		switch (s + len(c.Plugins)) % 3 {
		case 0:
			fmt.Fprintf(&b, "  set req.http.X-S%d = \"1\";\n", s)
		case 1:
			// the built-in rules report on the annotated statement as well, while the plugins run
			fmt.Fprintf(&b, "  set req.http.X-S%d = some.undefined.variable std.nope(1) std.strlen();\n", s)
		default:
			// an annotated statement nested in an annotated statement
			fmt.Fprintf(&b, "  if (req.http.X-S%d == some.undefined.cond) {\n%s\n    set req.http.X-N%d = some.other.undefined;\n  }\n", s, strings.Join(annotations, "\n"), s)
			for _, p := range c.Plugins {
				if p.Mode == "ok" {
					for _, m := range p.Msgs {
						want[m]++
					}
				}
			}
			nested++
		}
	}
	b.WriteString("}\n")
	src := b.String()
	vcl, err := parser.New(lexer.NewFromString(src, lexer.WithFile("main.vcl"))).ParseVCL()
	if err != nil {
		return iso.Failf("harness: program does not parse: %v", err)
	}
	lt := linter.New(&config.LinterConfig{})
	lintStart := time.Now()
	lt.Lint(vcl, lcontext.New())
	lintTook := time.Since(lintStart)
	got := map[string]int{}
	others := 0
	// diagnostics of the program itself (same program without annotations)
	if plain, err := parser.New(lexer.NewFromString(strings.ReplaceAll(src, "@plugin:", "plugin:"), lexer.WithFile("main.vcl"))).ParseVCL(); err == nil {
		bl := linter.New(&config.LinterConfig{})
		bl.Lint(plain, lcontext.New())
		others = -len(bl.Errors)
	}
	for _, e := range lt.Errors {
		if strings.HasPrefix(e.Message, "diag-") {
			got[e.Message]++
		} else {
			others++
		}
	}
	// every plugin that did not return diagnostics must produce exactly one report per statement (not found / failed)
	wantOthers := 0
	for _, p := range c.Plugins {
		if p.Mode != "ok" {
			wantOthers += c.Stmts + nested
		}
	}
	var diffs []string
	for m, n := range want {
		if got[m] != n {
			diffs = append(diffs, fmt.Sprintf("%s: returned %d times, reported %d times", m, n, got[m]))
		}
	}
	for m, n := range got {
		if want[m] == 0 {
			diffs = append(diffs, fmt.Sprintf("%s: reported %d times but never returned", m, n))
		}
	}
	sort.Strings(diffs)
	// falco gives every plugin run five seconds; on a saturated machine a run is killed now and then and is
	// reported as failed. That explains missing diagnostics exactly when (a) nothing is reported that was not
	// returned, (b) every message of one plugin is short by the same number of runs, and (c) there are at
	// least as many additional failure reports as runs are short, (d) linting took five seconds or more.
	// Such a case decides nothing (counted).
	// (a run can only have been killed by that timeout if linting took at least the five seconds)
	if extra := others - wantOthers; extra > 0 && lintTook >= 4900*time.Millisecond {
		short := map[string]int{} // plugin prefix -> runs short
		consistent := true
		for m, n := range want {
			pfx := m[:strings.LastIndex(m, "-")+1]
			d := n - got[m]
			if d < 0 {
				consistent = false
			}
			if prev, ok := short[pfx]; ok && prev != d {
				consistent = false
			}
			short[pfx] = d
		}
		for m := range got {
			if want[m] == 0 {
				consistent = false
			}
		}
		total := 0
		for _, d := range short {
			total += d
		}
		if consistent && total <= extra {
			col.Label("inconclusive:plugin-run-killed-by-falco-timeout")
			col.Count("plugin-runs-failed-under-load", extra)
			return col.Done()
		}
	}
	if len(diffs) > 0 || others != wantOthers {
		var all []string
		for _, e := range lt.Errors {
			all = append(all, "  "+e.Message)
		}
		col.Failf("the diagnostics of concurrently running plugins are not all reported\n%s\nplugin failure reports: %d, expected %d\n--- Linter.Errors ---\n%s\n--- program ---\n%s--- plugins ---\n%+v", strings.Join(diffs, "\n"), others, wantOthers, strings.Join(all, "\n"), numbered(src), c.Plugins)
		return col.Done()
	}
	col.Count("plugin-runs", len(c.Plugins)*c.Stmts)
	if returning >= 2 {
		col.Res.NonTrivial = true
	}
	return col.Done()
}
