package props

import (
	"fmt"
	"strings"

	"pgregory.net/rapid"
)

// Generator of lintable programs: well-scoped lifecycle subroutines with
// #FASTLY macros, declared locals, known variables/functions, optional injected
// errors of known kinds. Every statement sits on its own line(s) and carries a
// neutral leading comment line and (simple statements) a neutral trailing
// comment, so that directives can REPLACE comments without moving any token
// (C12), and subroutines can be permuted (C11).

type LStmt struct {
	Text     string  `json:"text"`            // simple: the statement text; compound: the condition
	Compound bool    `json:"compound,omitempty"`
	Bare     bool    `json:"bare,omitempty"` // compound: a bare block `{ … }` without condition
	Body     []LStmt `json:"body,omitempty"`
	Elifs    []LElif `json:"elifs,omitempty"` // else-if branches between Body and Else
	Else     []LStmt `json:"else,omitempty"`
	HasElse  bool    `json:"has_else,omitempty"`
	Declare  bool    `json:"declare,omitempty"` // declaration statements are never covered by directives
	Lead     string  `json:"lead"`              // leading comment line (neutral or directive)
	Lead2    string  `json:"lead2,omitempty"`   // optional second leading comment line (between Lead and the statement)
	Trail    string  `json:"trail,omitempty"`   // trailing comment (simple statements only)
	EndLead  string  `json:"end_lead,omitempty"` // compound: comment line before the closing brace of the last block
	ID       int     `json:"id"`
	// filled by the renderer
	First int `json:"-"`
	Last  int `json:"-"`
}

type LElif struct {
	Kw   string  `json:"kw"` // else if | elseif | elsif
	Cond string  `json:"cond"`
	Body []LStmt `json:"body"`
}

type LSub struct {
	Name  string  `json:"name"`
	Scope string  `json:"scope,omitempty"` // lifecycle subs: recv, deliver, fetch …
	Stmts []LStmt `json:"stmts"`
	Lead  string  `json:"lead,omitempty"`
	// filled by the renderer: the line of the `sub` keyword
	Line int `json:"-"`
}

type LProgram struct {
	Subs []LSub `json:"subs"`
	// Decls: root declarations behind the prelude, one per line (C12: targets of ignore directives)
	Decls []LStmt `json:"decls,omitempty"`
	// Snippet: the program is a statement-only snippet (`# @scope: recv` + the statements of its only sub)
	Snippet bool `json:"snippet,omitempty"`
}

var lintClean = []string{
	`set req.http.X-A = "v";`,
	`set var.s = req.http.Host;`,
	`unset req.http.X-B;`,
	`log "x" var.s;`,
	`set var.i += 1;`,
	`set var.b = true;`,
	`set req.http.X-C = req.http.X-A "suffix";`,
	`set var.s = std.tolower(req.http.Host);`,
}

var lintErrors = []string{
	`set req.http.X-E = some.undefined.variable;`,
	`set var.i = "str";`,
	`set req.http.X-E = std.strlen();`,
	`set req.http.X-E = std.tolower(1);`,
	`set req.http.Fastly-FF = "x";`,
	`set beresp.ttl = 1s;`,
	`set req.http.X-E = std.nope("a");`,
	`esi;`,
	`set req.http.X-E = table.lookup(nope, "k");`,
	`set req.http.X-E = std.itoa(req.http.X-A) std.itoa(0, 1, 2);`,
	`set var.undeclared = 1;`,
	`set req.http.X-E = regsub(req.http.X-A);`,
	`set req.http.X-E = helper_0();`,
	`set var.b = helper_1("a");`,
	`set req.http.X-E = vcl_recv();`,
	`set req.http.X-E = ratecounter.rc.foo.10s;`,
	`set req.http.X-E = ratecounter.nope.bucket.10s;`,
	`error;`,
	`error 999 "a" "b";`,
	`error var.i;`,
	`synthetic "x";`,
	`restart;`,
	`set req.http.X-E = if(req.http.X-A, "a", 1);`,
	`unset req.http.X-E:k;`,
	`add req.http.X-E = 1;`,
	`call vcl_recv;`,
	`goto nowhere;`,
	`set req.http.X-E = req.http.X-A ~ "(";`,
	`set req.http.X-E = regsub(req.http.X-A, "(", "");`,
	`return(bogus);`,
}

var lintConds = []string{`req.http.X-A == "1"`, `req.http.X-B`, `var.i > 3`, `!req.http.X-C`, `req.http.X-A ~ "^a"`, `req.http.X-E == some.undefined.cond`, `var.b && req.http.X-B`}

type lintGen struct {
	t      *rapid.T
	nextID int
	errPct int
	// gotos: subroutines may start with a valid forward jump `goto lbl_N;` whose destination `lbl_N:` is their
	// last statement (C12: a directive on the goto statement must not change what is reported at the label)
	gotos bool
}

// gotoPair draws the two statements of a forward jump (or none).
func (g *lintGen) gotoStmt(n int) []LStmt {
	s := LStmt{Text: fmt.Sprintf("goto lbl_%d;", n), Lead: g.neutral(), Trail: g.neutral()}
	s.ID = g.nextID
	return []LStmt{s}
}

func (g *lintGen) labelStmt(n int) []LStmt {
	s := LStmt{Text: fmt.Sprintf("lbl_%d:", n), Lead: g.neutral(), Trail: g.neutral()}
	s.ID = g.nextID
	return []LStmt{s}
}

func (g *lintGen) neutral() string {
	g.nextID++
	m := rapid.SampledFrom([]string{"// n%d", "# n%d", "/* n%d */"}).Draw(g.t, "cm")
	return fmt.Sprintf(m, g.nextID)
}

func (g *lintGen) simple() LStmt {
	var text string
	if rapid.IntRange(0, 99).Draw(g.t, "err") < g.errPct {
		text = rapid.SampledFrom(lintErrors).Draw(g.t, "errstmt")
	} else {
		text = rapid.SampledFrom(lintClean).Draw(g.t, "cleanstmt")
	}
	s := LStmt{Text: text, Lead: g.neutral(), Trail: g.neutral()}
	if rapid.IntRange(0, 3).Draw(g.t, "lead2") == 0 {
		s.Lead2 = g.neutral()
	}
	s.ID = g.nextID
	return s
}

func (g *lintGen) stmt(nest int) LStmt {
	if nest < 2 && rapid.IntRange(0, 4).Draw(g.t, "compound") == 0 {
		s := LStmt{Compound: true, Text: rapid.SampledFrom(lintConds).Draw(g.t, "cond"), Lead: g.neutral()}
		s.ID = g.nextID
		s.Body = g.block(nest+1, 1, 3)
		if rapid.IntRange(0, 7).Draw(g.t, "bare") == 0 {
			s.Bare = true
			s.EndLead = g.neutral()
			return s
		}
		for i, n := 0, rapid.SampledFrom([]int{0, 0, 0, 1, 2}).Draw(g.t, "nelif"); i < n; i++ {
			s.Elifs = append(s.Elifs, LElif{Kw: rapid.SampledFrom([]string{"else if", "elseif", "elsif"}).Draw(g.t, "elifkw"),
				Cond: rapid.SampledFrom(lintConds).Draw(g.t, "elifcond"), Body: g.block(nest+1, 1, 2)})
		}
		if rapid.Bool().Draw(g.t, "else") {
			s.HasElse = true
			s.Else = g.block(nest+1, 1, 2)
		}
		s.EndLead = g.neutral()
		return s
	}
	return g.simple()
}

func (g *lintGen) block(nest, lo, hi int) []LStmt {
	n := rapid.IntRange(lo, hi).Draw(g.t, "nblock")
	var out []LStmt
	for i := 0; i < n; i++ {
		out = append(out, g.stmt(nest))
	}
	return out
}

func (g *lintGen) declares() []LStmt {
	var out []LStmt
	for _, d := range []string{"declare local var.s STRING;", "declare local var.i INTEGER;", "declare local var.b BOOL;"} {
		s := LStmt{Text: d, Declare: true, Lead: g.neutral(), Trail: g.neutral()}
		s.ID = g.nextID
		out = append(out, s)
	}
	return out
}

// program draws a program with nUser helper subs (each callable from vcl_recv).
func (g *lintGen) program(nUser int) LProgram {
	var p LProgram
	for i := 0; i < nUser; i++ {
		sub := LSub{Name: fmt.Sprintf("helper_%d", i), Lead: g.neutral()}
		sub.Stmts = append(g.declares(), g.block(0, 1, 4)...)
		p.Subs = append(p.Subs, sub)
	}
	recv := LSub{Name: "vcl_recv", Scope: "recv", Lead: g.neutral()}
	jump := g.gotos && rapid.IntRange(0, 3).Draw(g.t, "goto") == 0
	recv.Stmts = g.declares()
	if jump {
		recv.Stmts = append(recv.Stmts, g.gotoStmt(1)...)
	}
	recv.Stmts = append(recv.Stmts, g.block(0, 2, 6)...)
	for i := 0; i < nUser; i++ {
		s := LStmt{Text: fmt.Sprintf("call helper_%d;", i), Lead: g.neutral(), Trail: g.neutral()}
		s.ID = g.nextID
		recv.Stmts = append(recv.Stmts, s)
	}
	if jump {
		recv.Stmts = append(recv.Stmts, g.labelStmt(1)...)
	}
	p.Subs = append(p.Subs, recv)
	if rapid.Bool().Draw(g.t, "deliver") {
		del := LSub{Name: "vcl_deliver", Scope: "deliver", Lead: g.neutral()}
		del.Stmts = append(g.declares(), g.block(0, 1, 3)...)
		p.Subs = append(p.Subs, del)
	}
	return p
}

// lintRootDecls: root declarations that raise diagnostics located in themselves (unused, duplicated, syntax).
var lintRootDecls = []string{
	`table unused_t {}`,
	`table unused_t2 { "a": "1" }`,
	`acl unused_a {}`,
	`acl unused_a2 { "192.168.0.0"/16; }`,
	`backend unused_b { .host = "127.0.0.1"; }`,
	`table dup_t { "a": "1" }`,
	`table dup_t { "dup": "1" }`,
	`acl dup_a { "10.0.0.0"/8; }`,
	`acl dup_a { "10.1.0.0"/16; }`,
	`ratecounter dup_rc { }`,
	`ratecounter dup_rc { }`,
	`penaltybox unused_pb { }`,
	`ratecounter unused_rc { }`,
	`sub unused_sub { set req.http.X-U = "1"; }`,
	`table bad_t INTEGER { "a": "str" }`,
	`backend bad_b { .nosuch = "x"; }`,
	`director unused_d random { { .backend = b; .weight = 1; } }`,
}

// rootDecls draws 0-3 of them (distinct).
func (g *lintGen) rootDecls() []LStmt {
	n := rapid.IntRange(0, 3).Draw(g.t, "nroot")
	seen := map[string]bool{}
	var out []LStmt
	for i := 0; i < n; i++ {
		d := rapid.SampledFrom(lintRootDecls).Draw(g.t, "rootdecl")
		if seen[d] && !strings.Contains(d, "dup_rc") {
			continue
		}
		seen[d] = true
		s := LStmt{Text: d, Lead: g.neutral(), Trail: g.neutral()}
		s.ID = g.nextID
		out = append(out, s)
	}
	return out
}

const lintPrelude = "backend b { .host = \"127.0.0.1\"; .port = \"1\"; }\ntable t { \"a\": \"1\", }\nacl office { \"10.0.0.0\"/8; }\nratecounter rc { }\n"

// render prints the program; every statement gets First/Last line numbers (1-based).
func (p *LProgram) render() string {
	var b strings.Builder
	line := 1
	w := func(s string) {
		b.WriteString(s + "\n")
		line += 1 + strings.Count(s, "\n")
	}
	if !p.Snippet {
		for _, l := range strings.Split(strings.TrimRight(lintPrelude, "\n"), "\n") {
			w(l)
		}
	}
	var stmts func(ss []LStmt, ind string)
	stmts = func(ss []LStmt, ind string) {
		for i := range ss {
			s := &ss[i]
			w(ind + s.Lead)
			if s.Lead2 != "" {
				w(ind + s.Lead2)
			}
			s.First = line
			if !s.Compound {
				t := ind + s.Text
				if s.Trail != "" {
					t += " " + s.Trail
				}
				w(t)
				s.Last = line - 1
				continue
			}
			if s.Bare {
				w(ind + "{")
			} else {
				w(ind + "if (" + s.Text + ") {")
			}
			stmts(s.Body, ind+"  ")
			for k := range s.Elifs {
				w(ind + "} " + s.Elifs[k].Kw + " (" + s.Elifs[k].Cond + ") {")
				stmts(s.Elifs[k].Body, ind+"  ")
			}
			if s.HasElse {
				w(ind + "} else {")
				stmts(s.Else, ind+"  ")
			}
			if s.EndLead != "" {
				w(ind + "  " + s.EndLead)
			}
			w(ind + "}")
			s.Last = line - 1
		}
	}
	if !p.Snippet {
		stmts(p.Decls, "")
	}
	if p.Snippet {
		w("# @scope: recv")
		stmts(p.Subs[0].Stmts, "")
		return b.String()
	}
	for i := range p.Subs {
		sub := &p.Subs[i]
		if sub.Lead != "" {
			w(sub.Lead)
		}
		sub.Line = line
		w("sub " + sub.Name + " {")
		if sub.Scope != "" {
			w("#FASTLY " + sub.Scope)
		}
		stmts(sub.Stmts, "  ")
		w("}")
	}
	return b.String()
}
