package props

import (
	"fmt"
	"os"
	"strings"
	"testing"

	"pgregory.net/rapid"
	"verif/gen"
)

// TestIdemSurvey (development aid, VERIF_SURVEY=1): prints line diffs of cases whose idempotence failure is
// attributed to a known finding, to see what the signatures of those findings look like.
func TestIdemSurvey(t *testing.T) {
	if os.Getenv("VERIF_SURVEY") != "1" {
		t.Skip()
	}
	seen := map[string]int{}
	rapid.Check(t, func(rt *rapid.T) {
		c := genFmtCase(rt, gen.DocumentedSlots)
		v, err := parseVCL(c.Src)
		if err != nil {
			return
		}
		r1 := runFormat(v, c.Conf)
		if r1.panic != "" || r1.nilRd {
			return
		}
		v2, err := parseVCL(r1.out)
		if err != nil {
			return
		}
		r2 := runFormat(v2, c.Conf)
		if r1.out == r2.out {
			return
		}
		k := idemKey(c, r1.out, r2.out)
		if k == "fmt.line-comment-at-inline-placeholder" {
			return
		}
		if k == "" {
			k = "UNATTRIBUTED(" + idemKeyBySignature(c, r1.out, r2.out) + ")"
		}
		k2 := k
		if idemKeyPositional(c, r1.out, r2.out) == "" {
			k2 = k + " (causal)"
		}
		seen[k2]++
		if seen[k2] <= 6 && strings.HasSuffix(k2, "(causal)") && len(c.Src) < 1200 && os.Getenv("VERIF_SURVEY_SHOW") != "" {
			f1, _ := flattenMultilineTokens(r1.out)
			f2, _ := flattenMultilineTokens(r2.out)
			fmt.Printf("IDEM %s\n%s\n-----flattened:\n%s\n------\n", k2, lineDiff(r1.out, r2.out), lineDiff(f1, f2))
		}
	})
	for k, n := range seen {
		fmt.Printf("IDEMCOUNT %-60s %d\n", k, n)
	}
}
