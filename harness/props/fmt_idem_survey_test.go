package props

import (
	"encoding/json"
	"fmt"
	"os"
	"strings"
	"testing"

	"pgregory.net/rapid"
	"verif/gen"
)

// TestIdemSurvey (development aid, VERIF_SURVEY=1): prints line diffs of cases whose idempotence failure is
// attributed to a known finding, to see what the signatures of those findings look like.
func TestIdemSurvey(t *testing.T) {
	if os.Getenv("VERIF_SURVEY") != "1" {
		t.Skip()
	}
	seen := map[string]int{}
	rapid.Check(t, func(rt *rapid.T) {
		c := genFmtCase(rt, gen.DocumentedSlots)
		v, err := parseVCL(c.Src)
		if err != nil {
			return
		}
		r1 := runFormat(v, c.Conf)
		if r1.panic != "" || r1.nilRd {
			return
		}
		v2, err := parseVCL(r1.out)
		if err != nil {
			return
		}
		r2 := runFormat(v2, c.Conf)
		if r1.out == r2.out {
			return
		}
		k := idemKey(c, r1.out, r2.out)
		if k == "fmt.line-comment-at-inline-placeholder" {
			return
		}
		if k == "" {
			k = "UNATTRIBUTED(" + idemKeyBySignature(c, r1.out, r2.out) + ")"
		}
		k2 := k
		if idemKeyPositional(c, r1.out, r2.out) == "" {
			k2 = k + " (causal)"
		}
		seen[k2]++
		if seen[k2] <= 6 && strings.HasSuffix(k2, "(causal)") && len(c.Src) < 1200 && os.Getenv("VERIF_SURVEY_SHOW") != "" {
			f1, _ := flattenMultilineTokens(r1.out)
			f2, _ := flattenMultilineTokens(r2.out)
			fmt.Printf("IDEM %s\n%s\n-----flattened:\n%s\n------\n", k2, lineDiff(r1.out, r2.out), lineDiff(f1, f2))
		}
	})
	for k, n := range seen {
		fmt.Printf("IDEMCOUNT %-60s %d\n", k, n)
	}
}

// TestIdemReplay (development aid): VERIF_IDEM_REPLAY=<replay file> prints how the attribution goes.
func TestIdemReplay(t *testing.T) {
	f := os.Getenv("VERIF_IDEM_REPLAY")
	if f == "" {
		t.Skip()
	}
	b, err := os.ReadFile(f)
	if err != nil {
		t.Fatal(err)
	}
	var doc struct {
		Case json.RawMessage `json:"case"`
	}
	if err := json.Unmarshal(b, &doc); err != nil {
		t.Fatal(err)
	}
	c, err := loadFmtCase(doc.Case)
	if err != nil {
		t.Fatal(err)
	}
	v, _ := parseVCL(c.Src)
	r1 := runFormat(v, c.Conf)
	v2, _ := parseVCL(r1.out)
	r2 := runFormat(v2, c.Conf)
	fmt.Println("signature:", idemKeyBySignature(c, r1.out, r2.out), "positional:", idemKeyPositional(c, r1.out, r2.out))
	h, ok := withoutUnstableFeatures(c)
	fmt.Println("healed ok:", ok)
	hv, err := parseVCL(h.Src)
	fmt.Println("healed parses:", err)
	if err == nil {
		h1 := runFormat(hv, h.Conf)
		hv2, err2 := parseVCL(h1.out)
		fmt.Println("healed pass1 parses:", err2)
		if err2 == nil {
			h2 := runFormat(hv2, h.Conf)
			fmt.Println("healed idempotent:", h1.out == h2.out)
			if h1.out != h2.out {
				fmt.Println(lineDiff(h1.out, h2.out))
			}
		}
	}
}

func TestIdemReplayDiff(t *testing.T) {
	f := os.Getenv("VERIF_IDEM_REPLAY")
	if f == "" {
		t.Skip()
	}
	b, _ := os.ReadFile(f)
	var doc struct {
		Case json.RawMessage `json:"case"`
	}
	json.Unmarshal(b, &doc)
	c, _ := loadFmtCase(doc.Case)
	v, _ := parseVCL(c.Src)
	r1 := runFormat(v, c.Conf)
	v2, _ := parseVCL(r1.out)
	r2 := runFormat(v2, c.Conf)
	a, bb := noWS(r1.out), noWS(r2.out)
	i := firstDiffIndex(a, bb)
	lo := i - 60
	if lo < 0 {
		lo = 0
	}
	fmt.Printf("noWS equal=%v at %d\n1: %q\n2: %q\n", a == bb, i, a[lo:min(len(a), i+60)], bb[lo:min(len(bb), i+60)])
}

func TestIdemReplayWords(t *testing.T) {
	f := os.Getenv("VERIF_IDEM_REPLAY")
	if f == "" {
		t.Skip()
	}
	b, _ := os.ReadFile(f)
	var doc struct {
		Case json.RawMessage `json:"case"`
	}
	json.Unmarshal(b, &doc)
	c, _ := loadFmtCase(doc.Case)
	v, _ := parseVCL(c.Src)
	r1 := runFormat(v, c.Conf)
	v2, _ := parseVCL(r1.out)
	r2 := runFormat(v2, c.Conf)
	cnt := map[string]int{}
	for _, w := range strings.Fields(r1.out) {
		cnt[w]++
	}
	for _, w := range strings.Fields(r2.out) {
		cnt[w]--
	}
	for w, n := range cnt {
		if n != 0 {
			fmt.Printf("word %q: %+d\n", w, n)
		}
	}
}
