package props

import (
	"fmt"
	"os"
	"sort"
	"testing"

	"pgregory.net/rapid"
	"verif/gen"
)

// TestFmtSurvey (development aid, VERIF_SURVEY=1 VERIF_NOAVOID=1): for cases with exactly one `#`/`//`
// comment at an inline placeholder, tabulates per placeholder how often C03 / C14 / C15 hold.
func TestFmtSurvey(t *testing.T) {
	if os.Getenv("VERIF_SURVEY") != "1" {
		t.Skip()
	}
	type row struct{ n, f03, f14, f15 int }
	tab := map[string]*row{}
	ex := map[string]string{}
	c15 := func(src string, conf FmtConf) bool {
		v, err := parseVCL(src)
		if err != nil {
			return true
		}
		r := runFormat(v, conf)
		if r.panic != "" || r.nilRd {
			return false
		}
		cnt := map[string]int{}
		for _, x := range commentTokens(src) {
			cnt[normComment(x, conf.CommentStyle)]++
		}
		for _, x := range commentTokens(r.out) {
			cnt[normComment(x, conf.CommentStyle)]--
		}
		for _, n := range cnt {
			if n != 0 {
				return false
			}
		}
		return true
	}
	rapid.Check(t, func(rt *rapid.T) {
		docOnly := rapid.Bool().Draw(rt, "doc")
		var slots func(gen.Tok) bool
		if docOnly {
			slots = gen.DocumentedSlots
		}
		c := genFmtCase(rt, slots)
		if c.Kind != "generated" {
			return
		}
		var ctx string
		k := 0
		for _, pc := range c.Comments {
			if isInlineLineComment(pc) {
				k++
				ctx = pc.Ctx
				if !pc.Alone {
					ctx += "+other"
				}
			}
		}
		if k >= 2 && !hasUnsafeInlineLineComment(c) {
			ctx = "ALLSAFE k>=2"
		} else if k != 1 {
			return
		}
		if _, err := parseVCL(c.Src); err != nil {
			return
		}
		// the case must hold once that comment is a block comment, so that a failure is caused by it
		all, ok := inlineLineCommentsAsBlocks(c, -1)
		if !ok || !c03Holds(all, c.Conf) || !c14Holds(all, c.Conf) || !c15(all, c.Conf) {
			return
		}
		r := tab[ctx]
		if r == nil {
			r = &row{}
			tab[ctx] = r
		}
		r.n++
		bad := false
		if !c03Holds(c.Src, c.Conf) {
			r.f03++
			bad = true
		}
		if !c14Holds(c.Src, c.Conf) {
			r.f14++
			bad = true
		}
		if !c15(c.Src, c.Conf) {
			r.f15++
			bad = true
		}
		if want := os.Getenv("VERIF_SURVEY_CTX"); want == ctx && bad {
			v, _ := parseVCL(c.Src)
			fmt.Printf("EXAMPLE bad=%v conf=%+v\n%s\n---- formatted:\n%s\n=====\n", bad, c.Conf, c.Src, runFormat(v, c.Conf).out)
		}
		_ = ex
	})
	var keys []string
	for k := range tab {
		keys = append(keys, k)
	}
	sort.Strings(keys)
	for _, k := range keys {
		r := tab[k]
		fmt.Printf("SURVEY %-40s n=%5d c03-fail=%5d c14-fail=%5d c15-fail=%5d\n", k, r.n, r.f03, r.f14, r.f15)
	}
}
