package props

import (
	"bytes"
	"context"
	"encoding/json"
	"fmt"
	"os"
	"os/exec"
	"path/filepath"
	"regexp"
	"sort"
	"strconv"
	"strings"
	"time"

	"github.com/ysugimoto/falco/v2/config"
	"github.com/ysugimoto/falco/v2/lexer"
	"github.com/ysugimoto/falco/v2/linter"
	lcontext "github.com/ysugimoto/falco/v2/linter/context"
	"github.com/ysugimoto/falco/v2/parser"
	"github.com/ysugimoto/falco/v2/resolver"
	"pgregory.net/rapid"

	"verif/iso"
)

// C04 — the lint command's verdict is consistent.

type C04Case struct {
	Main  string            `json:"main"`
	Files map[string]string `json:"files,omitempty"` // path relative to the case directory
	Rules [][2]string       `json:"rules,omitempty"` // .falco.yml linter.rules, in file order; nil: no config file
	Feat  []string          `json:"feat,omitempty"`
	// Generated: every run gets the -generated flag (docs/configuration.md: lint as generated VCL); the generated
	// programs carry their #FASTLY macros, so the flag must not change any verdict or count
	Generated bool `json:"generated,omitempty"`
	// DirBeforeInclude: a falco-ignore-end comment stands directly in front of an include statement
	// (trigger of the known finding lint.ignore-comment-on-include-dropped)
	DirBeforeInclude bool `json:"dir_before_include,omitempty"`
}

func init() {
	register("C04",
		"a case directory (main.vcl, modules under inc/, optional .falco.yml with linter.rules overrides) is linted by the built `falco lint -I inc [flags] main.vcl` for all of {plain,-json} x {default,-v,-vv}; oracle: exit status non-zero exactly when the harness' reference verdict says so (syntax error found by parsing main/included files through the library, or >=1 library diagnostic whose severity after the case's rule overrides is ERROR), and the (errors, warnings, infos) triple of every run that reports one (summary line, -json document) equals the reference triple and the triples of all other runs. non-trivial: the case has a diagnostic, a syntax error or an override; distinct by case",
		genC04, checkC04, 120*time.Second)
}

var (
	c04Clean = []string{
		`set req.http.X-A = "v";`,
		`unset req.http.X-B;`,
		`set req.http.X-C = req.http.X-A "suffix";`,
		`set req.http.X-L = std.tolower(req.http.Host);`,
		`if (req.http.X-B) { set req.http.X-D = "1"; }`,
	}
	c04Info = []string{
		`if (req.http.X-Never) { error 700; }`,
		`if (req.http.A ~ "a(b)") { set req.http.X-A = re.group.1; } if (req.http.A ~ "a(c)") { set req.http.X-A = re.group.1; }`,
		`set req.http.X-T = "a" now;`,
	}
	c04Warn = []string{
		`set req.http.X-G = re.group.1;`,
		`if (req.url ~ "\.(jpg|png)$") { set req.http.X-A = "1"; }`,
		`declare local var.unused%d STRING;`,
	}
	c04Err = []string{
		`set req.http.X-E = some.undefined.variable;`,
		`set req.http.X-E = std.strlen();`,
		`set req.http.Fastly-FF = "x";`,
		`set beresp.ttl = 1s;`,
		`set req.http.X-E = std.nope("a");`,
		`set req.http.X-E = table.lookup(nope, "k");`,
		`set req.http.X-I = 10;`,
		`call does_not_exist;`,
	}
	c04Syntax = []string{
		"set req.http.X-S = \"1\"",           // missing semicolon (when followed by })
		"set req.http.X-S = ;",               // missing expression
		"if (req.http.X-S {  }",              // unbalanced paren
		"set req.http.X-S = \"unterminated;", // unterminated string
		"@@ nonsense;",
		"}",
	}
	c04RuleNames = []string{
		"operator/assignment", "unused/variable", "unused/declaration", "deprecated", "regex/url-extension",
		"regex/matched-value-override", "error-statement/code", "operator/time-calculation",
		"subroutine/unrecognize-call-scope", "function/arguments", "valid-ip", "snippet-scope-required", "subroutine/boilerplate-macro",
		"function/argument-type", "call-statement/subroutine-notfound", "include/module-load-failed",
		// the rules the statement pools produce most often, listed again to weight them
		"operator/assignment", "operator/assignment", "function/arguments", "unused/variable", "deprecated", "regex/url-extension", "error-statement/code",
	}
	c04Severities = []string{"ERROR", "error", "WARNING", "Warning", "INFO", "info", "IGNORE", "ignore", "fatal"}
)

// c04LineRule: the rule of the diagnostic a pool line produces (used to aim overrides).
var c04LineRule = map[string]string{
	`if (req.http.X-Never) { error 700; }`:                      "error-statement/code",
	`set req.http.X-G = re.group.1;`:                            "deprecated",
	`declare local var.unused%d STRING;`:                        "unused/variable",
	`set req.http.X-E = std.strlen();`:                          "function/arguments",
	`set req.http.X-I = 10;`:                                    "operator/assignment",
	`call does_not_exist;`:                                      "call-statement/subroutine-notfound",
	`if (req.url ~ "\.(jpg|png)$") { set req.http.X-A = "1"; }`: "regex/url-extension",
}

const c04Prelude = "backend b { .host = \"127.0.0.1\"; .port = \"1\"; }\n"

func genC04(t *rapid.T) any {
	c := C04Case{Files: map[string]string{}}
	feat := map[string]bool{}
	n := 0
	var present []string
	// set before the main body is drawn: include statements will follow the drawn statements of vcl_recv
	mainEndsWithInclude := false
	lines := func(label string, indent string) []string {
		var out []string
		add := func(pool []string, cnt int, ignoreable bool) {
			for i := 0; i < cnt; i++ {
				l := rapid.SampledFrom(pool).Draw(t, label+"line")
				if r, ok := c04LineRule[l]; ok {
					present = append(present, r)
				}
				if strings.Contains(l, "%d") {
					n++
					l = fmt.Sprintf(l, n)
				}
				// (not in front of a declaration: its unused-variable warning is raised later, at the end of the subroutine)
				if ignoreable && !strings.Contains(l, "declare local") && !strings.Contains(l, "} if (") && rapid.IntRange(0, 3).Draw(t, "ignore") == 3 {
					switch rapid.IntRange(0, 3).Draw(t, "ignoreform") {
					case 0: // two stacked directives, one rule list each
						r1 := c04LineRule[rapid.SampledFrom(pool).Draw(t, "r1line")]
						if r1 == "" {
							r1 = rapid.SampledFrom(c04RuleNames).Draw(t, "r1")
						}
						out = append(out, indent+"// falco-ignore-next-line "+r1)
						out = append(out, indent+"// falco-ignore-next-line "+rapid.SampledFrom(c04RuleNames).Draw(t, "r2"))
						feat["ignore-comment-stacked"] = true
					case 1: // one directive with a rule list
						out = append(out, indent+"// falco-ignore-next-line "+rapid.SampledFrom(c04RuleNames).Draw(t, "r1")+", "+rapid.SampledFrom(c04RuleNames).Draw(t, "r2"))
						feat["ignore-comment-with-rules"] = true
					default:
						out = append(out, indent+"// falco-ignore-next-line")
					}
					feat["ignore-comment"] = true
				}
				out = append(out, indent+l)
			}
		}
		pick := func(name string, pct int) int {
			if rapid.IntRange(0, 99).Draw(t, name) >= 100-pct {
				return rapid.IntRange(1, 2).Draw(t, name+"n")
			}
			return 0
		}
		add(c04Clean, rapid.IntRange(1, 3).Draw(t, "nclean"), false)
		add(c04Info, pick(label+"info", 30), true)
		add(c04Warn, pick(label+"warn", 30), true)
		add(c04Err, pick(label+"err", 30), true)
		// shuffle; an ignore comment stays in front of its line, declarations go first
		var pairs [][]string
		for i := 0; i < len(out); i++ {
			j := i
			for j < len(out) && strings.Contains(out[j], "falco-ignore-next-line") {
				j++
			}
			if j > i && j < len(out) {
				pairs = append(pairs, append([]string{}, out[i:j+1]...))
				i = j
			} else {
				pairs = append(pairs, []string{out[i]})
			}
		}
		idx := rapid.Permutation(seq(len(pairs))).Draw(t, label+"order")
		var decl, rest []string
		for _, i := range idx {
			for _, l := range pairs[i] {
				if strings.Contains(l, "declare local") {
					decl = append(decl, l)
				} else {
					rest = append(rest, l)
				}
			}
		}
		// a falco-ignore-start … falco-ignore-end range around a run of the statements behind the
		// declarations; the end comment may be the last thing of the block (in front of its closing brace).
		// At the top level of a file (module, snippet) the end comment has to be followed by a statement.
		isDir := func(l string) bool { return strings.Contains(l, "falco-ignore") }
		if len(rest) > 0 && rapid.IntRange(0, 5).Draw(t, label+"range") == 0 {
			var starts []int
			for i := range rest {
				if i == 0 || !isDir(rest[i-1]) {
					starts = append(starts, i)
				}
			}
			p := rapid.SampledFrom(starts).Draw(t, label+"rangestart")
			var ends []int
			for j := p + 1; j <= len(rest); j++ {
				if !isDir(rest[j-1]) && (j < len(rest) || indent != "") {
					ends = append(ends, j)
				}
			}
			// known finding lint.ignore-comment-on-include-dropped: the comments of an include statement are
			// thrown away when the module is resolved, an end comment in front of it never closes the range.
			// Excluded by construction in seven cases out of eight.
			if label == "main" && mainEndsWithInclude && len(ends) > 0 && ends[len(ends)-1] == len(rest) {
				if rapid.IntRange(0, 7).Draw(t, "end-before-include") > 0 {
					ends = ends[:len(ends)-1]
					feat["excluded:ignore-end-before-include"] = true
				} else {
					c.DirBeforeInclude = true
				}
			}
			if len(ends) > 0 {
				q := rapid.SampledFrom(ends).Draw(t, label+"rangeend")
				marker := rapid.SampledFrom([]string{"// %s", "# %s", "/* %s */"}).Draw(t, label+"rangemarker")
				var nr []string
				nr = append(nr, rest[:p]...)
				nr = append(nr, indent+fmt.Sprintf(marker, "falco-ignore-start"))
				nr = append(nr, rest[p:q]...)
				nr = append(nr, indent+fmt.Sprintf(marker, "falco-ignore-end"))
				nr = append(nr, rest[q:]...)
				rest = nr
				feat["ignore-range"] = true
				if q == len(rest)-2 {
					feat["ignore-range-ends-block"] = true
				}
			}
		}
		return append(decl, rest...)
	}
	syntax := func(where string) string {
		feat["syntax:"+where] = true
		return rapid.SampledFrom(c04Syntax).Draw(t, "syntax")
	}

	snippet := rapid.IntRange(0, 99).Draw(t, "snippet") >= 78
	syntaxMain := rapid.IntRange(0, 99).Draw(t, "syntaxmain") >= 90
	// 0-2 includes, in file order: a broken module may be followed or preceded by a good one
	incKinds := []string{"root-clean", "root-lines", "root-syntax", "stmt-clean", "stmt-lines", "stmt-syntax", "missing", "nested-syntax", "stmt-nested-clean", "stmt-nested-lines", "stmt-nested-syntax"}
	var incs []string
	switch rapid.IntRange(0, 9).Draw(t, "nincludes") {
	case 0, 1, 2, 3:
	case 4, 5, 6, 7:
		incs = []string{rapid.SampledFrom(incKinds).Draw(t, "include")}
	default:
		incs = []string{rapid.SampledFrom(incKinds).Draw(t, "include"), rapid.SampledFrom(incKinds).Draw(t, "include2")}
	}
	for _, inc := range incs {
		if strings.HasPrefix(inc, "stmt") || inc == "missing" {
			mainEndsWithInclude = true
		}
	}
	var body []string
	if snippet {
		feat["snippet"] = true
		body = lines("main", "")
	} else {
		body = lines("main", "  ")
	}
	var rootIncludes []string
	for k, inc := range incs {
		if snippet && (strings.HasPrefix(inc, "root") || inc == "nested-syntax") {
			continue
		}
		feat["include:"+inc] = true
		if len(incs) == 2 {
			feat["two-includes"] = true
		}
		m, sm := fmt.Sprintf("m%d", k+1), fmt.Sprintf("s%d", k+1)
		switch inc {
		case "stmt-clean":
			body = append(body, "  include \""+sm+"\";")
			c.Files["inc/"+sm+".vcl"] = "set req.http.X-" + sm + " = \"1\";\n"
		case "stmt-lines":
			body = append(body, "  include \""+sm+"\";")
			c.Files["inc/"+sm+".vcl"] = strings.Join(lines(sm, ""), "\n") + "\n"
		case "stmt-syntax":
			body = append(body, "  include \""+sm+"\";")
			c.Files["inc/"+sm+".vcl"] = "set req.http.X-" + sm + " = \"1\";\n" + syntax("module") + "\n"
		case "stmt-nested-clean", "stmt-nested-lines", "stmt-nested-syntax":
			// a statement module that itself includes a statement module
			body = append(body, "  include \""+sm+"\";")
			c.Files["inc/"+sm+".vcl"] = "set req.http.X-" + sm + " = \"1\";\ninclude \"" + sm + "n\";\n"
			switch inc {
			case "stmt-nested-clean":
				c.Files["inc/"+sm+"n.vcl"] = "set req.http.X-" + sm + "n = \"1\";\n"
			case "stmt-nested-lines":
				c.Files["inc/"+sm+"n.vcl"] = strings.Join(lines(sm+"n", ""), "\n") + "\n"
			default:
				c.Files["inc/"+sm+"n.vcl"] = "set req.http.X-" + sm + "n = \"1\";\n" + syntax("module") + "\n"
			}
		case "missing":
			body = append(body, "  include \"nope\";")
		case "root-clean":
			rootIncludes = append(rootIncludes, m)
			c.Files["inc/"+m+".vcl"] = "sub from_" + m + " {\n  set req.http.X-" + m + " = \"1\";\n}\n"
			body = append(body, "  call from_"+m+";")
		case "root-lines":
			rootIncludes = append(rootIncludes, m)
			c.Files["inc/"+m+".vcl"] = "sub from_" + m + " {\n" + strings.Join(lines(m, "  "), "\n") + "\n}\n"
			body = append(body, "  call from_"+m+";")
		case "root-syntax":
			rootIncludes = append(rootIncludes, m)
			c.Files["inc/"+m+".vcl"] = "sub from_" + m + " {\n  set req.http.X-" + m + " = \"1\";\n  " + syntax("module") + "\n}\n"
		case "nested-syntax":
			rootIncludes = append(rootIncludes, m)
			c.Files["inc/"+m+".vcl"] = "include \"" + m + "n\";\nsub from_" + m + " {\n  set req.http.X-" + m + " = \"1\";\n}\n"
			c.Files["inc/"+m+"n.vcl"] = "sub from_" + m + "n {\n  " + syntax("module") + "\n}\n"
			body = append(body, "  call from_"+m+";")
		}
	}
	if syntaxMain {
		at := rapid.IntRange(0, len(body)).Draw(t, "syntaxat")
		body = append(body[:at:at], append([]string{syntax("main")}, body[at:]...)...)
	}
	var b strings.Builder
	if snippet {
		if rapid.IntRange(0, 3).Draw(t, "scope") > 0 {
			b.WriteString("// @scope: recv\n")
			feat["snippet-with-scope"] = true
		} else {
			// Without @scope the statements are not linted at all; the one file-level error is reported at
			// the first statement, and whether a directive on that statement covers it is not documented:
			// no directives in such a main file
			var kept []string
			for _, l := range body {
				if !strings.Contains(l, "falco-ignore") {
					kept = append(kept, l)
				}
			}
			body = kept
		}
		b.WriteString(strings.Join(body, "\n") + "\n")
	} else {
		b.WriteString(c04Prelude)
		for _, m := range rootIncludes {
			b.WriteString("include \"" + m + "\";\n")
		}
		if rapid.IntRange(0, 5).Draw(t, "unusedsub") == 0 {
			b.WriteString("sub never_called {\n  set req.http.X-U = \"1\";\n}\n")
			feat["unused-sub"] = true
		}
		b.WriteString("sub vcl_recv {\n#FASTLY recv\n  set req.backend = b;\n")
		b.WriteString(strings.Join(body, "\n") + "\n")
		b.WriteString("}\n")
		if rapid.Bool().Draw(t, "deliver") {
			b.WriteString("sub vcl_deliver {\n#FASTLY deliver\n" + strings.Join(lines("deliver", "  "), "\n") + "\n}\n")
		}
	}
	c.Main = b.String()
	c.Generated = rapid.IntRange(0, 5).Draw(t, "generated") == 5
	if c.Generated {
		feat["flag:-generated"] = true
	}
	if rapid.IntRange(0, 99).Draw(t, "config") >= 40 {
		k := rapid.IntRange(1, 5).Draw(t, "nrules")
		seen := map[string]bool{}
		for i := 0; i < k; i++ {
			r := rapid.SampledFrom(c04RuleNames).Draw(t, "rule")
			if len(present) > 0 && rapid.IntRange(0, 3).Draw(t, "aimed") > 0 {
				r = rapid.SampledFrom(present).Draw(t, "presentrule")
			}
			if seen[r] {
				continue
			}
			seen[r] = true
			c.Rules = append(c.Rules, [2]string{r, rapid.SampledFrom(c04Severities).Draw(t, "sev")})
		}
		feat["config"] = true
	}
	for k := range feat {
		c.Feat = append(c.Feat, k)
	}
	sort.Strings(c.Feat)
	return c
}

type c04Triple struct{ E, W, I int }

type c04Ref struct {
	bogusFatal string // the linter reports a syntax error although every file of the case parses
	ignored    int    // diagnostics removed by ignore comments (applied by the harness)
	syntax     string // non-empty: syntax error (file: message)
	triple     c04Triple
	changed    int // diagnostics whose effective severity differs from the original
	original   c04Triple
}

// c04Reference computes the reference verdict through the library.
// The reference lints a copy of the case in which every ignore directive is replaced by an ordinary
// comment, and removes the diagnostics of the covered lines itself (covered[file base name][line]),
// so that it does not depend on the linter's handling of ignore comments.
type c04Cover struct {
	all   bool
	rules map[string]bool
}

func c04Reference(dir string, files map[string]string, rules [][2]string, covered map[string]map[int]*c04Cover) (ref c04Ref, infra error) {
	rs, err := resolver.NewFileResolvers(filepath.Join(dir, "main.vcl"), []string{filepath.Join(dir, "inc")})
	if err != nil {
		return ref, err
	}
	main, err := rs[0].MainVCL()
	if err != nil {
		return ref, err
	}
	vcl, err := parser.New(lexer.NewFromString(main.Data, lexer.WithFile(main.Name))).ParseVCLOrSnippet()
	if err != nil {
		ref.syntax = "main.vcl: " + err.Error()
		return ref, nil
	}
	// Syntax errors of included modules are found by parsing every module file of the case
	// directly (every generated module is reachable from main.vcl by construction): modules
	// included at the root are VCL files, modules included inside a subroutine are statement lists.
	var names []string
	for rel := range files {
		names = append(names, rel)
	}
	sort.Strings(names)
	for _, rel := range names {
		p := parser.New(lexer.NewFromString(files[rel], lexer.WithFile(rel)))
		var perr error
		if strings.HasPrefix(filepath.Base(rel), "s") {
			_, perr = p.ParseSnippetVCL()
		} else {
			_, perr = p.ParseVCL()
		}
		if perr != nil {
			ref.syntax = rel + ": " + perr.Error()
			return ref, nil
		}
	}
	lt := linter.New(&config.LinterConfig{IgnoreSubroutines: []string{"vcl_pipe"}})
	lt.Lint(vcl, lcontext.New(lcontext.WithResolver(rs[0])))
	if lt.FatalError != nil {
		// every file of the case parses on its own: the linter found a syntax error that is not there
		ref.bogusFatal = fmt.Sprintf("%v", lt.FatalError.Error)
		return ref, nil
	}
	over := map[string]string{}
	for _, kv := range rules {
		switch strings.ToUpper(kv[1]) {
		case "ERROR", "WARNING", "INFO", "IGNORE":
			over[kv[0]] = strings.ToUpper(kv[1])
		}
	}
	count := func(t *c04Triple, sev string) {
		switch sev {
		case "ERROR":
			t.E++
		case "WARNING":
			t.W++
		case "INFO":
			t.I++
		}
	}
	for _, e := range lt.Errors {
		if cv := covered[filepath.Base(e.Token.File)][e.Token.Line]; cv != nil && (cv.all || cv.rules[string(e.Rule)]) {
			ref.ignored++
			continue
		}
		orig := strings.ToUpper(string(e.Severity))
		eff := orig
		if v, ok := over[string(e.Rule)]; ok {
			eff = v
		}
		if eff != orig {
			ref.changed++
		}
		count(&ref.original, orig)
		count(&ref.triple, eff)
	}
	return ref, nil
}

type c04Run struct {
	flags    []string
	exit     int
	timedOut bool
	reported bool
	triple   c04Triple
	source   string
	stdout   string
	stderr   string
}

var c04Summary = regexp.MustCompile(`(\d+) errors, \D*(\d+) warnings, \D*(\d+) recommendations`)

func c04Exec(dir string, flags []string) (c04Run, error) {
	r := c04Run{flags: flags}
	args := append([]string{"lint", "-I", "inc"}, flags...)
	args = append(args, "main.vcl")
	ctx, cancel := context.WithTimeout(context.Background(), 30*time.Second)
	defer cancel()
	cmd := exec.CommandContext(ctx, os.Getenv("VERIF_FALCO"), args...)
	cmd.Dir = dir
	cmd.Env = []string{"PATH=/usr/bin:/bin", "HOME=" + dir, "TZ=UTC"}
	var so, se bytes.Buffer
	cmd.Stdout, cmd.Stderr = &so, &se
	err := cmd.Run()
	r.stdout, r.stderr = so.String(), se.String()
	if ctx.Err() != nil {
		r.timedOut = true
		return r, nil
	}
	if err != nil {
		ee, ok := err.(*exec.ExitError)
		if !ok {
			return r, err
		}
		r.exit = ee.ExitCode()
	}
	json_ := false
	for _, f := range flags {
		if f == "-json" {
			json_ = true
		}
	}
	if json_ {
		var doc struct {
			Infos, Warnings, Errors *int
		}
		dec := json.NewDecoder(strings.NewReader(r.stdout))
		if err := dec.Decode(&doc); err == nil && doc.Infos != nil && doc.Warnings != nil && doc.Errors != nil {
			r.reported, r.source = true, "-json document"
			r.triple = c04Triple{*doc.Errors, *doc.Warnings, *doc.Infos}
		}
		return r, nil
	}
	if m := c04Summary.FindAllStringSubmatch(r.stdout+"\n"+r.stderr, -1); len(m) > 0 {
		last := m[len(m)-1]
		e, _ := strconv.Atoi(last[1])
		w, _ := strconv.Atoi(last[2])
		i, _ := strconv.Atoi(last[3])
		r.reported, r.source, r.triple = true, "summary line", c04Triple{e, w, i}
	}
	return r, nil
}

var c04Flags = [][]string{{}, {"-v"}, {"-vv"}, {"-json"}, {"-v", "-json"}, {"-vv", "-json"}}

func checkC04(raw json.RawMessage) iso.Result {
	var c C04Case
	if err := json.Unmarshal(raw, &c); err != nil {
		return iso.Failf("bad case: %v", err)
	}
	col := iso.NewCollector("C04")
	if os.Getenv("VERIF_FALCO") == "" {
		return iso.Failf("INFRA: VERIF_FALCO is not set (the check needs the built falco binary; checkconf must say \"cli\": True)")
	}
	base := os.Getenv("VERIF_WORKDIR")
	if base == "" {
		base = "/var/tmp"
	}
	dir, err := os.MkdirTemp(base, "c04-")
	if err != nil {
		return iso.Failf("INFRA: cannot create scratch directory: %v", err)
	}
	defer os.RemoveAll(dir)
	if f := c10ConfigAbove(dir); f != "" {
		return iso.Failf("INFRA: a falco configuration file %s would be picked up", f)
	}
	if err := os.MkdirAll(filepath.Join(dir, "inc"), 0o755); err != nil {
		return iso.Failf("INFRA: %v", err)
	}
	write := func(rel, data string) error {
		return os.WriteFile(filepath.Join(dir, rel), []byte(data), 0o644)
	}
	if err := write("main.vcl", c.Main); err != nil {
		return iso.Failf("INFRA: %v", err)
	}
	for rel, data := range c.Files {
		if err := write(rel, data); err != nil {
			return iso.Failf("INFRA: %v", err)
		}
	}
	var yml string
	if c.Rules != nil {
		yml = "linter:\n  rules:\n"
		for _, kv := range c.Rules {
			yml += fmt.Sprintf("    %s: %s\n", kv[0], kv[1])
		}
		if err := write(".falco.yml", yml); err != nil {
			return iso.Failf("INFRA: %v", err)
		}
	}
	// stripped copy for the reference
	rdir, err := os.MkdirTemp(base, "c04ref-")
	if err != nil {
		return iso.Failf("INFRA: cannot create scratch directory: %v", err)
	}
	defer os.RemoveAll(rdir)
	if err := os.MkdirAll(filepath.Join(rdir, "inc"), 0o755); err != nil {
		return iso.Failf("INFRA: %v", err)
	}
	covered := map[string]map[int]*c04Cover{}
	strip := func(rel, data string) string {
		ls := strings.Split(data, "\n")
		cover := func(line int) *c04Cover {
			if covered[filepath.Base(rel)] == nil {
				covered[filepath.Base(rel)] = map[int]*c04Cover{}
			}
			if covered[filepath.Base(rel)][line] == nil {
				covered[filepath.Base(rel)][line] = &c04Cover{rules: map[string]bool{}}
			}
			return covered[filepath.Base(rel)][line]
		}
		// ranges first: every line between a start and an end comment is covered for every rule
		inRange := false
		for i := range ls {
			switch {
			case strings.Contains(ls[i], "falco-ignore-start"):
				inRange = true
				ls[i] = strings.Replace(ls[i], "falco-ignore-start", "an ordinary comment", 1)
			case strings.Contains(ls[i], "falco-ignore-end"):
				inRange = false
				ls[i] = strings.Replace(ls[i], "falco-ignore-end", "an ordinary comment", 1)
			case inRange:
				cover(i + 1).all = true
			}
		}
		for i := 0; i < len(ls); i++ {
			if !strings.Contains(ls[i], "falco-ignore-next-line") {
				continue
			}
			// a run of directive lines covers the statement on the first line after the run,
			// for the union of their rule lists (a directive without a list covers every rule)
			cv := &c04Cover{rules: map[string]bool{}}
			j := i
			for j < len(ls) && strings.Contains(ls[j], "falco-ignore-next-line") {
				_, list, _ := strings.Cut(ls[j], "falco-ignore-next-line")
				if strings.TrimSpace(list) == "" {
					cv.all = true
				}
				for _, r := range strings.Split(list, ",") {
					if r = strings.TrimSpace(r); r != "" {
						cv.rules[r] = true
					}
				}
				ls[j] = strings.Replace(ls[j], "falco-ignore-next-line", "an ordinary comment", 1)
				j++
			}
			// line numbers are 1-based: ls[j] is line j+1 (merged with the cover of a range around it)
			tgt := cover(j + 1)
			tgt.all = tgt.all || cv.all
			for r := range cv.rules {
				tgt.rules[r] = true
			}
			i = j
		}
		return strings.Join(ls, "\n")
	}
	stripped := map[string]string{}
	if err := os.WriteFile(filepath.Join(rdir, "main.vcl"), []byte(strip("main.vcl", c.Main)), 0o644); err != nil {
		return iso.Failf("INFRA: %v", err)
	}
	for rel, data := range c.Files {
		stripped[rel] = strip(rel, data)
		if err := os.WriteFile(filepath.Join(rdir, rel), []byte(stripped[rel]), 0o644); err != nil {
			return iso.Failf("INFRA: %v", err)
		}
	}
	ref, ierr := c04Reference(rdir, stripped, c.Rules, covered)
	if ierr != nil {
		return iso.Failf("INFRA: reference: %v", ierr)
	}
	if ref.ignored > 0 {
		col.Label("ignore-comment-effective")
	}
	col.Label(c.Feat...)
	wantFail := ref.syntax != "" || ref.triple.E > 0
	describe := func() string {
		var b strings.Builder
		fmt.Fprintf(&b, "--- main.vcl ---\n%s", numbered(c.Main))
		var names []string
		for k := range c.Files {
			names = append(names, k)
		}
		sort.Strings(names)
		for _, k := range names {
			fmt.Fprintf(&b, "--- %s ---\n%s", k, numbered(c.Files[k]))
		}
		if yml != "" {
			fmt.Fprintf(&b, "--- .falco.yml ---\n%s", yml)
		}
		return b.String()
	}
	if ref.bogusFatal != "" {
		col.Failf("the linter reports a syntax error in an included module although every file of the case parses on its own: %s\n%s", ref.bogusFatal, describe())
		return col.Done()
	}
	refText := fmt.Sprintf("reference: syntax error=%q, effective (errors,warnings,infos)=%v (before overrides %v)", ref.syntax, ref.triple, ref.original)
	var first *c04Run
	for _, flags := range c04Flags {
		if c.Generated {
			flags = append([]string{"-generated"}, flags...)
		}
		run, err := c04Exec(dir, flags)
		if err != nil {
			return iso.Failf("INFRA: cannot run falco: %v", err)
		}
		name := "falco lint " + strings.Join(flags, " ")
		if run.timedOut {
			col.FailKey(c04Key(c, "timeout"), "`%s` did not finish within 30 s\n%s", name, describe())
			return col.Done()
		}
		if (run.exit != 0) != wantFail {
			col.FailKey(c04Key(c, "exit"), "`%s` exited %d, but the verdict should be %s\n%s\nstderr tail: %s\n%s", name, run.exit, map[bool]string{true: "non-zero", false: "zero"}[wantFail], refText, tail(run.stderr, 400), describe())
			return col.Done()
		}
		if run.reported {
			if ref.syntax == "" && run.triple != ref.triple {
				col.FailKey(c04Key(c, "counts"), "`%s` reports (errors,warnings,infos)=%v in its %s\n%s\n%s", name, run.triple, run.source, refText, describe())
				return col.Done()
			}
			if first != nil && first.triple != run.triple {
				col.FailKey(c04Key(c, "counts-differ"), "`%s` reports %v but `falco lint %s` reports %v\n%s\n%s", name, run.triple, strings.Join(first.flags, " "), first.triple, refText, describe())
				return col.Done()
			}
			if first == nil {
				r := run
				first = &r
			}
			col.Count("runs-reporting-counts", 1)
		} else if ref.syntax == "" {
			col.FailKey(c04Key(c, "no-counts"), "`%s` reports no counts although there is no syntax error (exit %d)\nstdout head: %s\nstderr tail: %s\n%s\n%s", name, run.exit, headStr(run.stdout, 200), tail(run.stderr, 400), refText, describe())
			return col.Done()
		}
		col.Count("runs", 1)
	}
	switch {
	case ref.syntax != "":
		col.Label("verdict:syntax-error")
	case ref.triple.E > 0:
		col.Label("verdict:errors")
	case ref.triple.W > 0:
		col.Label("verdict:warnings-only")
	case ref.triple.I > 0:
		col.Label("verdict:infos-only")
	default:
		col.Label("verdict:clean")
	}
	if ref.changed > 0 {
		col.Label("override-effective")
		if (ref.original.E > 0) != (ref.triple.E > 0) {
			col.Label("override-flips-verdict")
		}
	}
	if ref.syntax != "" || ref.original != (c04Triple{}) || len(c.Rules) > 0 {
		col.Res.NonTrivial = true
	}
	return col.Done()
}

func tail(s string, n int) string {
	if len(s) > n {
		return "…" + s[len(s)-n:]
	}
	return s
}

func headStr(s string, n int) string {
	if len(s) > n {
		return s[:n] + "…"
	}
	return s
}

// c04Key: classifier of known findings (none at present).
// c04Key: classifier of known findings. lint.ignore-comment-on-include-dropped applies when the case has the
// trigger (an end comment directly in front of an include statement), the failure is about verdict or
// counts, and the same case holds once an ordinary statement separates that comment from the include
// statement (causal test: the complete check is run on that variant).
func c04Key(c C04Case, sig string) string {
	if !c.DirBeforeInclude || (sig != "exit" && sig != "counts" && sig != "counts-differ") {
		return ""
	}
	ls := strings.Split(c.Main, "\n")
	healed := false
	for i := 0; i+1 < len(ls); i++ {
		if strings.Contains(ls[i], "falco-ignore-end") && strings.HasPrefix(strings.TrimSpace(ls[i+1]), "include ") {
			ls = append(ls[:i+1:i+1], append([]string{"  set req.http.X-Sep = \"1\";"}, ls[i+1:]...)...)
			healed = true
			break
		}
	}
	if !healed {
		return ""
	}
	h := c
	h.Main = strings.Join(ls, "\n")
	h.DirBeforeInclude = false
	raw, err := json.Marshal(h)
	if err != nil {
		return ""
	}
	if r := checkC04(raw); r.Status == iso.OK {
		return "lint.ignore-comment-on-include-dropped"
	}
	return ""
}
