// Package gen holds the harness-owned VCL grammar model: a small AST, its
// canonical dump (same format as package canon produces from falco's ast), a
// token emitter with comment slots, and rapid generators (DESIGN.md §2.1).
package gen

import (
	"fmt"
	"math"
	"strconv"
	"strings"
)

// SlotKind classifies the gap before a token.
type SlotKind int

const (
	SNone    SlotKind = iota // whitespace only; comments here are not documented anywhere
	SExpr                    // inside an expression / argument list (C09 quantifier; not in docs/parser.md)
	SInfix                   // inline <comment> placeholder of docs/parser.md
	SBetween                 // between statements/declarations: trailing of previous or leading of next
	SEnd                     // before the closing brace of a block (block "infix" comment)
	SFinal                   // after the last token of the file (same-line trailing only)
)

// Tok is one token of the rendered program together with the slot before it.
type Tok struct {
	Text  string
	Slot  SlotKind
	Ctx   string // label of the slot, e.g. "set:after-keyword"
	Tight bool   // whitespace before this token may be empty (if no comment is placed)
	Glue  bool   // nothing at all may be placed before this token
	Line  int    // filled by the renderer: 1-based line of the token start
	Col   int
	Stmt  int // statement id the token belongs to (0 = none)
}

// Emitter collects tokens.
type Emitter struct {
	Toks    []Tok
	curStmt int
	nextID  int
}

func (e *Emitter) t(text string, slot SlotKind, ctx string) *Tok {
	e.Toks = append(e.Toks, Tok{Text: text, Slot: slot, Ctx: ctx, Stmt: e.curStmt})
	return &e.Toks[len(e.Toks)-1]
}

func (e *Emitter) tight(text string, slot SlotKind, ctx string) {
	e.t(text, slot, ctx).Tight = true
}

func (e *Emitter) glue(text string) {
	e.t(text, SNone, "glue").Glue = true
}

// Node is a model node.
type Node interface {
	Canon(b *strings.Builder, m Mode)
}

// Mode selects which presentational facts take part in the canonical dump.
type Mode struct {
	Explicit bool // compare InfixExpression.Explicit
}

// ---------------------------------------------------------------------------
// Expressions

type Expr interface {
	Node
	emit(e *Emitter, first SlotKind, ctx string)
	prec() int
}

const (
	pLowest = iota + 1
	pOr
	pAnd
	pRegex
	pEquals
	pLessGreater
	pConcat
	pPrefix
	pPostfix
	pCall
	pPrimary
)

// The precedence table of the Fastly operator documentation (independent of
// falco's parser table).
var OpPrec = map[string]int{
	"||": pOr, "&&": pAnd, "~": pRegex, "!~": pRegex, "==": pEquals, "!=": pEquals,
	"<": pLessGreater, ">": pLessGreater, "<=": pLessGreater, ">=": pLessGreater, "+": pConcat,
}

type Ident struct{ Name string }

func (x *Ident) prec() int { return pPrimary }
func (x *Ident) Canon(b *strings.Builder, m Mode) {
	fmt.Fprintf(b, "(id %s)", x.Name)
}
func (x *Ident) emit(e *Emitter, s SlotKind, ctx string) { e.t(x.Name, s, ctx) }

type Str struct {
	Value    string // intended decoded value
	Spelling string // complete source text including quotes/braces
	Long     bool
}

func (x *Str) prec() int { return pPrimary }
func (x *Str) Canon(b *strings.Builder, m Mode) {
	fmt.Fprintf(b, "(str %s)", strconv.Quote(x.Value))
}
func (x *Str) emit(e *Emitter, s SlotKind, ctx string) { e.t(x.Spelling, s, ctx) }

type Int struct {
	Value int64
	Lit   string
}

func (x *Int) prec() int                                   { return pPrimary }
func (x *Int) Canon(b *strings.Builder, m Mode)            { fmt.Fprintf(b, "(int %d)", x.Value) }
func (x *Int) emit(e *Emitter, s SlotKind, ctx string)     { e.t(x.Lit, s, ctx) }

type Float struct {
	Value float64
	Lit   string
}

func (x *Float) prec() int { return pPrimary }
func (x *Float) Canon(b *strings.Builder, m Mode) {
	fmt.Fprintf(b, "(float %016x)", math.Float64bits(x.Value))
}
func (x *Float) emit(e *Emitter, s SlotKind, ctx string) { e.t(x.Lit, s, ctx) }

type RTime struct{ Lit string }

func (x *RTime) prec() int                               { return pPrimary }
func (x *RTime) Canon(b *strings.Builder, m Mode)        { fmt.Fprintf(b, "(rtime %s)", x.Lit) }
func (x *RTime) emit(e *Emitter, s SlotKind, ctx string) { e.t(x.Lit, s, ctx) }

type Bool struct{ Value bool }

func (x *Bool) prec() int                               { return pPrimary }
func (x *Bool) Canon(b *strings.Builder, m Mode)        { fmt.Fprintf(b, "(bool %t)", x.Value) }
func (x *Bool) emit(e *Emitter, s SlotKind, ctx string) { e.t(strconv.FormatBool(x.Value), s, ctx) }

type Prefix struct {
	Op    string
	Right Expr
}

func (x *Prefix) prec() int { return pPrefix }
func (x *Prefix) Canon(b *strings.Builder, m Mode) {
	fmt.Fprintf(b, "(pre %s ", x.Op)
	x.Right.Canon(b, m)
	b.WriteString(")")
}
func (x *Prefix) emit(e *Emitter, s SlotKind, ctx string) {
	e.t(x.Op, s, ctx)
	mark := len(e.Toks)
	x.Right.emit(e, SExpr, "prefix:operand")
	e.Toks[mark].Tight = true
}

type Infix struct {
	Op       string
	Left     Expr
	Right    Expr
	Explicit bool // for "+": written with '+' (true) or by juxtaposition (false)
}

func (x *Infix) prec() int { return OpPrec[x.Op] }
func (x *Infix) Canon(b *strings.Builder, m Mode) {
	op := x.Op
	if m.Explicit && x.Op == "+" {
		if x.Explicit {
			op = "+e"
		} else {
			op = "+j"
		}
	}
	fmt.Fprintf(b, "(in %s ", op)
	x.Left.Canon(b, m)
	b.WriteString(" ")
	x.Right.Canon(b, m)
	b.WriteString(")")
}
func (x *Infix) emit(e *Emitter, s SlotKind, ctx string) {
	x.Left.emit(e, s, ctx)
	if x.Op == "+" && !x.Explicit {
		x.Right.emit(e, SExpr, "juxta:right")
		return
	}
	e.t(x.Op, SExpr, "infix:before-op")
	x.Right.emit(e, SExpr, "infix:after-op")
}

type Group struct{ Inner Expr }

func (x *Group) prec() int { return pPrimary }
func (x *Group) Canon(b *strings.Builder, m Mode) {
	b.WriteString("(grp ")
	x.Inner.Canon(b, m)
	b.WriteString(")")
}
func (x *Group) emit(e *Emitter, s SlotKind, ctx string) {
	e.t("(", s, ctx)
	mark := len(e.Toks)
	x.Inner.emit(e, SExpr, "group:open")
	e.Toks[mark].Tight = true
	e.tight(")", SExpr, "group:close")
}

type IfExpr struct{ Cond, Then, Else Expr }

func (x *IfExpr) prec() int { return pPrimary }
func (x *IfExpr) Canon(b *strings.Builder, m Mode) {
	b.WriteString("(ife ")
	x.Cond.Canon(b, m)
	b.WriteString(" ")
	x.Then.Canon(b, m)
	b.WriteString(" ")
	x.Else.Canon(b, m)
	b.WriteString(")")
}
func (x *IfExpr) emit(e *Emitter, s SlotKind, ctx string) {
	e.t("if", s, ctx)
	e.tight("(", SExpr, "ifexpr:paren")
	mark := len(e.Toks)
	x.Cond.emit(e, SExpr, "ifexpr:cond")
	e.Toks[mark].Tight = true
	e.tight(",", SExpr, "ifexpr:comma")
	x.Then.emit(e, SExpr, "ifexpr:then")
	e.tight(",", SExpr, "ifexpr:comma")
	x.Else.emit(e, SExpr, "ifexpr:else")
	e.tight(")", SExpr, "ifexpr:close")
}

type Call struct {
	Name string
	Args []Expr
}

func (x *Call) prec() int { return pPrimary }
func (x *Call) Canon(b *strings.Builder, m Mode) {
	fmt.Fprintf(b, "(fn %s", x.Name)
	for _, a := range x.Args {
		b.WriteString(" ")
		a.Canon(b, m)
	}
	b.WriteString(")")
}
func (x *Call) emit(e *Emitter, s SlotKind, ctx string) {
	e.t(x.Name, s, ctx)
	emitArgs(e, x.Args, SExpr, "call")
}

func emitArgs(e *Emitter, args []Expr, slot SlotKind, ctx string) {
	e.tight("(", SNone, ctx+":paren")
	for i, a := range args {
		mark := len(e.Toks)
		if i == 0 {
			a.emit(e, slot, ctx+":first-arg")
			e.Toks[mark].Tight = true
		} else {
			a.emit(e, slot, ctx+":next-arg")
		}
		if i < len(args)-1 {
			e.tight(",", slot, ctx+":before-comma")
		}
	}
	if len(args) == 0 {
		e.tight(")", SNone, ctx+":empty-close")
	} else {
		e.tight(")", slot, ctx+":before-close")
	}
}

type Postfix struct {
	Left Expr
	Op   string
}

func (x *Postfix) prec() int { return pPostfix }
func (x *Postfix) Canon(b *strings.Builder, m Mode) {
	fmt.Fprintf(b, "(post %s ", x.Op)
	x.Left.Canon(b, m)
	b.WriteString(")")
}
func (x *Postfix) emit(e *Emitter, s SlotKind, ctx string) {
	x.Left.emit(e, s, ctx)
	e.tight(x.Op, SNone, "postfix")
}

// ---------------------------------------------------------------------------
// Statements

type Stmt interface {
	Node
	emitStmt(e *Emitter)
	Kind() string
}

type Block struct{ Stmts []Stmt }

func (x *Block) Canon(b *strings.Builder, m Mode) {
	b.WriteString("(block")
	for _, s := range x.Stmts {
		b.WriteString(" ")
		s.Canon(b, m)
	}
	b.WriteString(")")
}

// emitBlock emits `{ stmts }`; slot/ctx describe the gap before the `{`.
func (x *Block) emitBlock(e *Emitter, slot SlotKind, ctx string) {
	e.t("{", slot, ctx)
	for _, s := range x.Stmts {
		emitStatement(e, s)
	}
	e.t("}", SEnd, "block:end")
}

func emitStatement(e *Emitter, s Stmt) {
	e.nextID++
	saved := e.curStmt
	e.curStmt = e.nextID
	if st, ok := s.(interface{ setID(int) }); ok {
		st.setID(e.curStmt)
	}
	s.emitStmt(e)
	e.curStmt = saved
}

type BlockStmt struct{ Block *Block }

func (x *BlockStmt) Kind() string                       { return "block" }
func (x *BlockStmt) Canon(b *strings.Builder, m Mode)   { x.Block.Canon(b, m) }
func (x *BlockStmt) emitStmt(e *Emitter)                { x.Block.emitBlock(e, SBetween, "block:lead") }

type SetStmt struct {
	Keyword string // "set" or "add"
	Target  string
	Op      string
	Value   Expr
}

func (x *SetStmt) Kind() string { return x.Keyword }
func (x *SetStmt) Canon(b *strings.Builder, m Mode) {
	fmt.Fprintf(b, "(%s (id %s) %s ", x.Keyword, x.Target, x.Op)
	x.Value.Canon(b, m)
	b.WriteString(")")
}
func (x *SetStmt) emitStmt(e *Emitter) {
	k := x.Keyword
	e.t(k, SBetween, k+":lead")
	e.t(x.Target, SInfix, k+":after-keyword")
	e.t(x.Op, SInfix, k+":before-op")
	x.Value.emit(e, SInfix, k+":after-op")
	e.tight(";", SInfix, k+":before-semi")
}

type UnsetStmt struct {
	Keyword string // "unset" or "remove"
	Target  string
}

func (x *UnsetStmt) Kind() string { return x.Keyword }
func (x *UnsetStmt) Canon(b *strings.Builder, m Mode) {
	fmt.Fprintf(b, "(%s (id %s))", x.Keyword, x.Target)
}
func (x *UnsetStmt) emitStmt(e *Emitter) {
	k := x.Keyword
	e.t(k, SBetween, k+":lead")
	e.t(x.Target, SInfix, k+":after-keyword")
	e.tight(";", SInfix, k+":before-semi")
}

type DeclareStmt struct {
	Name  string
	Type  string
	Value Expr // may be nil
}

func (x *DeclareStmt) Kind() string { return "declare" }
func (x *DeclareStmt) Canon(b *strings.Builder, m Mode) {
	fmt.Fprintf(b, "(declare (id %s) (id %s) ", x.Name, x.Type)
	canonOpt(b, m, x.Value)
	b.WriteString(")")
}
func (x *DeclareStmt) emitStmt(e *Emitter) {
	e.t("declare", SBetween, "declare:lead")
	e.t("local", SInfix, "declare:after-keyword")
	e.t(x.Name, SInfix, "declare:after-local")
	e.t(x.Type, SInfix, "declare:after-name")
	if x.Value != nil {
		e.t("=", SExpr, "declare:before-assign")
		x.Value.emit(e, SExpr, "declare:after-assign")
		e.tight(";", SExpr, "declare:init-before-semi")
	} else {
		e.tight(";", SInfix, "declare:before-semi")
	}
}

func canonOpt(b *strings.Builder, m Mode, x Expr) {
	if x == nil {
		b.WriteString("-")
		return
	}
	x.Canon(b, m)
}

type CallStmt struct {
	Name    string
	HasArgs bool // parenthesised argument list present
	Args    []Expr
}

func (x *CallStmt) Kind() string { return "call" }
func (x *CallStmt) Canon(b *strings.Builder, m Mode) {
	fmt.Fprintf(b, "(call (id %s)", x.Name)
	for _, a := range x.Args {
		b.WriteString(" ")
		a.Canon(b, m)
	}
	b.WriteString(")")
}
func (x *CallStmt) emitStmt(e *Emitter) {
	e.t("call", SBetween, "call:lead")
	e.t(x.Name, SInfix, "call:after-keyword")
	if x.HasArgs {
		emitArgs(e, x.Args, SExpr, "callstmt")
		e.tight(";", SNone, "call:args-before-semi")
	} else {
		e.tight(";", SInfix, "call:before-semi")
	}
}

type FuncCallStmt struct {
	Name string
	Args []Expr
}

func (x *FuncCallStmt) Kind() string { return "fcall" }
func (x *FuncCallStmt) Canon(b *strings.Builder, m Mode) {
	fmt.Fprintf(b, "(fcallstmt (id %s)", x.Name)
	for _, a := range x.Args {
		b.WriteString(" ")
		a.Canon(b, m)
	}
	b.WriteString(")")
}
func (x *FuncCallStmt) emitStmt(e *Emitter) {
	e.t(x.Name, SBetween, "fcall:lead")
	emitArgs(e, x.Args, SInfix, "fcall")
	e.tight(";", SInfix, "fcall:before-semi")
}

type ErrorStmt struct {
	Code Expr // Int, Ident or Call; may be nil
	Arg  Expr // may be nil (requires Code)
}

func (x *ErrorStmt) Kind() string { return "error" }
func (x *ErrorStmt) Canon(b *strings.Builder, m Mode) {
	b.WriteString("(error ")
	canonOpt(b, m, x.Code)
	b.WriteString(" ")
	canonOpt(b, m, x.Arg)
	b.WriteString(")")
}
func (x *ErrorStmt) emitStmt(e *Emitter) {
	e.t("error", SBetween, "error:lead")
	if x.Code != nil {
		x.Code.emit(e, SInfix, "error:after-keyword")
	}
	if x.Arg != nil {
		x.Arg.emit(e, SInfix, "error:after-code")
	}
	e.tight(";", SInfix, "error:before-semi")
}

type SimpleStmt struct{ Keyword string } // esi, restart, break, fallthrough

func (x *SimpleStmt) Kind() string                     { return x.Keyword }
func (x *SimpleStmt) Canon(b *strings.Builder, m Mode) { fmt.Fprintf(b, "(%s)", x.Keyword) }
func (x *SimpleStmt) emitStmt(e *Emitter) {
	e.t(x.Keyword, SBetween, x.Keyword+":lead")
	e.tight(";", SInfix, x.Keyword+":before-semi")
}

type ValueStmt struct { // log, synthetic, synthetic.base64
	Keyword string
	Value   Expr
}

func (x *ValueStmt) Kind() string { return x.Keyword }
func (x *ValueStmt) Canon(b *strings.Builder, m Mode) {
	fmt.Fprintf(b, "(%s ", x.Keyword)
	x.Value.Canon(b, m)
	b.WriteString(")")
}
func (x *ValueStmt) emitStmt(e *Emitter) {
	e.t(x.Keyword, SBetween, x.Keyword+":lead")
	x.Value.emit(e, SInfix, x.Keyword+":after-keyword")
	e.tight(";", SInfix, x.Keyword+":before-semi")
}

type ReturnStmt struct {
	Value Expr // may be nil
	Paren bool
}

func (x *ReturnStmt) Kind() string { return "return" }
func (x *ReturnStmt) Canon(b *strings.Builder, m Mode) {
	b.WriteString("(return ")
	canonOpt(b, m, x.Value)
	b.WriteString(")")
}
func (x *ReturnStmt) emitStmt(e *Emitter) {
	e.t("return", SBetween, "return:lead")
	switch {
	case x.Value == nil:
		e.tight(";", SInfix, "return:bare-before-semi")
	case x.Paren:
		e.tight("(", SInfix, "return:before-paren")
		mark := len(e.Toks)
		x.Value.emit(e, SInfix, "return:after-paren")
		e.Toks[mark].Tight = true
		e.tight(")", SInfix, "return:before-close")
		e.tight(";", SInfix, "return:after-close")
	default:
		x.Value.emit(e, SInfix, "return:noparen-after-keyword")
		e.tight(";", SInfix, "return:noparen-before-semi")
	}
}

type GotoStmt struct{ Dest string }

func (x *GotoStmt) Kind() string                     { return "goto" }
func (x *GotoStmt) Canon(b *strings.Builder, m Mode) { fmt.Fprintf(b, "(goto (id %s))", x.Dest) }
func (x *GotoStmt) emitStmt(e *Emitter) {
	e.t("goto", SBetween, "goto:lead")
	e.t(x.Dest, SInfix, "goto:after-keyword")
	e.tight(";", SInfix, "goto:before-semi")
}

type LabelStmt struct{ Name string } // Name includes the trailing colon

func (x *LabelStmt) Kind() string                     { return "label" }
func (x *LabelStmt) Canon(b *strings.Builder, m Mode) { fmt.Fprintf(b, "(label (id %s))", x.Name) }
func (x *LabelStmt) emitStmt(e *Emitter)              { e.t(x.Name, SBetween, "label:lead") }

type IncludeStmt struct {
	Module *Str
	Semi   bool
}

func (x *IncludeStmt) Kind() string { return "include" }
func (x *IncludeStmt) Canon(b *strings.Builder, m Mode) {
	b.WriteString("(include ")
	x.Module.Canon(b, m)
	b.WriteString(")")
}
func (x *IncludeStmt) emitStmt(e *Emitter) {
	e.t("include", SBetween, "include:lead")
	x.Module.emit(e, SInfix, "include:after-keyword")
	if x.Semi {
		e.tight(";", SInfix, "include:before-semi")
	}
}

type ImportStmt struct{ Name string }

func (x *ImportStmt) Kind() string                     { return "import" }
func (x *ImportStmt) Canon(b *strings.Builder, m Mode) { fmt.Fprintf(b, "(import (id %s))", x.Name) }
func (x *ImportStmt) emitStmt(e *Emitter) {
	e.t("import", SBetween, "import:lead")
	e.t(x.Name, SInfix, "import:after-keyword")
	e.tight(";", SInfix, "import:before-semi")
}

type IfArm struct {
	Keyword string // "if", "else if", "elseif", "elsif"
	Cond    Expr
	Body    *Block
}

type IfStmt struct {
	Arms []IfArm // first arm has Keyword "if"
	Else *Block  // may be nil
}

func (x *IfStmt) Kind() string { return "if" }
func (x *IfStmt) Canon(b *strings.Builder, m Mode) {
	b.WriteString("(if ")
	x.Arms[0].Cond.Canon(b, m)
	b.WriteString(" ")
	x.Arms[0].Body.Canon(b, m)
	for _, a := range x.Arms[1:] {
		b.WriteString(" (elif ")
		a.Cond.Canon(b, m)
		b.WriteString(" ")
		a.Body.Canon(b, m)
		b.WriteString(")")
	}
	if x.Else != nil {
		b.WriteString(" (else ")
		x.Else.Canon(b, m)
		b.WriteString(")")
	} else {
		b.WriteString(" -")
	}
	b.WriteString(")")
}
func (x *IfStmt) emitStmt(e *Emitter) {
	for i, a := range x.Arms {
		switch {
		case i == 0:
			e.t("if", SBetween, "if:lead")
		case a.Keyword == "else if":
			e.t("else", SInfix, "if:before-else-if")
			e.t("if", SNone, "if:between-else-and-if")
		default:
			e.t(a.Keyword, SInfix, "if:before-"+a.Keyword)
		}
		e.tight("(", SInfix, "if:before-paren")
		mark := len(e.Toks)
		a.Cond.emit(e, SInfix, "if:after-paren")
		e.Toks[mark].Tight = true
		e.tight(")", SInfix, "if:before-close")
		a.Body.emitBlock(e, SInfix, "if:before-brace")
	}
	if x.Else != nil {
		e.t("else", SInfix, "if:before-else")
		x.Else.emitBlock(e, SInfix, "if:else-before-brace")
	}
}

type Case struct {
	Default     bool
	Regex       bool
	Test        *Str
	Body        []Stmt // without the final break/fallthrough
	Fallthrough bool
}

type SwitchStmt struct {
	Control Expr
	Cases   []Case
}

func (x *SwitchStmt) Kind() string { return "switch" }
func (x *SwitchStmt) Canon(b *strings.Builder, m Mode) {
	b.WriteString("(switch ")
	x.Control.Canon(b, m)
	def := -1
	for i, c := range x.Cases {
		if c.Default {
			def = i
		}
	}
	fmt.Fprintf(b, " %d", def)
	for _, c := range x.Cases {
		b.WriteString(" (case ")
		switch {
		case c.Default:
			b.WriteString("default")
		case c.Regex:
			b.WriteString("(~ ")
			c.Test.Canon(b, m)
			b.WriteString(")")
		default:
			b.WriteString("(== ")
			c.Test.Canon(b, m)
			b.WriteString(")")
		}
		fmt.Fprintf(b, " %t", c.Fallthrough)
		for _, s := range c.Body {
			b.WriteString(" ")
			s.Canon(b, m)
		}
		if c.Fallthrough {
			b.WriteString(" (fallthrough)")
		} else {
			b.WriteString(" (break)")
		}
		b.WriteString(")")
	}
	b.WriteString(")")
}
func (x *SwitchStmt) emitStmt(e *Emitter) {
	e.t("switch", SBetween, "switch:lead")
	e.tight("(", SInfix, "switch:before-paren")
	mark := len(e.Toks)
	x.Control.emit(e, SInfix, "switch:after-paren")
	e.Toks[mark].Tight = true
	e.tight(")", SInfix, "switch:before-close")
	e.t("{", SInfix, "switch:before-brace")
	for _, c := range x.Cases {
		if c.Default {
			e.t("default", SBetween, "case:default-lead")
			e.tight(":", SInfix, "case:default-before-colon")
		} else {
			e.t("case", SBetween, "case:lead")
			if c.Regex {
				e.t("~", SInfix, "case:after-keyword")
				c.Test.emit(e, SNone, "case:after-tilde")
			} else {
				c.Test.emit(e, SInfix, "case:after-keyword")
			}
			e.tight(":", SInfix, "case:before-colon")
		}
		for _, s := range c.Body {
			emitStatement(e, s)
		}
		if c.Fallthrough {
			emitStatement(e, &SimpleStmt{Keyword: "fallthrough"})
		} else {
			emitStatement(e, &SimpleStmt{Keyword: "break"})
		}
	}
	e.t("}", SEnd, "switch:end")
}

// ---------------------------------------------------------------------------
// Declarations

type AclEntry struct {
	Negated bool
	IP      *Str
	Mask    *Int // may be nil
}

type AclDecl struct {
	Name    string
	Entries []AclEntry
}

func (x *AclDecl) Kind() string { return "acl" }
func (x *AclDecl) Canon(b *strings.Builder, m Mode) {
	fmt.Fprintf(b, "(acl (id %s)", x.Name)
	for _, en := range x.Entries {
		inv := "-"
		if en.Negated {
			inv = "!"
		}
		fmt.Fprintf(b, " (cidr %s (ip %s) ", inv, strconv.Quote(en.IP.Value))
		if en.Mask != nil {
			en.Mask.Canon(b, m)
		} else {
			b.WriteString("-")
		}
		b.WriteString(")")
	}
	b.WriteString(")")
}
func (x *AclDecl) emitStmt(e *Emitter) {
	e.t("acl", SBetween, "acl:lead")
	e.t(x.Name, SInfix, "acl:after-keyword")
	e.t("{", SInfix, "acl:before-brace")
	for _, en := range x.Entries {
		if en.Negated {
			e.t("!", SBetween, "acl:entry-lead")
			en.IP.emit(e, SInfix, "acl:after-not")
			e.Toks[len(e.Toks)-1].Tight = true
		} else {
			en.IP.emit(e, SBetween, "acl:entry-lead")
		}
		if en.Mask != nil {
			e.tight("/", SNone, "acl:slash")
			en.Mask.emit(e, SNone, "acl:mask")
			e.Toks[len(e.Toks)-1].Tight = true
		}
		e.tight(";", SInfix, "acl:before-semi")
	}
	e.t("}", SEnd, "acl:end")
}

type Prop struct {
	Key   string
	Value Expr   // nil if Probe != nil
	Probe []Prop // nested object (backend .probe)
	IsObj bool
}

type BackendDecl struct {
	Name  string
	Props []Prop
}

func canonProps(b *strings.Builder, m Mode, props []Prop) {
	for _, p := range props {
		fmt.Fprintf(b, " (prop (id %s) ", p.Key)
		if p.IsObj {
			b.WriteString("(probe")
			canonProps(b, m, p.Probe)
			b.WriteString(")")
		} else {
			p.Value.Canon(b, m)
		}
		b.WriteString(")")
	}
}

func emitProps(e *Emitter, props []Prop, ctx string) {
	for _, p := range props {
		e.t(".", SBetween, ctx+":prop-lead")
		e.glue(p.Key)
		e.t("=", SInfix, ctx+":before-assign")
		if p.IsObj {
			e.t("{", SInfix, ctx+":probe-before-brace")
			emitProps(e, p.Probe, ctx+"-probe")
			e.t("}", SEnd, ctx+":probe-end")
		} else {
			p.Value.emit(e, SInfix, ctx+":after-assign")
			e.tight(";", SInfix, ctx+":before-semi")
		}
	}
}

func (x *BackendDecl) Kind() string { return "backend" }
func (x *BackendDecl) Canon(b *strings.Builder, m Mode) {
	fmt.Fprintf(b, "(backend (id %s)", x.Name)
	canonProps(b, m, x.Props)
	b.WriteString(")")
}
func (x *BackendDecl) emitStmt(e *Emitter) {
	e.t("backend", SBetween, "backend:lead")
	e.t(x.Name, SInfix, "backend:after-keyword")
	e.t("{", SInfix, "backend:before-brace")
	emitProps(e, x.Props, "backend")
	e.t("}", SEnd, "backend:end")
}

type DirectorItem struct {
	Prop    *Prop  // single property, or
	Backend []Prop // backend object
}

type DirectorDecl struct {
	Name  string
	Type  string
	Items []DirectorItem
}

func (x *DirectorDecl) Kind() string { return "director" }
func (x *DirectorDecl) Canon(b *strings.Builder, m Mode) {
	fmt.Fprintf(b, "(director (id %s) (id %s)", x.Name, x.Type)
	for _, it := range x.Items {
		if it.Prop != nil {
			canonProps(b, m, []Prop{*it.Prop})
		} else {
			b.WriteString(" (dbackend")
			canonProps(b, m, it.Backend)
			b.WriteString(")")
		}
	}
	b.WriteString(")")
}
func (x *DirectorDecl) emitStmt(e *Emitter) {
	e.t("director", SBetween, "director:lead")
	e.t(x.Name, SInfix, "director:after-keyword")
	e.t(x.Type, SInfix, "director:after-name")
	e.t("{", SInfix, "director:before-brace")
	for _, it := range x.Items {
		if it.Prop != nil {
			emitProps(e, []Prop{*it.Prop}, "director")
		} else {
			e.t("{", SBetween, "director:backend-lead")
			for i, p := range it.Backend {
				if i == 0 {
					e.t(".", SInfix, "director:backend-first-prop")
				} else {
					e.t(".", SInfix, "director:backend-next-prop")
				}
				e.glue(p.Key)
				e.t("=", SInfix, "director:backend-before-assign")
				p.Value.emit(e, SInfix, "director:backend-after-assign")
				e.tight(";", SInfix, "director:backend-before-semi")
			}
			e.t("}", SInfix, "director:backend-end")
		}
	}
	e.t("}", SEnd, "director:end")
}

type TableItem struct {
	Key   *Str
	Value Expr
}

type TableDecl struct {
	Name          string
	Type          string // "" = none
	Items         []TableItem
	TrailingComma bool
}

func (x *TableDecl) Kind() string { return "table" }
func (x *TableDecl) Canon(b *strings.Builder, m Mode) {
	ty := "-"
	if x.Type != "" {
		ty = "(id " + x.Type + ")"
	}
	fmt.Fprintf(b, "(table (id %s) %s", x.Name, ty)
	for _, it := range x.Items {
		b.WriteString(" (tprop ")
		it.Key.Canon(b, m)
		b.WriteString(" ")
		it.Value.Canon(b, m)
		b.WriteString(")")
	}
	b.WriteString(")")
}
func (x *TableDecl) emitStmt(e *Emitter) {
	e.t("table", SBetween, "table:lead")
	e.t(x.Name, SInfix, "table:after-keyword")
	if x.Type != "" {
		e.t(x.Type, SInfix, "table:after-name")
	}
	e.t("{", SInfix, "table:before-brace")
	for i, it := range x.Items {
		it.Key.emit(e, SBetween, "table:item-lead")
		e.tight(":", SInfix, "table:before-colon")
		it.Value.emit(e, SInfix, "table:after-colon")
		if i < len(x.Items)-1 || x.TrailingComma {
			e.tight(",", SInfix, "table:before-comma")
		}
	}
	e.t("}", SEnd, "table:end")
}

type Param struct{ Type, Name string }

type SubDecl struct {
	Name      string
	HasParams bool
	Params    []Param
	Return    string // "" = none
	Body      *Block
}

func (x *SubDecl) Kind() string { return "sub" }
func (x *SubDecl) Canon(b *strings.Builder, m Mode) {
	fmt.Fprintf(b, "(sub (id %s) (params", x.Name)
	for _, p := range x.Params {
		fmt.Fprintf(b, " (param (id %s) (id %s))", p.Type, p.Name)
	}
	b.WriteString(") ")
	if x.Return != "" {
		fmt.Fprintf(b, "(id %s) ", x.Return)
	} else {
		b.WriteString("- ")
	}
	x.Body.Canon(b, m)
	b.WriteString(")")
}
func (x *SubDecl) emitStmt(e *Emitter) {
	e.t("sub", SBetween, "sub:lead")
	e.t(x.Name, SInfix, "sub:after-keyword")
	plain := !x.HasParams && x.Return == ""
	if x.HasParams {
		e.tight("(", SNone, "sub:params-paren")
		for i, p := range x.Params {
			e.t(p.Type, SNone, "sub:param-type").Tight = i == 0
			e.t(p.Name, SNone, "sub:param-name")
			if i < len(x.Params)-1 {
				e.tight(",", SNone, "sub:param-comma")
			}
		}
		e.tight(")", SNone, "sub:params-close")
	}
	if x.Return != "" {
		e.t(x.Return, SNone, "sub:return-type")
	}
	if plain {
		x.Body.emitBlock(e, SInfix, "sub:before-brace")
	} else {
		x.Body.emitBlock(e, SNone, "sub:typed-before-brace")
	}
}

type BoxDecl struct {
	Keyword string // penaltybox, ratecounter
	Name    string
}

func (x *BoxDecl) Kind() string { return x.Keyword }
func (x *BoxDecl) Canon(b *strings.Builder, m Mode) {
	fmt.Fprintf(b, "(%s (id %s) (block))", x.Keyword, x.Name)
}
func (x *BoxDecl) emitStmt(e *Emitter) {
	e.t(x.Keyword, SBetween, x.Keyword+":lead")
	e.t(x.Name, SInfix, x.Keyword+":after-keyword")
	e.t("{", SInfix, x.Keyword+":before-brace")
	e.t("}", SEnd, x.Keyword+":end")
}

// Program is a full VCL file.
type Program struct{ Decls []Stmt }

func (p *Program) Canon(b *strings.Builder, m Mode) { CanonList(b, m, p.Decls) }

// CanonList writes the canonical form of a statement list.
func CanonList(b *strings.Builder, m Mode, ss []Stmt) {
	b.WriteString("(vcl")
	for _, s := range ss {
		b.WriteString(" ")
		s.Canon(b, m)
	}
	b.WriteString(")")
}

// CanonString is a convenience wrapper.
func CanonString(n Node, m Mode) string {
	var b strings.Builder
	n.Canon(&b, m)
	return b.String()
}

// Tokens flattens a statement list.
func Tokens(ss []Stmt) []Tok {
	e := &Emitter{}
	for _, s := range ss {
		emitStatement(e, s)
	}
	return e.Toks
}
