package gen

import (
	"fmt"
	"strings"
)

// PlacedComment records one comment the renderer wrote.
type PlacedComment struct {
	Text string // full comment text as it appears (with markers)
	Slot SlotKind
	Ctx  string
	Line int
	// SameLine is true when the comment shares the line with the preceding token.
	SameLine bool
	// Alone is true when it is the only comment at its placeholder.
	Alone bool
}

// LineCommentSafeCtx: inline placeholders at which a `#`/`//` comment is handled correctly by the formatter
// (the `else` keyword is printed on a new line); line comments are drawn there even when they are avoided
// at the other inline placeholders.
var LineCommentSafeCtx = map[string]bool{"if:before-else": true, "if:before-else-if": true, "if:before-elseif": true, "if:before-elsif": true}

// LineCommentSafeAloneCtx: placeholders in front of an expression the formatter prints through its chunk
// buffer, which breaks the line after a `#`/`//` comment — correct as long as that comment is the only
// comment at its placeholder (a second comment is joined to it on the same line: the known finding).
// Measured with TestFmtSurvey (VERIF_SURVEY=1): no failure of C03/C14/C15 in > 4000 single-comment cases.
var LineCommentSafeAloneCtx = map[string]bool{"set:after-op": true, "add:after-op": true, "log:after-keyword": true,
	"backend:after-assign": true, "director:backend-after-assign": true,
	"group:open": true, "table:after-colon": true, "table:before-colon": true, "table:before-comma": true}

// LineCommentSafe: a `#`/`//` comment at this placeholder is handled correctly by the formatter.
func LineCommentSafe(ctx string, alone bool) bool {
	return LineCommentSafeCtx[ctx] || alone && LineCommentSafeAloneCtx[ctx]
}

// Rendered is the result of laying out a token stream.
type Rendered struct {
	Src      string
	Toks     []Tok // with Line/Col filled in
	Comments []PlacedComment
}

var inlineWS = []string{" ", " ", "  ", "\n", "\t", "\n    ", " \n", "\r\n"}
var betweenWS = []string{" ", "\n", "\n", "\n\n", "\n  ", "\t", "\n\n\n", "\r\n"}

var commentWords = []string{"note", "todo: x", "keep", "a=b", "v1.2", "héllo", "...", "sub vcl_recv {", "set req.http.A = \"b\";", "\"q\"", "{", "}", "if (x)", "100%", "x y  z", "日本", "return(pass)", "; ;", "'", ""}

type writer struct {
	b    strings.Builder
	line int
	col  int
}

func (w *writer) write(s string) {
	w.b.WriteString(s)
	for _, r := range s {
		if r == '\n' {
			w.line++
			w.col = 1
		} else {
			w.col++
		}
	}
}

// commentText draws an ordinary comment (never an annotation/macro).
var specialComments = []string{"#FASTLY recv", "#FASTLY deliver", "#FASTLY fetch", "# falco-ignore-next-line", "// falco-ignore", "# falco-ignore-start", "# falco-ignore-end",
	"// @scope: recv, deliver", "# @suite: checkout", "/* falco-ignore-next-line */"}

func (g *G) commentText(serial int, allowLine bool) string {
	if g.cfg.SpecialComments && allowLine && g.chance(8, "special-comment") {
		return pickOne(g, specialComments, "special")
	}
	body := pickOne(g, commentWords, "cword")
	body = fmt.Sprintf("c%d %s", serial, body)
	form := g.intn(0, 5, "cform")
	if !allowLine && form < 4 {
		form = 4
	}
	switch form {
	case 0, 1:
		return "# " + body
	case 2, 3:
		return "// " + body
	case 4:
		return "/* " + strings.ReplaceAll(body, "*/", "* /") + " */"
	default:
		if g.avoid("multiline-block-comment") {
			return "/* " + body + " */"
		}
		return "/* " + body + "\n   more */"
	}
}

func isLineComment(c string) bool { return strings.HasPrefix(c, "#") || strings.HasPrefix(c, "//") }

// DocumentedSlots selects the placeholders of docs/parser.md.
func DocumentedSlots(t Tok) bool {
	return t.Slot == SInfix || t.Slot == SBetween || t.Slot == SEnd || t.Slot == SFinal
}

// AllSlots selects documented placeholders and expression-internal gaps.
func AllSlots(t Tok) bool { return t.Slot != SNone || true }

// Layout renders tokens with drawn whitespace and comments.
func (g *G) Layout(toks []Tok) *Rendered {
	w := &writer{line: 1, col: 1}
	out := &Rendered{}
	serial := 0
	allowed := g.cfg.CommentSlots
	if allowed == nil {
		allowed = func(t Tok) bool { return true }
	}
	commentPct := 0
	if g.cfg.Comments {
		commentPct = g.intn(0, 40, "comment-density")
	}
	plain := g.chance(25, "plain-layout") // everything single-spaced
	for i := range toks {
		tok := toks[i]
		if !tok.Glue {
			ncom := 0
			if commentPct > 0 && allowed(tok) && g.chance(commentPct, "has-comment") {
				ncom = g.intn(1, 2, "ncomments")
			}
			between := tok.Slot == SBetween || tok.Slot == SEnd
			wsSet := inlineWS
			if between {
				wsSet = betweenWS
			}
			if ncom == 0 {
				ws := " "
				switch {
				case i == 0:
					ws = ""
					if !plain && g.chance(30, "leading-ws") {
						ws = pickOne(g, betweenWS, "ws")
					}
				case plain:
					if tok.Tight {
						ws = ""
					} else if between {
						ws = "\n"
					}
				default:
					if tok.Tight && g.chance(70, "tight") {
						ws = ""
					} else {
						ws = pickOne(g, wsSet, "ws")
					}
				}
				w.write(ws)
			} else {
				for k := 0; k < ncom; k++ {
					serial++
					sameLine := true
					pre := " "
					if i == 0 && k == 0 {
						pre = ""
						sameLine = false
					} else if between {
						pre = pickOne(g, []string{" ", "\n", "\n", "\n\n", "\n  "}, "cpre")
					} else if !plain {
						pre = pickOne(g, []string{" ", " ", "\n", "\n  ", "  "}, "cpre")
					}
					if strings.Contains(pre, "\n") {
						sameLine = false
					}
					w.write(pre)
					allowLine := !(g.cfg.NoInlineLineComments && !between) || LineCommentSafe(tok.Ctx, ncom == 1)
					c := g.commentText(serial, allowLine)
					out.Comments = append(out.Comments, PlacedComment{Text: c, Slot: tok.Slot, Ctx: tok.Ctx, Line: w.line, SameLine: sameLine, Alone: ncom == 1})
					w.write(c)
					if isLineComment(c) {
						w.write("\n")
						if !plain && between && g.chance(15, "blank-after-comment") {
							w.write("\n") // an empty line between a comment and the node it leads
						}
						if !plain && g.chance(50, "indent") {
							w.write("  ")
						}
					} else {
						post := " "
						if !plain {
							post = pickOne(g, []string{" ", "\n", "  "}, "cpost")
							if between && g.chance(10, "blank-after-block-comment") {
								post = "\n\n"
							}
						}
						if k == ncom-1 || post != " " {
							w.write(post)
						} else {
							w.write(" ")
						}
					}
				}
			}
		}
		toks[i].Line, toks[i].Col = w.line, w.col
		w.write(tok.Text)
	}
	// final slot: same-line trailing comment only
	if g.cfg.Comments && commentPct > 0 && len(toks) > 0 && allowed(Tok{Slot: SFinal, Ctx: "file:final"}) && g.chance(commentPct, "final-comment") {
		serial++
		c := g.commentText(serial, true)
		w.write(" ")
		out.Comments = append(out.Comments, PlacedComment{Text: c, Slot: SFinal, Ctx: "file:final", Line: w.line, SameLine: true})
		w.write(c)
	}
	if g.chance(70, "final-newline") {
		w.write("\n")
	}
	out.Src = w.b.String()
	out.Toks = toks
	return out
}

// Render lays out a whole program.
func (g *G) Render(p *Program) string { return g.Layout(Tokens(p.Decls)).Src }

// RenderStatements lays out a statement list (snippet form).
func (g *G) RenderStatements(ss []Stmt) string { return g.Layout(Tokens(ss)).Src }

// RenderPlain prints tokens single-spaced without comments (deterministic).
func RenderPlain(toks []Tok) string {
	var b strings.Builder
	for i, t := range toks {
		if i > 0 && !t.Glue && !t.Tight {
			if t.Slot == SBetween || t.Slot == SEnd {
				b.WriteString("\n")
			} else {
				b.WriteString(" ")
			}
		}
		b.WriteString(t.Text)
	}
	b.WriteString("\n")
	return b.String()
}
