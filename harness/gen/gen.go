package gen

import (
	"fmt"
	"math"
	"math/big"
	"strconv"
	"strings"

	"pgregory.net/rapid"
)

type Profile int

const (
	Syntactic Profile = iota // anything the grammar derives
)

// Config bounds a generator.
type Config struct {
	Profile  Profile
	MaxDecls int
	MaxStmts int // per block
	MaxDepth int // expression depth
	MaxNest  int // statement nesting (default 3)
	Comments bool
	// Avoid lists generator features to keep rare (avoid weights, §1.7) or off.
	Avoid map[string]bool
	// CommentSlots selects where the renderer may put comments.
	CommentSlots func(Tok) bool
	// LineCommentInline allows `# c` / `// c` at inline placeholders.
	NoInlineLineComments bool
	// SpecialComments lets the renderer emit #FASTLY macros and falco annotations as comments.
	SpecialComments bool
	// OnlyDecls restricts top level declaration kinds (nil = all).
	OnlyDecls []string
}

// G is a generator bound to a rapid test.
type G struct {
	t   *rapid.T
	cfg Config
	n   int
}

func New(t *rapid.T, cfg Config) *G {
	if cfg.MaxNest == 0 {
		cfg.MaxNest = 3
	}
	if cfg.MaxDecls == 0 {
		cfg.MaxDecls = 3
	}
	if cfg.MaxStmts == 0 {
		cfg.MaxStmts = 4
	}
	if cfg.MaxDepth == 0 {
		cfg.MaxDepth = 3
	}
	return &G{t: t, cfg: cfg}
}

func (g *G) label(s string) string {
	g.n++
	return s
}

func (g *G) intn(lo, hi int, l string) int { return rapid.IntRange(lo, hi).Draw(g.t, l) }
func (g *G) chance(pct int, l string) bool {
	if pct <= 0 {
		return false
	}
	return rapid.IntRange(0, 99).Draw(g.t, l) >= 100-pct
}
func (g *G) avoid(f string) bool { return g.cfg.Avoid != nil && g.cfg.Avoid[f] }

func pickOne[T any](g *G, xs []T, l string) T {
	return xs[rapid.IntRange(0, len(xs)-1).Draw(g.t, l)]
}

// ---------------------------------------------------------------------------
// Lexical material

var Keywords = map[string]bool{
	"acl": true, "backend": true, "director": true, "table": true, "sub": true, "add": true, "call": true, "declare": true,
	"error": true, "esi": true, "include": true, "import": true, "log": true, "restart": true, "return": true, "set": true,
	"synthetic": true, "unset": true, "if": true, "else": true, "elseif": true, "elsif": true, "true": true, "false": true,
	"remove": true, "synthetic.base64": true, "penaltybox": true, "ratecounter": true, "goto": true, "switch": true,
	"case": true, "default": true, "break": true, "fallthrough": true, "pragma": true,
}

const letters = "abcdefghijklmnopqrstuvwxyzABCDEFGHIJKLMNOPQRSTUVWXYZ_"

func (g *G) letterRun(min, max int) string {
	n := g.intn(min, max, "runlen")
	var b strings.Builder
	for i := 0; i < n; i++ {
		b.WriteByte(letters[g.intn(0, len(letters)-1, "letter")])
	}
	return b.String()
}

var commonIdents = []string{
	"req.http.Foo", "req.http.X-Bar", "req.http.Cookie:sid", "var.x", "var.y", "var.count", "beresp.ttl", "client.ip", "req.url",
	"obj.status", "resp.http.Vary", "bereq.http.Host", "re.group.1", "now", "req.backend", "F_origin_0", "table_a", "acl_local", "x", "C", "W",
	"fastly.error", "req.http.a1b2", "tls.client.cipher", "local", "STRING", "lookup", "pass", "deliver_stale",
}

// IdentName draws an identifier over the lexer's identifier alphabet.
func (g *G) IdentName() string {
	if g.chance(60, "common-ident") {
		return pickOne(g, commonIdents, "ident")
	}
	for {
		first := g.letterRun(1, 6)
		var b strings.Builder
		b.WriteString(first)
		segs := g.intn(0, 3, "segs")
		for i := 0; i < segs; i++ {
			sep := pickOne(g, []string{".", ".", "-", "_", "1", "42", ":"}, "sep")
			if sep == ":" && strings.Contains(b.String(), ":") {
				sep = "."
			}
			b.WriteString(sep)
			b.WriteString(g.letterRun(1, 5))
		}
		s := b.String()
		if Keywords[s] || first == "default" || s == "rol" || s == "ror" || strings.HasPrefix(s, "default") {
			continue
		}
		return s
	}
}

// PlainName draws a declaration-style name (no dots/colons).
func (g *G) PlainName() string {
	for {
		s := g.letterRun(1, 8)
		if g.chance(30, "digit-suffix") {
			s += strconv.Itoa(g.intn(0, 99, "digits"))
		}
		if Keywords[s] || strings.HasPrefix(s, "default") || s == "rol" || s == "ror" {
			continue
		}
		return s
	}
}

var safeChars = []string{"a", "b", "z", "A", "Z", "0", "9", " ", " ", "-", "_", "/", ".", ":", ";", ",", "=", "?", "&", "{", "}", "(", ")", "[", "]", "'", "\\", "\\n", "#", "*", "+", "é", "日", "~", "!", "<", ">", "|", "^", "$", "@"}

// String draws a string literal: intended value and spelling.
func (g *G) String() *Str {
	form := g.intn(0, 9, "strform")
	switch {
	case form <= 5: // double quoted
		return g.quoted()
	case form <= 7: // {"..."}
		v := g.rawContent("\"}")
		return &Str{Value: v, Spelling: "{\"" + v + "\"}", Long: true}
	default:
		d := g.delim()
		v := g.rawContent("\"" + d + "}")
		return &Str{Value: v, Spelling: "{" + d + "\"" + v + "\"" + d + "}", Long: true}
	}
}

func (g *G) delim() string {
	const dc = "ABCXYZabc019_"
	n := g.intn(1, 4, "dlen")
	var b strings.Builder
	for i := 0; i < n; i++ {
		b.WriteByte(dc[g.intn(0, len(dc)-1, "dch")])
	}
	return b.String()
}

// rawContent draws long-string content that does not contain the terminator.
func (g *G) rawContent(term string) string {
	n := g.intn(0, 8, "rawlen")
	var b strings.Builder
	for i := 0; i < n; i++ {
		c := pickOne(g, []string{"a", "B", " ", "\"", "%", "%20", "%u0041", "{", "}", "\n", "é", "x\"y", "\"\"", "#", "//", "/*", ";", "\n\n\n", "\n\n\n\n"}, "rawch")
		b.WriteString(c)
	}
	s := b.String()
	if g.avoid("newline-in-string") {
		s = strings.ReplaceAll(s, "\n", " ")
	}
	for strings.Contains(s+"\"", term) || strings.Contains(s, term) {
		s = strings.ReplaceAll(s, "\"", "'")
	}
	return s
}

func (g *G) quoted() *Str {
	n := g.intn(0, 8, "qlen")
	var val, sp strings.Builder
	sp.WriteByte('"')
	stopped := false
	for i := 0; i < n; i++ {
		k := g.intn(0, 19, "qkind")
		if g.avoid("escapes") && k >= 16 {
			k = 0
		}
		switch {
		case k < 16:
			c := pickOne(g, safeChars, "qch")
			if g.avoid("newline-in-string") && strings.Contains(c, "\n") {
				c = "n"
			}
			sp.WriteString(c)
			if !stopped {
				val.WriteString(c)
			}
		case k == 16: // %XX bytes of a UTF-8 character
			r := pickOne(g, []rune{'A', ' ', '"', '%', '\n', 'é', '日', 0x1F600, 0x7f, 0x80, 0x7ff, 0x800, 0xffff, 0x10000}, "escr")
			for _, by := range []byte(string(r)) {
				if g.chance(50, "hexcase") {
					fmt.Fprintf(&sp, "%%%02X", by)
				} else {
					fmt.Fprintf(&sp, "%%%02x", by)
				}
			}
			if !stopped {
				val.WriteRune(r)
			}
		case k == 17: // %uXXXX
			r := pickOne(g, []rune{'A', '"', 0x00e9, 0x65e5, 0xd7ff, 0xe000, 0xffff, 0x0001}, "escu")
			if g.chance(50, "hexcase") {
				fmt.Fprintf(&sp, "%%u%04X", r)
			} else {
				fmt.Fprintf(&sp, "%%u%04x", r)
			}
			if !stopped {
				val.WriteRune(r)
			}
		case k == 18: // %u{...}
			r := pickOne(g, []rune{'A', 0x41, 0xe9, 0x65e5, 0x1F600, 0x10FFFF, 0x1}, "escb")
			w := pickOne(g, []string{"%x", "%X", "%04x", "%06x"}, "bracew")
			s := fmt.Sprintf(w, r)
			if len(s) > 6 {
				s = fmt.Sprintf("%x", r)
			}
			sp.WriteString("%u{" + s + "}")
			if !stopped {
				val.WriteRune(r)
			}
		default: // NUL escape terminates the value
			if g.avoid("nul-escape") {
				sp.WriteString("x")
				if !stopped {
					val.WriteString("x")
				}
				break
			}
			sp.WriteString(pickOne(g, []string{"%00", "%u0000", "%u{0}"}, "nul"))
			stopped = true
		}
	}
	sp.WriteByte('"')
	return &Str{Value: val.String(), Spelling: sp.String()}
}

// SimpleString draws a quoted string without escapes.
func (g *G) SimpleString() *Str {
	n := g.intn(0, 6, "slen")
	var b strings.Builder
	for i := 0; i < n; i++ {
		b.WriteString(pickOne(g, []string{"a", "b", "c", "X", "1", "-", "/", ".", " "}, "sch"))
	}
	return &Str{Value: b.String(), Spelling: "\"" + b.String() + "\""}
}

// Int draws a non-negative integer literal (INT64 range).
func (g *G) Int() *Int {
	var v int64
	switch g.intn(0, 5, "intclass") {
	case 0:
		v = int64(g.intn(0, 9, "small"))
	case 1:
		v = int64(g.intn(0, 100000, "mid"))
	case 2:
		v = pickOne(g, []int64{math.MaxInt64, math.MaxInt64 - 1, math.MaxInt32, math.MaxInt32 + 1, 1 << 62, 0, 1, 255, 256, 65535, 65536}, "boundary")
	default:
		v = rapid.Int64Range(0, math.MaxInt64).Draw(g.t, "int64")
	}
	return g.intLit(v)
}

func (g *G) intLit(v int64) *Int {
	switch g.intn(0, 5, "intform") {
	case 0:
		return &Int{Value: v, Lit: "0x" + strconv.FormatInt(v, 16)}
	case 1:
		return &Int{Value: v, Lit: "0X" + strings.ToUpper(strconv.FormatInt(v, 16))}
	case 2:
		if v < 1<<50 {
			return &Int{Value: v, Lit: "0" + strconv.FormatInt(v, 10)} // leading zero is decimal
		}
	}
	return &Int{Value: v, Lit: strconv.FormatInt(v, 10)}
}

// exactFloat computes the correctly rounded float64 of a literal without strconv.
func exactFloat(lit string) float64 {
	l := lit
	if strings.HasPrefix(l, "0x") || strings.HasPrefix(l, "0X") {
		l = l[2:]
		exp := 0
		if i := strings.IndexByte(l, 'p'); i >= 0 {
			exp, _ = strconv.Atoi(l[i+1:])
			l = l[:i]
		}
		frac := 0
		if i := strings.IndexByte(l, '.'); i >= 0 {
			frac = len(l) - i - 1
			l = l[:i] + l[i+1:]
		}
		if l == "" {
			l = "0"
		}
		n, _ := new(big.Int).SetString(l, 16)
		r := new(big.Rat).SetInt(n)
		e := exp - 4*frac
		p := new(big.Int).Lsh(big.NewInt(1), uint(abs(e)))
		if e >= 0 {
			r.Mul(r, new(big.Rat).SetInt(p))
		} else {
			r.Quo(r, new(big.Rat).SetInt(p))
		}
		f, _ := r.Float64()
		return f
	}
	r, ok := new(big.Rat).SetString(l)
	if !ok {
		panic("exactFloat: bad literal " + lit)
	}
	f, _ := r.Float64()
	return f
}

func abs(x int) int {
	if x < 0 {
		return -x
	}
	return x
}

func (g *G) digits(min, max int) string {
	n := g.intn(min, max, "ndig")
	var b strings.Builder
	for i := 0; i < n; i++ {
		b.WriteByte(byte('0' + g.intn(0, 9, "dig")))
	}
	return b.String()
}

func (g *G) hexdigits(min, max int) string {
	const hx = "0123456789abcdefABCDEF"
	n := g.intn(min, max, "nhex")
	var b strings.Builder
	for i := 0; i < n; i++ {
		b.WriteByte(hx[g.intn(0, len(hx)-1, "hex")])
	}
	return b.String()
}

// Float draws a float literal in one of the documented forms.
func (g *G) Float() *Float {
	var lit string
	switch g.intn(0, 6, "floatform") {
	case 0, 1:
		lit = g.digits(1, 6) + "." + g.digits(1, 6)
	case 2:
		lit = g.digits(1, 4) + "e" + pickOne(g, []string{"", "+", "-"}, "esign") + strconv.Itoa(g.intn(0, 30, "exp"))
	case 3:
		lit = g.digits(1, 4) + "." + g.digits(1, 4) + "e" + pickOne(g, []string{"", "+", "-"}, "esign") + strconv.Itoa(g.intn(0, 300, "exp"))
	case 4:
		lit = pickOne(g, []string{"0x", "0X"}, "hx") + g.hexdigits(1, 4) + "." + g.hexdigits(1, 4)
	case 5:
		lit = "0x" + g.hexdigits(1, 4) + "." + g.hexdigits(1, 4) + "p" + pickOne(g, []string{"", "+", "-"}, "psign") + strconv.Itoa(g.intn(0, 60, "pexp"))
	default:
		lit = "0x" + g.hexdigits(1, 6) + "p" + pickOne(g, []string{"", "+", "-"}, "psign") + strconv.Itoa(g.intn(0, 60, "pexp"))
	}
	// hex digits 'e' inside a hex float are digits, 'p' is the exponent marker; a
	// hex mantissa may not contain 'p', which hexdigits never produces.
	return &Float{Value: exactFloat(lit), Lit: lit}
}

func (g *G) RTime() *RTime {
	num := g.digits(1, 4)
	if g.chance(30, "rtime-frac") {
		num += "." + g.digits(1, 3)
	}
	return &RTime{Lit: num + pickOne(g, []string{"ms", "s", "m", "h", "d", "y"}, "unit")}
}

// ---------------------------------------------------------------------------
// Expressions

var infixOps = []string{"||", "&&", "~", "!~", "==", "!=", "<", ">", "<=", ">=", "+", "+"}

func (g *G) leaf() Expr {
	switch g.intn(0, 9, "leaf") {
	case 0, 1, 2:
		return &Ident{Name: g.IdentName()}
	case 3, 4, 5:
		return g.String()
	case 6:
		return g.Int()
	case 7:
		if g.chance(50, "rtime") {
			return g.RTime()
		}
		return g.Float()
	case 8:
		return &Bool{Value: g.chance(50, "bool")}
	default:
		// INT64 minimum: only expressible as the operand of unary minus
		if g.chance(30, "intmin") {
			lit := pickOne(g, []string{"9223372036854775808", "0x8000000000000000"}, "minlit")
			return &Prefix{Op: "-", Right: &Int{Value: math.MinInt64, Lit: lit}}
		}
		return &Prefix{Op: "-", Right: g.Int()}
	}
}

func (g *G) rawExpr(depth int) Expr {
	if depth <= 0 || g.chance(30, "leaf-early") {
		return g.leaf()
	}
	switch g.intn(0, 11, "exprkind") {
	case 0, 1, 2, 3, 4, 5:
		op := pickOne(g, infixOps, "op")
		x := &Infix{Op: op, Left: g.rawExpr(depth - 1), Right: g.rawExpr(depth - 1)}
		if op == "+" {
			x.Explicit = g.chance(50, "explicit")
		}
		return x
	case 6, 7:
		op := pickOne(g, []string{"!", "!", "-", "+"}, "preop")
		if g.avoid("prefix-plus") && op == "+" {
			op = "!"
		}
		return &Prefix{Op: op, Right: g.rawExpr(depth - 1)}
	case 8:
		return &Group{Inner: g.rawExpr(depth - 1)}
	case 9:
		return &IfExpr{Cond: g.rawExpr(depth - 1), Then: g.rawExpr(depth - 1), Else: g.rawExpr(depth - 1)}
	default:
		n := g.intn(0, 3, "nargs")
		c := &Call{Name: g.funcName()}
		for i := 0; i < n; i++ {
			c.Args = append(c.Args, g.rawExpr(depth-1))
		}
		return c
	}
}

var funcNames = []string{"std.strlen", "std.tolower", "regsub", "regsuball", "substr", "table.lookup", "digest.hash_md5", "std.atoi", "time.add", "f", "my_fn", "header.get"}

func (g *G) funcName() string { return pickOne(g, funcNames, "fname") }

// juxtaposable reports whether x may be the right operand of a concatenation
// written by juxtaposition (a single primary starting with STRING, long
// string, IDENT or `if`).
func juxtaposable(x Expr) bool {
	switch x.(type) {
	case *Str, *Ident, *IfExpr, *Call:
		return true
	}
	return false
}

// Parenthesize inserts the groups the precedence table requires (and, by
// draws, redundant ones).
func (g *G) Parenthesize(x Expr) Expr {
	switch v := x.(type) {
	case *Infix:
		l, r := g.Parenthesize(v.Left), g.Parenthesize(v.Right)
		p := OpPrec[v.Op]
		if l.prec() < p {
			l = &Group{Inner: l}
		}
		if r.prec() <= p {
			r = &Group{Inner: r}
		}
		if g.chance(4, "redundant-group") {
			l = &Group{Inner: l}
		}
		if g.chance(4, "redundant-group") {
			r = &Group{Inner: r}
		}
		explicit := v.Explicit
		if v.Op == "+" && !explicit && !juxtaposable(r) {
			explicit = true
		}
		return &Infix{Op: v.Op, Left: l, Right: r, Explicit: explicit}
	case *Prefix:
		r := g.Parenthesize(v.Right)
		if r.prec() < pPrefix {
			r = &Group{Inner: r}
		}
		return &Prefix{Op: v.Op, Right: r}
	case *Group:
		return &Group{Inner: g.Parenthesize(v.Inner)}
	case *IfExpr:
		return &IfExpr{Cond: g.Parenthesize(v.Cond), Then: g.Parenthesize(v.Then), Else: g.Parenthesize(v.Else)}
	case *Call:
		c := &Call{Name: v.Name}
		for _, a := range v.Args {
			c.Args = append(c.Args, g.Parenthesize(a))
		}
		return c
	}
	return x
}

// Expr draws a complete, correctly parenthesized expression.
func (g *G) Expr(depth int) Expr {
	return g.Parenthesize(g.rawExpr(depth))
}

func startsWithParen(x Expr) bool {
	switch v := x.(type) {
	case *Group:
		return true
	case *Infix:
		return startsWithParen(v.Left)
	case *Postfix:
		return startsWithParen(v.Left)
	}
	return false
}

// ---------------------------------------------------------------------------
// Statements

var assignOps = []string{"=", "=", "=", "+=", "-=", "*=", "/=", "%=", "|=", "&=", "^=", "<<=", ">>=", "rol=", "ror=", "&&=", "||="}
var typeNames = []string{"STRING", "INTEGER", "FLOAT", "BOOL", "RTIME", "TIME", "IP", "BACKEND", "ACL"}
var returnActions = []string{"lookup", "pass", "error", "restart", "hash", "deliver", "fetch", "deliver_stale", "hit_for_pass", "upgrade"}

var stmtKinds = []string{"set", "set", "set", "add", "unset", "remove", "declare", "declare", "call", "fcall", "error", "esi", "log", "log", "restart", "return", "return",
	"synthetic", "synthetic.base64", "goto", "label", "block", "if", "if", "if", "switch", "include"}

// Statements draws a list of statements for a block at the given nesting.
func (g *G) Statements(nest int) []Stmt {
	n := g.intn(0, g.cfg.MaxStmts, "nstmts")
	var out []Stmt
	for i := 0; i < n; i++ {
		out = append(out, g.Statement(nest, true))
	}
	return out
}

func (g *G) block(nest int) *Block { return &Block{Stmts: g.Statements(nest)} }

// Statement draws one statement. allowSwitch is false where the parser has no
// switch entry (top of a statement-only snippet).
func (g *G) Statement(nest int, allowSwitch bool) Stmt {
	for {
		k := pickOne(g, stmtKinds, "stmtkind")
		if nest >= g.cfg.MaxNest && (k == "block" || k == "if" || k == "switch") {
			continue
		}
		if k == "switch" && (!allowSwitch || g.avoid("switch")) {
			continue
		}
		if g.avoid(k) {
			continue
		}
		return g.statementOfKind(k, nest)
	}
}

func (g *G) statementOfKind(k string, nest int) Stmt {
	d := g.cfg.MaxDepth
	switch k {
	case "set", "add":
		return &SetStmt{Keyword: k, Target: g.IdentName(), Op: pickOne(g, assignOps, "assignop"), Value: g.Expr(d)}
	case "unset", "remove":
		t := g.IdentName()
		if g.chance(15, "wildcard") {
			t = "req.http.X-" + g.letterRun(0, 3) + "*"
		}
		return &UnsetStmt{Keyword: k, Target: t}
	case "declare":
		s := &DeclareStmt{Name: "var." + g.PlainName(), Type: pickOne(g, typeNames, "type")}
		if g.chance(40, "declare-init") {
			s.Value = g.Expr(d)
		}
		return s
	case "call":
		s := &CallStmt{Name: g.PlainName()}
		if g.chance(40, "call-args") {
			s.HasArgs = true
			n := g.intn(0, 3, "ncallargs")
			for i := 0; i < n; i++ {
				s.Args = append(s.Args, g.Expr(d-1))
			}
		}
		return s
	case "fcall":
		s := &FuncCallStmt{Name: g.funcName()}
		n := g.intn(0, 3, "nfargs")
		for i := 0; i < n; i++ {
			s.Args = append(s.Args, g.Expr(d-1))
		}
		return s
	case "error":
		s := &ErrorStmt{}
		form := g.intn(0, 5, "errform")
		if g.avoid("error-bare") && form == 0 {
			form = 1
		}
		switch form {
		case 0: // error;
		case 1, 2:
			s.Code = &Int{Value: int64(g.intn(100, 999, "code"))}
			s.Code.(*Int).Lit = strconv.FormatInt(s.Code.(*Int).Value, 10)
		case 3:
			s.Code = &Ident{Name: g.IdentName()}
		default:
			c := &Call{Name: g.funcName()}
			n := g.intn(0, 2, "ncodeargs")
			for i := 0; i < n; i++ {
				c.Args = append(c.Args, g.Expr(d-1))
			}
			s.Code = c
		}
		if s.Code != nil && g.chance(60, "errarg") {
			s.Arg = g.Expr(d)
			if _, isIdent := s.Code.(*Ident); isIdent && startsWithParen(s.Arg) {
				// `error ident (…)` would read as a function call
				s.Code = &Int{Value: 503, Lit: "503"}
			}
		}
		return s
	case "esi", "restart":
		return &SimpleStmt{Keyword: k}
	case "log", "synthetic", "synthetic.base64":
		return &ValueStmt{Keyword: k, Value: g.Expr(d)}
	case "return":
		s := &ReturnStmt{}
		switch g.intn(0, 5, "retform") {
		case 0:
		case 1, 2:
			s.Value = &Ident{Name: pickOne(g, returnActions, "action")}
			s.Paren = true
		case 3:
			s.Value = &Ident{Name: pickOne(g, returnActions, "action")}
		default:
			if g.avoid("return-expr") {
				s.Value = &Ident{Name: g.IdentName()}
			} else {
				s.Value = g.Expr(d)
			}
			s.Paren = g.chance(50, "retparen")
		}
		if s.Value != nil && !s.Paren && startsWithParen(s.Value) {
			s.Paren = true
		}
		return s
	case "goto":
		return &GotoStmt{Dest: g.PlainName()}
	case "label":
		return &LabelStmt{Name: g.PlainName() + ":"}
	case "block":
		return &BlockStmt{Block: g.block(nest + 1)}
	case "if":
		s := &IfStmt{}
		s.Arms = append(s.Arms, IfArm{Keyword: "if", Cond: g.Expr(d), Body: g.block(nest + 1)})
		n := g.intn(0, 3, "nelif")
		for i := 0; i < n; i++ {
			s.Arms = append(s.Arms, IfArm{Keyword: pickOne(g, []string{"else if", "elseif", "elsif"}, "elif"), Cond: g.Expr(d), Body: g.block(nest + 1)})
		}
		if g.chance(50, "else") {
			s.Else = g.block(nest + 1)
		}
		return s
	case "switch":
		return g.switchStmt(nest)
	case "include":
		return &IncludeStmt{Module: g.SimpleString(), Semi: g.chance(80, "include-semi")}
	}
	panic("unknown statement kind " + k)
}

func (g *G) switchStmt(nest int) Stmt {
	s := &SwitchStmt{}
	switch g.intn(0, 3, "ctrl") {
	case 0:
		s.Control = &Ident{Name: g.IdentName()}
	case 1:
		c := &Call{Name: g.funcName()}
		n := g.intn(0, 2, "nctrlargs")
		for i := 0; i < n; i++ {
			c.Args = append(c.Args, g.Expr(1))
		}
		s.Control = c
	case 2:
		s.Control = g.SimpleString()
	default:
		s.Control = &Bool{Value: g.chance(50, "ctrlbool")}
	}
	n := g.intn(1, 4, "ncases")
	def := -1
	if g.chance(60, "has-default") {
		def = g.intn(0, n-1, "defpos")
	}
	seen := map[string]bool{}
	for i := 0; i < n; i++ {
		c := Case{}
		if i == def {
			c.Default = true
		} else {
			c.Regex = g.chance(35, "case-regex")
			for {
				c.Test = g.SimpleString()
				key := fmt.Sprint(c.Regex, c.Test.Value)
				if !seen[key] {
					seen[key] = true
					break
				}
				c.Test = &Str{Value: c.Test.Value + strconv.Itoa(i), Spelling: "\"" + c.Test.Value + strconv.Itoa(i) + "\""}
				key = fmt.Sprint(c.Regex, c.Test.Value)
				if !seen[key] {
					seen[key] = true
					break
				}
			}
		}
		m := g.intn(0, 2, "ncasestmts")
		for j := 0; j < m; j++ {
			st := g.Statement(nest+1, true)
			c.Body = append(c.Body, st)
		}
		if i < n-1 {
			c.Fallthrough = g.chance(40, "fallthrough")
		}
		s.Cases = append(s.Cases, c)
	}
	return s
}

// ---------------------------------------------------------------------------
// Declarations

var declKinds = []string{"sub", "sub", "sub", "sub", "acl", "backend", "director", "table", "penaltybox", "ratecounter", "import", "include"}

func (g *G) Program() *Program {
	n := g.intn(0, g.cfg.MaxDecls, "ndecls")
	p := &Program{}
	kinds := declKinds
	if g.cfg.OnlyDecls != nil {
		kinds = g.cfg.OnlyDecls
	}
	for i := 0; i < n; i++ {
		k := pickOne(g, kinds, "declkind")
		if g.avoid(k) {
			k = "sub"
		}
		p.Decls = append(p.Decls, g.Decl(k))
	}
	return p
}

var subNames = []string{"vcl_recv", "vcl_hash", "vcl_hit", "vcl_miss", "vcl_pass", "vcl_fetch", "vcl_error", "vcl_deliver", "vcl_log"}

func (g *G) Decl(k string) Stmt {
	d := g.cfg.MaxDepth
	switch k {
	case "sub":
		s := &SubDecl{Body: g.block(1)}
		if g.chance(40, "lifecycle") {
			s.Name = pickOne(g, subNames, "subname")
		} else {
			s.Name = g.PlainName()
			if g.chance(40, "params") && !g.avoid("sub-params") {
				s.HasParams = true
				n := g.intn(0, 3, "nparams")
				for i := 0; i < n; i++ {
					s.Params = append(s.Params, Param{Type: pickOne(g, typeNames, "ptype"), Name: "var." + g.PlainName()})
				}
			}
			if g.chance(40, "rettype") && !g.avoid("sub-return") {
				s.Return = pickOne(g, typeNames, "rtype")
			}
		}
		return s
	case "acl":
		a := &AclDecl{Name: g.PlainName()}
		n := g.intn(0, 4, "nentries")
		for i := 0; i < n; i++ {
			en := AclEntry{Negated: g.chance(30, "neg")}
			ip := pickOne(g, []string{"192.168.0.1", "10.0.0.0", "2001:db8::1", "::1", "127.0.0.1", "0.0.0.0", "localhost"}, "ip")
			if g.chance(15, "ip-long") {
				en.IP = &Str{Value: ip, Spelling: "{\"" + ip + "\"}", Long: true}
			} else {
				en.IP = &Str{Value: ip, Spelling: "\"" + ip + "\""}
			}
			if g.chance(60, "mask") {
				m := int64(g.intn(0, 128, "maskv"))
				en.Mask = &Int{Value: m, Lit: strconv.FormatInt(m, 10)}
			}
			a.Entries = append(a.Entries, en)
		}
		return a
	case "backend":
		b := &BackendDecl{Name: g.PlainName()}
		n := g.intn(0, 5, "nprops")
		for i := 0; i < n; i++ {
			if g.chance(20, "probe") {
				p := Prop{Key: "probe", IsObj: true}
				m := g.intn(0, 3, "nprobe")
				for j := 0; j < m; j++ {
					p.Probe = append(p.Probe, g.prop(d))
				}
				b.Props = append(b.Props, p)
			} else {
				b.Props = append(b.Props, g.prop(d))
			}
		}
		return b
	case "director":
		dd := &DirectorDecl{Name: g.PlainName(), Type: pickOne(g, []string{"random", "hash", "client", "fallback", "chash", "shield"}, "dtype")}
		n := g.intn(0, 4, "nitems")
		for i := 0; i < n; i++ {
			if g.chance(50, "dprop") {
				p := Prop{Key: pickOne(g, []string{"quorum", "retries", "key", "seed"}, "dkey")}
				if g.chance(50, "percent") {
					p.Value = &Postfix{Left: g.intLitPlain(int64(g.intn(0, 100, "pct"))), Op: "%"}
				} else {
					p.Value = g.Expr(1)
				}
				dd.Items = append(dd.Items, DirectorItem{Prop: &p})
			} else {
				m := g.intn(1, 3, "nbprops")
				var props []Prop
				for j := 0; j < m; j++ {
					key := pickOne(g, []string{"backend", "weight", "id"}, "bkey")
					var v Expr
					if key == "backend" {
						v = &Ident{Name: "F_" + g.PlainName()}
					} else {
						v = g.Expr(1)
					}
					props = append(props, Prop{Key: key, Value: v})
				}
				dd.Items = append(dd.Items, DirectorItem{Backend: props})
			}
		}
		return dd
	case "table":
		t := &TableDecl{Name: g.PlainName()}
		if g.chance(50, "ttype") {
			t.Type = pickOne(g, []string{"STRING", "INTEGER", "FLOAT", "BOOL", "RTIME", "BACKEND", "ACL", "IP"}, "tabletype")
		}
		n := g.intn(0, 4, "nitems")
		for i := 0; i < n; i++ {
			it := TableItem{Key: g.tableString()}
			switch g.intn(0, 6, "tval") {
			case 0:
				it.Value = &Ident{Name: g.PlainName()}
			case 1, 2:
				it.Value = g.tableString()
			case 3:
				it.Value = &Bool{Value: g.chance(50, "tb")}
			case 4:
				it.Value = g.Float()
			case 5:
				it.Value = g.Int()
			default:
				it.Value = g.RTime()
			}
			t.Items = append(t.Items, it)
		}
		t.TrailingComma = n > 0 && g.chance(60, "trailing-comma")
		return t
	case "penaltybox", "ratecounter":
		return &BoxDecl{Keyword: k, Name: g.PlainName()}
	case "import":
		return &ImportStmt{Name: g.PlainName()}
	case "include":
		return &IncludeStmt{Module: g.SimpleString(), Semi: g.chance(80, "include-semi")}
	}
	panic("unknown decl kind " + k)
}

func (g *G) tableString() *Str {
	if g.avoid("table-escapes") {
		return g.SimpleString()
	}
	return g.String()
}

func (g *G) intLitPlain(v int64) *Int { return &Int{Value: v, Lit: strconv.FormatInt(v, 10)} }

func (g *G) prop(d int) Prop {
	key := pickOne(g, []string{"host", "port", "connect_timeout", "first_byte_timeout", "ssl", "max_connections", "request", "window", "threshold", "dummy", "share_key"}, "pkey")
	return Prop{Key: key, Value: g.Expr(min(d, 2))}
}
