// Package iso provides worker isolation, statistics, replay files and the
// known-finding registry shared by all property checks (DESIGN.md §1.3–1.7).
package iso

import (
	"bufio"
	"bytes"
	"crypto/sha256"
	"encoding/binary"
	"encoding/hex"
	"encoding/json"
	"fmt"
	"io"
	"os"
	"os/exec"
	"path/filepath"
	"runtime"
	"runtime/debug"
	"sort"
	"strings"
	"sync"
	"time"
)

// Status of one checked case.
const (
	OK   = "ok"
	Fail = "fail"
	Skip = "skip"
)

// Result is what Check returns for one case.
type Result struct {
	Status     string         `json:"status"`
	Msg        string         `json:"msg,omitempty"`
	Labels     []string       `json:"labels,omitempty"`
	NonTrivial bool           `json:"nontrivial,omitempty"`
	Known      []string       `json:"known,omitempty"` // known-finding keys hit by this case
	Sample     any            `json:"sample,omitempty"`
	Extra      map[string]int `json:"extra,omitempty"` // additional counters summed into evidence
}

// Fails is a small helper building a failing result.
func Failf(format string, a ...any) Result {
	return Result{Status: Fail, Msg: fmt.Sprintf(format, a...)}
}

// Prop is one registered property check.
type Prop struct {
	ID    string
	Rule  string
	Check func(raw json.RawMessage) Result
	// Deadline per case (0 = default).
	Deadline time.Duration
}

var registry = map[string]*Prop{}

func Register(p *Prop) { registry[p.ID] = p }

func Lookup(id string) *Prop { return registry[id] }

// ---------------------------------------------------------------------------
// Known findings

type Finding struct {
	Kind     string // "known" or "fixed"
	Property string
	Key      string
	Text     string
}

var (
	knownOnce sync.Once
	knownSet  map[string]bool // property/key -> listed as known
	findings  []Finding
)

func findingsPath() string {
	if p := os.Getenv("VERIF_KNOWN"); p != "" {
		return p
	}
	return "/verif/KNOWN_FINDINGS.txt"
}

func loadKnown() {
	knownSet = map[string]bool{}
	b, err := os.ReadFile(findingsPath())
	if err != nil {
		return
	}
	for _, line := range strings.Split(string(b), "\n") {
		line = strings.TrimSpace(line)
		if line == "" || strings.HasPrefix(line, "#") {
			continue
		}
		var f Finding
		switch {
		case strings.HasPrefix(line, "known:"):
			f.Kind = "known"
			line = strings.TrimSpace(strings.TrimPrefix(line, "known:"))
		case strings.HasPrefix(line, "fixed:"):
			f.Kind = "fixed"
			line = strings.TrimSpace(strings.TrimPrefix(line, "fixed:"))
		default:
			continue
		}
		fields := strings.Fields(line)
		rest := []string{}
		for _, fl := range fields {
			switch {
			case strings.HasPrefix(fl, "property=") && f.Property == "":
				f.Property = strings.TrimPrefix(fl, "property=")
			case strings.HasPrefix(fl, "key=") && f.Key == "":
				f.Key = strings.TrimPrefix(fl, "key=")
			default:
				rest = append(rest, fl)
			}
		}
		f.Text = strings.Join(rest, " ")
		findings = append(findings, f)
		if f.Kind == "known" {
			knownSet[f.Property+"/"+f.Key] = true
		}
	}
}

// IsKnown reports whether key is listed as a known finding for property.
func IsKnown(property, key string) bool {
	knownOnce.Do(loadKnown)
	return knownSet[property+"/"+key]
}

// Findings lists all parsed entries.
func Findings() []Finding {
	knownOnce.Do(loadKnown)
	return findings
}

// Collector gathers sub-oracle outcomes for one case: failures that match a
// listed known finding are recorded as known, all others fail the case.
type Collector struct {
	Property string
	Res      Result
	fails    []string
}

func NewCollector(property string) *Collector {
	return &Collector{Property: property, Res: Result{Status: OK}}
}

func (c *Collector) Label(l ...string) { c.Res.Labels = append(c.Res.Labels, l...) }

func (c *Collector) Count(name string, n int) {
	if c.Res.Extra == nil {
		c.Res.Extra = map[string]int{}
	}
	c.Res.Extra[name] += n
}

// Failf records an unconditional failure.
func (c *Collector) Failf(format string, a ...any) {
	c.fails = append(c.fails, fmt.Sprintf(format, a...))
}

// FailKey records a failure attributed by its classifier to finding `key`.
// If that key is listed as known the failure is suppressed and counted.
func (c *Collector) FailKey(key string, format string, a ...any) {
	if key != "" && IsKnown(c.Property, key) {
		for _, k := range c.Res.Known {
			if k == key {
				return
			}
		}
		c.Res.Known = append(c.Res.Known, key)
		return
	}
	msg := fmt.Sprintf(format, a...)
	if key != "" {
		msg = "[" + key + "] " + msg
	}
	c.fails = append(c.fails, msg)
}

func (c *Collector) Failed() bool { return len(c.fails) > 0 }

func (c *Collector) Done() Result {
	if len(c.fails) > 0 {
		c.Res.Status = Fail
		c.Res.Msg = strings.Join(c.fails, "\n")
	}
	return c.Res
}

// ---------------------------------------------------------------------------
// Worker side

type request struct {
	Prop string          `json:"prop"`
	Case json.RawMessage `json:"case"`
}

func writeFrame(w io.Writer, b []byte) error {
	var hdr [4]byte
	binary.BigEndian.PutUint32(hdr[:], uint32(len(b)))
	if _, err := w.Write(hdr[:]); err != nil {
		return err
	}
	_, err := w.Write(b)
	return err
}

func readFrame(r io.Reader) ([]byte, error) {
	var hdr [4]byte
	if _, err := io.ReadFull(r, hdr[:]); err != nil {
		return nil, err
	}
	n := binary.BigEndian.Uint32(hdr[:])
	b := make([]byte, n)
	if _, err := io.ReadFull(r, b); err != nil {
		return nil, err
	}
	return b, nil
}

// SafeCheck runs p.Check recovering ordinary panics.
func SafeCheck(p *Prop, raw json.RawMessage) (res Result) {
	defer func() {
		if r := recover(); r != nil {
			st := string(debug.Stack())
			if len(st) > 3000 {
				st = st[:3000]
			}
			res = Result{Status: Fail, Msg: fmt.Sprintf("PANIC(harness-level) %v\n%s", r, st)}
		}
	}()
	return p.Check(raw)
}

// orphanWatchdog ends the worker when its parent is gone (a shard killed by the driver while the worker is
// spinning in a case would otherwise leave a process that loops forever).
func orphanWatchdog(parent int) {
	for {
		time.Sleep(2 * time.Second)
		if os.Getppid() != parent {
			os.Exit(97)
		}
	}
}

// WorkerMain is the loop executed by the child process (VERIF_WORKER=1).
func WorkerMain() {
	debug.SetMaxStack(256 << 20)
	go memWatchdog()
	go orphanWatchdog(os.Getppid())
	in := bufio.NewReaderSize(os.Stdin, 1<<20)
	out := bufio.NewWriterSize(os.Stdout, 1<<20)
	// falco code sometimes prints to stdout; keep the protocol on the real fd 1
	// and point os.Stdout elsewhere.
	os.Stdout = os.Stderr
	for {
		b, err := readFrame(in)
		if err != nil {
			return
		}
		var rq request
		if err := json.Unmarshal(b, &rq); err != nil {
			fmt.Fprintln(os.Stderr, "worker: bad request:", err)
			os.Exit(98)
		}
		p := Lookup(rq.Prop)
		var res Result
		if p == nil {
			res = Failf("unknown property %q", rq.Prop)
		} else {
			res = SafeCheck(p, rq.Case)
		}
		ob, err := json.Marshal(res)
		if err != nil {
			ob, _ = json.Marshal(Failf("cannot marshal result: %v", err))
		}
		if err := writeFrame(out, ob); err != nil {
			return
		}
		out.Flush()
	}
}

func memWatchdog() {
	limit := uint64(4 << 30)
	var ms runtime.MemStats
	for {
		time.Sleep(200 * time.Millisecond)
		runtime.ReadMemStats(&ms)
		if ms.HeapAlloc > limit {
			fmt.Fprintln(os.Stderr, "worker: heap exceeds 4GiB, exiting")
			os.Exit(97)
		}
	}
}

// ---------------------------------------------------------------------------
// Parent side

type Worker struct {
	cmd    *exec.Cmd
	in     io.WriteCloser
	out    *bufio.Reader
	stderr *tailBuffer
}

type tailBuffer struct {
	mu  sync.Mutex
	buf []byte
}

func (t *tailBuffer) Write(p []byte) (int, error) {
	t.mu.Lock()
	defer t.mu.Unlock()
	t.buf = append(t.buf, p...)
	if len(t.buf) > 16384 {
		t.buf = t.buf[len(t.buf)-8192:]
	}
	return len(p), nil
}

func (t *tailBuffer) Head(n int) string {
	t.mu.Lock()
	defer t.mu.Unlock()
	s := string(t.buf)
	if len(s) > n {
		s = s[:n]
	}
	return s
}

func startWorker() (*Worker, error) {
	exe, err := os.Executable()
	if err != nil {
		return nil, err
	}
	cmd := exec.Command(exe, "-test.run=^$")
	cmd.Env = append(os.Environ(), "VERIF_WORKER=1")
	in, err := cmd.StdinPipe()
	if err != nil {
		return nil, err
	}
	outp, err := cmd.StdoutPipe()
	if err != nil {
		return nil, err
	}
	tb := &tailBuffer{}
	cmd.Stderr = tb
	if err := cmd.Start(); err != nil {
		return nil, err
	}
	return &Worker{cmd: cmd, in: in, out: bufio.NewReaderSize(outp, 1<<20), stderr: tb}, nil
}

func (w *Worker) kill() {
	if w == nil || w.cmd == nil {
		return
	}
	w.cmd.Process.Kill()
	w.in.Close()
	w.cmd.Wait()
}

// Runner owns one worker and restarts it on demand.
type Runner struct {
	w *Worker
}

type rawOutcome struct {
	res     Result
	timeout bool
	died    bool
	stderr  string
	err     error
}

func (r *Runner) once(prop string, raw json.RawMessage, deadline time.Duration) rawOutcome {
	if r.w == nil {
		w, err := startWorker()
		if err != nil {
			return rawOutcome{err: err}
		}
		r.w = w
	}
	w := r.w
	rb, _ := json.Marshal(request{Prop: prop, Case: raw})
	type rd struct {
		b   []byte
		err error
	}
	ch := make(chan rd, 1)
	go func() {
		if err := writeFrame(w.in, rb); err != nil {
			ch <- rd{nil, err}
			return
		}
		b, err := readFrame(w.out)
		ch <- rd{b, err}
	}()
	select {
	case x := <-ch:
		if x.err != nil {
			// worker died
			time.Sleep(20 * time.Millisecond)
			w.kill()
			r.w = nil
			return rawOutcome{died: true, stderr: w.stderr.Head(3000)}
		}
		var res Result
		if err := json.Unmarshal(x.b, &res); err != nil {
			return rawOutcome{err: err}
		}
		return rawOutcome{res: res}
	case <-time.After(deadline):
		w.kill()
		r.w = nil
		<-ch
		return rawOutcome{timeout: true}
	}
}

func (r *Runner) Close() {
	if r.w != nil {
		r.w.kill()
		r.w = nil
	}
}

// InProcess makes Run call Check directly (used for replay debugging).
var InProcess = os.Getenv("VERIF_INPROC") == "1"

// Run executes one case in the worker with deadline handling (§1.3).
func (r *Runner) Run(p *Prop, raw json.RawMessage) Result {
	if InProcess {
		return SafeCheck(p, raw)
	}
	deadline := p.Deadline
	if deadline == 0 {
		deadline = 10 * time.Second
	}
	if s := os.Getenv("VERIF_DEADLINE_MS"); s != "" {
		var ms int
		fmt.Sscanf(s, "%d", &ms)
		if ms > 0 {
			deadline = time.Duration(ms) * time.Millisecond
		}
	}
	overruns := 0
	for attempt := 0; attempt < 3; attempt++ {
		o := r.once(p.ID, raw, deadline)
		switch {
		case o.err != nil:
			fmt.Fprintln(os.Stderr, "INFRA: worker failure:", o.err)
			os.Exit(2)
		case o.died:
			// a long-lived worker that dies (heap watchdog, runtime fatal error) takes the case in flight with
			// it; the case is only blamed when it also kills a fresh worker — otherwise the saved input would
			// not reproduce anything
			o2 := r.once(p.ID, raw, deadline)
			if o2.err == nil && !o2.died && !o2.timeout {
				if o2.res.Extra == nil {
					o2.res.Extra = map[string]int{}
				}
				o2.res.Extra["worker_deaths_not_reproduced"]++
				fmt.Fprintln(os.Stderr, "NOTE: a worker died ("+firstLine(o.stderr)+"); the case in flight passes in a fresh worker and is not blamed")
				return o2.res
			}
			if o2.died {
				o = o2
			}
			return r.classifyDeath(p, raw, o)
		case o.timeout:
			overruns++
			deadline *= 2
			continue
		}
		if overruns > 0 {
			if o.res.Extra == nil {
				o.res.Extra = map[string]int{}
			}
			o.res.Extra["slow_cases"]++
		}
		return o.res
	}
	return r.classifyHang(p, raw)
}

// DeathClassifier lets a property attribute a worker death / hang on a case to
// a known finding key ("" = not known).
var DeathClassifier = map[string]func(raw json.RawMessage, kind, stderr string) string{}

func (r *Runner) classifyDeath(p *Prop, raw json.RawMessage, o rawOutcome) Result {
	msg := "WORKER-DIED " + o.stderr
	if f := DeathClassifier[p.ID]; f != nil {
		if key := f(raw, "died", o.stderr); key != "" && IsKnown(p.ID, key) {
			return Result{Status: OK, Known: []string{key}, Labels: []string{"known-death"}}
		} else if key != "" {
			msg = "[" + key + "] " + msg
		}
	}
	return Result{Status: Fail, Msg: msg}
}

func (r *Runner) classifyHang(p *Prop, raw json.RawMessage) Result {
	msg := "HANG (three consecutive deadline overruns)"
	if f := DeathClassifier[p.ID]; f != nil {
		if key := f(raw, "hang", ""); key != "" && IsKnown(p.ID, key) {
			return Result{Status: OK, Known: []string{key}, Labels: []string{"known-hang"}}
		} else if key != "" {
			msg = "[" + key + "] " + msg
		}
	}
	return Result{Status: Fail, Msg: msg}
}

// ---------------------------------------------------------------------------
// Statistics

type Stats struct {
	Property    string         `json:"property"`
	Evaluations int            `json:"evaluations"`
	NonTrivial  []string       `json:"nontrivial_hashes"`
	Labels      map[string]int `json:"labels"`
	Extra       map[string]int `json:"extra"`
	Known       map[string]int `json:"known"`
	Samples     []any          `json:"samples"`
	Violations  []Violation    `json:"violations"`
	Skipped     int            `json:"skipped"`
	Rule        string         `json:"rule"`
	RapidOutput string         `json:"rapid_output,omitempty"`

	nt map[uint64]struct{}
	mu sync.Mutex
}

type Violation struct {
	Replay string `json:"replay"`
	Msg    string `json:"msg"`
}

func NewStats(property string) *Stats {
	return &Stats{Property: property, Labels: map[string]int{}, Extra: map[string]int{}, Known: map[string]int{}, nt: map[uint64]struct{}{}}
}

func hash64(b []byte) uint64 {
	h := sha256.Sum256(b)
	return binary.BigEndian.Uint64(h[:8])
}

const maxHashes = 400000

// Record adds the outcome of one case.
func (s *Stats) Record(raw json.RawMessage, res Result) {
	s.mu.Lock()
	defer s.mu.Unlock()
	if res.Status == Skip {
		s.Skipped++
		return
	}
	s.Evaluations++
	for _, l := range res.Labels {
		s.Labels[l]++
	}
	for k, v := range res.Extra {
		s.Extra[k] += v
	}
	for _, k := range res.Known {
		s.Known[k]++
	}
	if res.NonTrivial {
		s.Labels["nontrivial"]++
		if len(s.nt) < maxHashes {
			s.nt[hash64(raw)] = struct{}{}
		}
		if len(s.Samples) < 3 && res.Status == OK {
			if res.Sample != nil {
				s.Samples = append(s.Samples, res.Sample)
			} else {
				var v any
				if json.Unmarshal(raw, &v) == nil {
					s.Samples = append(s.Samples, v)
				}
			}
		}
	}
}

func (s *Stats) AddViolation(v Violation) {
	s.mu.Lock()
	defer s.mu.Unlock()
	s.Violations = append(s.Violations, v)
}

// DropLastViolation removes the provisional entry written before shrinking.
func (s *Stats) DropLastViolation() {
	s.mu.Lock()
	defer s.mu.Unlock()
	if n := len(s.Violations); n > 0 {
		s.Violations = s.Violations[:n-1]
	}
}

func (s *Stats) Write(path string) error {
	s.mu.Lock()
	defer s.mu.Unlock()
	s.NonTrivial = s.NonTrivial[:0]
	for h := range s.nt {
		s.NonTrivial = append(s.NonTrivial, fmt.Sprintf("%016x", h))
	}
	sort.Strings(s.NonTrivial)
	b, err := json.Marshal(s)
	if err != nil {
		return err
	}
	return os.WriteFile(path, b, 0o644)
}

// ---------------------------------------------------------------------------
// Replay files

type Replay struct {
	Property string          `json:"property"`
	Case     json.RawMessage `json:"case"`
	Failure  string          `json:"failure,omitempty"`
	Seed     string          `json:"seed,omitempty"`
	Note     string          `json:"note,omitempty"`
	// Expect is used by corpus files: "ok" (must pass), "known:<key>" (must be
	// classified as that known finding while it is listed).
	Expect string `json:"expect,omitempty"`
}

func WriteReplay(dir, property string, raw json.RawMessage, failure, seed string) (string, error) {
	if err := os.MkdirAll(dir, 0o755); err != nil {
		return "", err
	}
	h := sha256.Sum256(raw)
	path := filepath.Join(dir, hex.EncodeToString(h[:6])+".json")
	var buf bytes.Buffer
	enc := json.NewEncoder(&buf)
	enc.SetIndent("", " ")
	enc.SetEscapeHTML(false)
	if len(failure) > 6000 {
		failure = failure[:6000]
	}
	if err := enc.Encode(Replay{Property: property, Case: raw, Failure: failure, Seed: seed}); err != nil {
		return "", err
	}
	return path, os.WriteFile(path, buf.Bytes(), 0o644)
}

func ReadReplay(path string) (*Replay, error) {
	b, err := os.ReadFile(path)
	if err != nil {
		return nil, err
	}
	var r Replay
	if err := json.Unmarshal(b, &r); err != nil {
		return nil, err
	}
	return &r, nil
}

func firstLine(s string) string {
	s = strings.TrimSpace(s)
	if i := strings.IndexByte(s, '\n'); i >= 0 {
		s = s[:i]
	}
	if len(s) > 160 {
		s = s[:160]
	}
	return s
}
