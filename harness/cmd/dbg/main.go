package main

import (
	"fmt"
	"time"

	"github.com/pquerna/otp"
	"github.com/pquerna/otp/totp"
)

func main() {
	defer func() { fmt.Println("recovered:", recover()) }()
	for _, k := range []string{"ORZHKZI=", "ORZHKZI"} {
		p, err := totp.GenerateCodeCustom(k, time.Now(), totp.ValidateOpts{Period: 255, Digits: otp.DigitsSix, Algorithm: otp.AlgorithmMD5, Skew: 0})
		fmt.Println(k, p, err)
	}
}
