package main

import (
	"fmt"
	"net/http"
	"net/http/httptest"
	"os"

	"github.com/ysugimoto/falco/v2/interpreter"
	icontext "github.com/ysugimoto/falco/v2/interpreter/context"
	"github.com/ysugimoto/falco/v2/resolver"
)

// scratch debugging program: runs one request through the simulator for the VCL file given as argument
func main() {
	b, _ := os.ReadFile(os.Args[1])
	origin := httptest.NewServer(http.HandlerFunc(func(w http.ResponseWriter, r *http.Request) { w.Write([]byte("origin")) }))
	defer origin.Close()
	vcl := fmt.Sprintf("backend b { .host = \"127.0.0.1\"; .port = \"%s\"; .ssl = false; }\n", origin.URL[len("http://127.0.0.1:"):]) + string(b)
	ip := interpreter.New(icontext.WithResolver(resolver.NewStaticResolver("main", vcl)))
	for i := 0; i < 2; i++ {
		rec := httptest.NewRecorder()
		ip.ServeHTTP(rec, httptest.NewRequest("GET", "http://example.com/a", nil))
		fmt.Println(rec.Code, rec.Body.String())
	}
}
