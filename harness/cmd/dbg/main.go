package main

import (
	"fmt"

	"github.com/ysugimoto/falco/v2/config"
	"github.com/ysugimoto/falco/v2/lexer"
	"github.com/ysugimoto/falco/v2/linter"
	lcontext "github.com/ysugimoto/falco/v2/linter/context"
	"github.com/ysugimoto/falco/v2/parser"
	"github.com/ysugimoto/falco/v2/resolver"
)

func main() {
	stmts := []string{
		`set req.http.X-E = some.undefined.variable;`, `set var.i = "str";`, `set req.http.X-E = std.strlen();`, `set req.http.X-E = std.tolower(1);`,
		`set req.http.Fastly-FF = "x";`, `set beresp.ttl = 1s;`, `set req.http.X-E = std.nope("a");`, `esi;`, `set req.http.X-E = table.lookup(nope, "k");`,
		`set req.http.X-E = std.itoa(req.http.X-A) std.itoa(0, 1, 2);`, `set var.undeclared = 1;`, `set req.http.X-E = regsub(req.http.X-A);`,
		`if (req.http.X-E == some.undefined.cond) { }`, `set req.http.X-A = "v";`, `set var.s = req.http.Host;`, `log "x" var.s;`, `set var.s = std.tolower(req.http.Host);`,
	}
	for _, s := range stmts {
		src := "backend b { .host = \"127.0.0.1\"; .port = \"1\"; }\ntable t { \"a\": \"1\", }\nsub vcl_recv {\n#FASTLY recv\ndeclare local var.s STRING; declare local var.i INTEGER;\n" + s + "\n}\n"
		vcl, err := parser.New(lexer.NewFromString(src, lexer.WithFile("main.vcl"))).ParseVCL()
		if err != nil {
			fmt.Println(s, "PARSE", err)
			continue
		}
		lt := linter.New(&config.LinterConfig{})
		lt.Lint(vcl, lcontext.New(lcontext.WithResolver(resolver.NewStaticResolver("main.vcl", src))))
		fmt.Println(s)
		for _, e := range lt.Errors {
			fmt.Printf("    %d:%d [%s] rule=%q %s\n", e.Token.Line, e.Token.Position, e.Severity, e.Rule, e.Message)
		}
	}
}
