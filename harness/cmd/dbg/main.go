package main

import (
	"bytes"
	"encoding/json"
	"fmt"
	"os"

	"github.com/ysugimoto/falco/v2/ast"
	"github.com/ysugimoto/falco/v2/ast/codec"
	"github.com/ysugimoto/falco/v2/lexer"
	"github.com/ysugimoto/falco/v2/parser"
)

func main() {
	b, _ := os.ReadFile(os.Args[1])
	var r struct {
		Case struct {
			Src     string `json:"src"`
			Snippet bool   `json:"snippet"`
		} `json:"case"`
	}
	json.Unmarshal(b, &r)
	var ss []ast.Statement
	var err error
	if r.Case.Snippet {
		ss, err = parser.New(lexer.NewFromString(r.Case.Src)).ParseSnippetVCL()
	} else {
		v, e := parser.New(lexer.NewFromString(r.Case.Src)).ParseVCL()
		err = e
		if v != nil {
			ss = v.Statements
		}
	}
	fmt.Println("parsed", len(ss), err)
	for n := 1; n <= len(ss); n++ {
		enc, err := codec.NewEncoder().Encodes(ss[:n])
		out, derr := codec.NewDecoder(bytes.NewReader(enc)).Decode()
		fmt.Println(n, len(enc), err, len(out), derr)
	}
	for i := range ss {
		enc, err := codec.NewEncoder().Encode(ss[i])
		out, derr := codec.NewDecoder(bytes.NewReader(enc)).Decode()
		fmt.Println("single", i, len(enc), err, len(out), derr)
	}
}
