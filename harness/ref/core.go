// Package ref holds the harness's reference models. core.go: the model of
// the VCL core language (C07, C09, C13) and its reference evaluator, written
// from the Fastly documentation, not from falco's code.
package ref

import (
	"fmt"
	"math"
	"math/bits"
	"net"
	"regexp"
	"strconv"
	"strings"
)

// Types of the core language.
const (
	TInt   = "INTEGER"
	TFloat = "FLOAT"
	TStr   = "STRING"
	TBool  = "BOOL"
	TRTime = "RTIME"
	TIP    = "IP"
)

// Expr is a tagged-union expression node (JSON-serialisable).
type Expr struct {
	K    string  `json:"k"` // int float str bool rtime ip var hdr cat ifx cmp and or not grp match aclmatch truth
	T    string  `json:"t,omitempty"`
	I    int64   `json:"i,omitempty"`
	F    float64 `json:"f,omitempty"`
	S    string  `json:"s,omitempty"`
	B    bool    `json:"b,omitempty"`
	Name string  `json:"name,omitempty"`
	Op   string  `json:"op,omitempty"`
	Lit  string  `json:"lit,omitempty"` // source spelling for literals
	A    *Expr   `json:"a,omitempty"`
	Bx   *Expr   `json:"bx,omitempty"`
	C    *Expr   `json:"c,omitempty"`
	Neg  bool    `json:"neg,omitempty"`      // for match/aclmatch: !~
	Expl bool    `json:"explicit,omitempty"` // cat: written with '+'
}

type Arm struct {
	Cond *Expr  `json:"cond"`
	Body []Stmt `json:"body"`
	Kw   string `json:"kw,omitempty"` // spelling of else-if
}

type Case struct {
	Default     bool   `json:"default,omitempty"`
	Regex       bool   `json:"regex,omitempty"`
	Test        string `json:"test,omitempty"`
	Body        []Stmt `json:"body"`
	Fallthrough bool   `json:"fallthrough,omitempty"`
}

// Stmt is a tagged-union statement node.
type Stmt struct {
	K     string `json:"k"` // declare set unset if switch log call
	Name  string `json:"name,omitempty"`
	T     string `json:"t,omitempty"`
	Op    string `json:"op,omitempty"`
	E     *Expr  `json:"e,omitempty"`
	Arms  []Arm  `json:"arms,omitempty"`
	Else  []Stmt `json:"else,omitempty"`
	HasEl bool   `json:"hasElse,omitempty"`
	Cases []Case `json:"cases,omitempty"`
	ID    int    `json:"id,omitempty"` // statement id (for decorations / frame conditions)
}

// AclEntry / Acl model an ACL declaration.
type AclEntry struct {
	Neg  bool   `json:"neg,omitempty"`
	IP   string `json:"ip"`
	Mask int    `json:"mask"` // -1 = none
}

type Acl struct {
	Name    string     `json:"name"`
	Entries []AclEntry `json:"entries"`
}

// ---------------------------------------------------------------------------
// Rendering to VCL text

func (e *Expr) Render() string {
	switch e.K {
	case "int", "float", "rtime":
		return e.Lit
	case "str":
		return RenderString(e.S)
	case "ip":
		return "\"" + e.S + "\""
	case "bool":
		return strconv.FormatBool(e.B)
	case "var", "hdr":
		return e.Name
	case "cat":
		if e.Expl {
			return e.A.Render() + " + " + e.Bx.Render()
		}
		return e.A.Render() + " " + e.Bx.Render()
	case "ifx":
		return "if(" + e.A.Render() + ", " + e.Bx.Render() + ", " + e.C.Render() + ")"
	case "cmp":
		return e.A.Render() + " " + e.Op + " " + e.Bx.Render()
	case "and":
		return e.A.Render() + " && " + e.Bx.Render()
	case "or":
		return e.A.Render() + " || " + e.Bx.Render()
	case "not":
		return "!" + e.A.Render()
	case "grp":
		return "(" + e.A.Render() + ")"
	case "match":
		op := "~"
		if e.Neg {
			op = "!~"
		}
		return e.A.Render() + " " + op + " " + RenderString(e.S)
	case "aclmatch":
		op := "~"
		if e.Neg {
			op = "!~"
		}
		return e.A.Render() + " " + op + " " + e.Name
	case "truth":
		return e.A.Render()
	}
	panic("render: unknown expr kind " + e.K)
}

// RenderString spells a string literal so that the parser reads back exactly s.
func RenderString(s string) string {
	if !strings.ContainsAny(s, "\"%\n") {
		return "\"" + s + "\""
	}
	if !strings.Contains(s, "\"}") {
		return "{\"" + s + "\"}"
	}
	return "{QZ\"" + s + "\"QZ}"
}

// RenderStmts prints statements, one per line, with the given indent.
func RenderStmts(ss []Stmt, indent string) string {
	var b strings.Builder
	for i := range ss {
		renderStmt(&b, &ss[i], indent)
	}
	return b.String()
}

func renderStmt(b *strings.Builder, s *Stmt, ind string) {
	switch s.K {
	case "declare":
		fmt.Fprintf(b, "%sdeclare local %s %s;\n", ind, s.Name, s.T)
	case "set":
		fmt.Fprintf(b, "%sset %s %s %s;\n", ind, s.Name, s.Op, s.E.Render())
	case "unset":
		fmt.Fprintf(b, "%sunset %s;\n", ind, s.Name)
	case "log":
		fmt.Fprintf(b, "%slog %s;\n", ind, s.E.Render())
	case "call":
		fmt.Fprintf(b, "%scall %s;\n", ind, s.Name)
	case "if":
		for i, a := range s.Arms {
			if i == 0 {
				fmt.Fprintf(b, "%sif (%s) {\n", ind, a.Cond.Render())
			} else {
				kw := a.Kw
				if kw == "" {
					kw = "else if"
				}
				fmt.Fprintf(b, "%s} %s (%s) {\n", ind, kw, a.Cond.Render())
			}
			b.WriteString(RenderStmts(a.Body, ind+"  "))
		}
		if s.HasEl {
			fmt.Fprintf(b, "%s} else {\n", ind)
			b.WriteString(RenderStmts(s.Else, ind+"  "))
		}
		fmt.Fprintf(b, "%s}\n", ind)
	case "switch":
		fmt.Fprintf(b, "%sswitch (%s) {\n", ind, s.E.Render())
		for _, c := range s.Cases {
			switch {
			case c.Default:
				fmt.Fprintf(b, "%sdefault:\n", ind)
			case c.Regex:
				fmt.Fprintf(b, "%scase ~ %s:\n", ind, RenderString(c.Test))
			default:
				fmt.Fprintf(b, "%scase %s:\n", ind, RenderString(c.Test))
			}
			b.WriteString(RenderStmts(c.Body, ind+"  "))
			if c.Fallthrough {
				fmt.Fprintf(b, "%s  fallthrough;\n", ind)
			} else {
				fmt.Fprintf(b, "%s  break;\n", ind)
			}
		}
		fmt.Fprintf(b, "%s}\n", ind)
	default:
		panic("render: unknown stmt kind " + s.K)
	}
}

// RenderAcl prints an ACL declaration.
func (a *Acl) Render() string {
	var b strings.Builder
	fmt.Fprintf(&b, "acl %s {\n", a.Name)
	for _, e := range a.Entries {
		b.WriteString("  ")
		if e.Neg {
			b.WriteString("!")
		}
		fmt.Fprintf(&b, "\"%s\"", e.IP)
		if e.Mask >= 0 {
			fmt.Fprintf(&b, "/%d", e.Mask)
		}
		b.WriteString(";\n")
	}
	b.WriteString("}\n")
	return b.String()
}

// ---------------------------------------------------------------------------
// Reference evaluator

// Val is a runtime value of the reference evaluator.
type Val struct {
	T      string
	I      int64
	F      float64
	S      string
	B      bool
	D      int64 // RTIME in milliseconds
	IP     string
	NotSet bool // STRING / IP
	Unspec bool // the documentation does not determine this value
	// NonEmpty: an unspecified STRING that is nevertheless known to be set and non-empty
	// (e.g. text appended to a not-set string: "abc" or "(null)abc"): it is truthy
	NonEmpty bool
}

func (v Val) String() string {
	if v.Unspec {
		return "<unspecified>"
	}
	switch v.T {
	case TInt:
		return fmt.Sprintf("INTEGER %d", v.I)
	case TFloat:
		return fmt.Sprintf("FLOAT %v", v.F)
	case TStr:
		if v.NotSet {
			return "STRING <notset>"
		}
		return fmt.Sprintf("STRING %q", v.S)
	case TBool:
		return fmt.Sprintf("BOOL %t", v.B)
	case TRTime:
		return fmt.Sprintf("RTIME %dms", v.D)
	case TIP:
		if v.NotSet {
			return "IP <notset>"
		}
		return "IP " + v.IP
	}
	return "?"
}

// Env is the evaluation state.
type Env struct {
	Vars   map[string]Val // locals and headers (headers keyed by lower-case name)
	Acls   map[string]*Acl
	Logs   []string
	Aborted bool // evaluation left the part of the language the documentation determines
	Why    string
	Steps  int
	// Counters for the non-triviality rule
	ValueDependent int
	MixedNumeric   int // assignments whose operand type differs from the target's numeric type
	Branches       int
	// EmptySubjectMatch: a regular expression matched the empty (set) string
	EmptySubjectMatch bool
}

func NewEnv() *Env {
	return &Env{Vars: map[string]Val{}, Acls: map[string]*Acl{}}
}

func hdrKey(name string) string { return strings.ToLower(name) }

func isHeader(name string) bool { return strings.Contains(name, ".http.") }

func (env *Env) get(name string) Val {
	if isHeader(name) {
		v, ok := env.Vars[hdrKey(name)]
		if !ok {
			return Val{T: TStr, NotSet: true}
		}
		return v
	}
	return env.Vars[name]
}

func (env *Env) abort(why string) {
	if !env.Aborted {
		env.Aborted = true
		env.Why = why
	}
}

// Run executes statements; it stops (Aborted) when semantics are not determined.
func (env *Env) Run(ss []Stmt) {
	for i := range ss {
		if env.Aborted {
			return
		}
		env.exec(&ss[i])
	}
}

func zero(t string) Val {
	switch t {
	case TStr, TIP:
		return Val{T: t, NotSet: true}
	}
	return Val{T: t}
}

func (env *Env) exec(s *Stmt) {
	env.Steps++
	switch s.K {
	case "declare":
		env.Vars[s.Name] = zero(s.T)
	case "unset":
		delete(env.Vars, hdrKey(s.Name))
	case "log":
		v := env.eval(s.E)
		if env.Aborted {
			return
		}
		if v.Unspec || v.NotSet {
			env.abort("log of an unspecified/not-set value")
			return
		}
		env.Logs = append(env.Logs, Display(v))
	case "set":
		env.assign(s)
	case "if":
		for _, a := range s.Arms {
			c := env.cond(a.Cond)
			if env.Aborted {
				return
			}
			env.Branches++
			if c {
				env.Run(a.Body)
				return
			}
		}
		if s.HasEl {
			env.Run(s.Else)
		}
	case "switch":
		env.Branches++
		ctrl := env.eval(s.E)
		if env.Aborted {
			return
		}
		if ctrl.Unspec {
			env.abort("switch on unspecified value")
			return
		}
		start := -1
		for i, c := range s.Cases {
			if c.Default {
				continue
			}
			if ctrl.NotSet {
				if c.Regex {
					env.abort("regex case on a not-set control is not specified by the statement")
					return
				}
				continue // not set equals nothing
			}
			if c.Regex {
				re, err := regexp.Compile(c.Test)
				if err != nil {
					env.abort("bad regex in model")
					return
				}
				if re.MatchString(ctrl.S) {
					if ctrl.S == "" {
						env.EmptySubjectMatch = true
					}
					start = i
					break
				}
			} else if ctrl.S == c.Test {
				start = i
				break
			}
		}
		if start < 0 {
			for i, c := range s.Cases {
				if c.Default {
					start = i
				}
			}
		}
		if start < 0 {
			return
		}
		for i := start; i < len(s.Cases); i++ {
			env.Run(s.Cases[i].Body)
			if env.Aborted || !s.Cases[i].Fallthrough {
				return
			}
		}
	default:
		env.abort("unknown statement " + s.K)
	}
}

// Display is how a value appears when converted to a string (log / concat).
func Display(v Val) string {
	switch v.T {
	case TInt:
		return strconv.FormatInt(v.I, 10)
	case TFloat:
		return strconv.FormatFloat(v.F, 'f', 3, 64)
	case TStr:
		return v.S
	case TBool:
		if v.B {
			return "1"
		}
		return "0"
	case TRTime:
		return strconv.FormatFloat(float64(v.D)/1000, 'f', 3, 64)
	case TIP:
		return v.IP
	}
	return ""
}

func (env *Env) assign(s *Stmt) {
	r := env.eval(s.E)
	if env.Aborted {
		return
	}
	if isHeader(s.Name) {
		// headers are strings; only "=" and "+=" (append) are used by the generator
		if r.Unspec {
			env.Vars[hdrKey(s.Name)] = Val{T: TStr, Unspec: true, NonEmpty: s.Op == "=" && r.T == TStr && r.NonEmpty}
			return
		}
		switch s.Op {
		case "=":
			if r.T == TStr && r.NotSet {
				delete(env.Vars, hdrKey(s.Name)) // assigning not set unsets the header
				return
			}
			env.Vars[hdrKey(s.Name)] = Val{T: TStr, S: Display(r)}
		default:
			env.abort("compound header assignment is C17's business")
		}
		return
	}
	l := env.Vars[s.Name]
	if l.Unspec && s.Op != "=" {
		return
	}
	if r.Unspec {
		env.Vars[s.Name] = Val{T: l.T, Unspec: true, NonEmpty: l.T == TStr && r.T == TStr && r.NonEmpty && (s.Op == "=" || s.Op == "+=")}
		return
	}
	switch l.T {
	case TStr:
		rs := ""
		if !(r.T == TStr && r.NotSet) {
			rs = Display(r)
		}
		switch s.Op {
		case "=":
			env.Vars[s.Name] = Val{T: TStr, S: rs} // a local is always set once assigned
		case "+=":
			if l.NotSet || (r.T == TStr && r.NotSet) {
				// appending to / appending a not-set string: "(null)" rendering is not specified,
				// but whatever the rendering, appending non-empty text gives a set, non-empty string
				env.Vars[s.Name] = Val{T: TStr, Unspec: true, NonEmpty: rs != "" || (!l.NotSet && l.S != "")}
				return
			}
			env.Vars[s.Name] = Val{T: TStr, S: l.S + rs}
		default:
			env.abort("string op " + s.Op)
		}
	case TBool:
		switch s.Op {
		case "=":
			l.B = r.B
		case "&&=":
			l.B = l.B && r.B
			env.ValueDependent++
		case "||=":
			l.B = l.B || r.B
			env.ValueDependent++
		default:
			env.abort("bool op " + s.Op)
		}
		env.Vars[s.Name] = l
	case TIP:
		env.Vars[s.Name] = Val{T: TIP, IP: canonIP(r.IPorS()), NotSet: false}
	case TRTime:
		if r.T == TInt || r.T == TFloat {
			// RTIME op= INTEGER / FLOAT variable: seconds for += and -=, a factor for *= and /=.
			// Only exactly representable results are decided (whole factors, exact quotients).
			n := r.I
			if r.T == TFloat {
				if r.F != math.Trunc(r.F) || math.Abs(r.F) >= 1<<31 {
					env.abort("RTIME op= fractional FLOAT: truncation of operand or result unspecified")
					return
				}
				n = int64(r.F)
			}
			if n > 1<<31 || n < -(1<<31) || l.D > 1<<40 || l.D < -(1<<40) {
				env.abort("RTIME arithmetic beyond range")
				return
			}
			switch s.Op {
			case "+=":
				l.D += n * 1000
			case "-=":
				l.D -= n * 1000
			case "*=":
				l.D *= n
			case "/=":
				if n == 0 || l.D%n != 0 {
					env.abort("RTIME /= : zero or inexact quotient")
					return
				}
				l.D /= n
			default:
				env.abort("rtime op " + s.Op + " with numeric operand")
				return
			}
			if l.D > 9e12 || l.D < -9e12 {
				// beyond ±292 years (int64 nanoseconds): not "within range" (totality is C08's business)
				env.abort("RTIME arithmetic beyond range")
				return
			}
			env.ValueDependent++
			env.MixedNumeric++
			env.Vars[s.Name] = l
			return
		}
		switch s.Op {
		case "=":
			l.D = r.D
		case "+=":
			l.D += r.D
			env.ValueDependent++
		case "-=":
			l.D -= r.D
			env.ValueDependent++
		default:
			env.abort("rtime op " + s.Op)
		}
		if l.D > 9e12 || l.D < -9e12 {
			// sums of literals in years leave ±292 years (int64 nanoseconds): not "within range"
			env.abort("RTIME arithmetic beyond range")
			return
		}
		env.Vars[s.Name] = l
	case TFloat:
		rf := r.F
		if r.T == TInt {
			rf = float64(r.I)
		}
		if r.T == TRTime {
			// an RTIME read as FLOAT is its number of seconds (fractions kept)
			if s.Op != "=" {
				env.abort("float op " + s.Op + " with RTIME operand")
				return
			}
			rf = float64(r.D) / 1000
			env.MixedNumeric++
		}
		switch s.Op {
		case "=":
			l.F = rf
		case "+=":
			l.F += rf
		case "-=":
			l.F -= rf
		case "*=":
			l.F *= rf
		case "/=":
			if rf == 0 {
				env.abort("float division by zero")
				return
			}
			l.F /= rf
		default:
			env.abort("float op " + s.Op)
		}
		if s.Op != "=" {
			env.ValueDependent++
		}
		env.Vars[s.Name] = l
	case TInt:
		if r.T == TFloat {
			// INTEGER op= FLOAT (variable). The Fastly documentation says a FLOAT converted to
			// INTEGER is truncated; it does not say whether a compound operator truncates the
			// operand or the result. Both readings are computed; where they differ the
			// expectation is unspecified.
			f := r.F
			if math.IsNaN(f) || math.Abs(f) >= 1<<53 || l.I >= 1<<53 || l.I <= -(1<<53) {
				env.abort("mixed INTEGER/FLOAT arithmetic beyond exact range")
				return
			}
			tf := int64(f) // truncates toward zero
			var a, b int64
			switch s.Op {
			case "=":
				a, b = tf, tf
			case "+=":
				a, b = l.I+tf, int64(float64(l.I)+f)
			case "-=":
				a, b = l.I-tf, int64(float64(l.I)-f)
			case "*=":
				p := float64(l.I) * f
				if math.Abs(p) >= 1<<53 {
					env.abort("mixed INTEGER/FLOAT arithmetic beyond exact range")
					return
				}
				a, b = l.I*tf, int64(p)
			case "/=":
				if tf == 0 {
					env.abort("INTEGER /= FLOAT with |divisor| < 1 is unspecified")
					return
				}
				a, b = l.I/tf, int64(float64(l.I)/f)
			default:
				env.abort("integer op " + s.Op + " with FLOAT operand")
				return
			}
			if a != b {
				env.abort("INTEGER " + s.Op + " FLOAT: truncating the operand or the result differ (unspecified)")
				return
			}
			l.I = a
			if s.Op != "=" {
				env.ValueDependent++
			}
			env.MixedNumeric++
			env.Vars[s.Name] = l
			return
		}
		ri := r.I
		switch s.Op {
		case "=":
			l.I = ri
		case "+=":
			if (ri > 0 && l.I > math.MaxInt64-ri) || (ri < 0 && l.I < math.MinInt64-ri) {
				env.abort("integer overflow (C08's business)")
				return
			}
			l.I += ri
		case "-=":
			if (ri < 0 && l.I > math.MaxInt64+ri) || (ri > 0 && l.I < math.MinInt64+ri) {
				env.abort("integer overflow (C08's business)")
				return
			}
			l.I -= ri
		case "*=":
			if l.I != 0 && ri != 0 {
				p := l.I * ri
				if p/ri != l.I || (l.I == -1 && ri == math.MinInt64) || (ri == -1 && l.I == math.MinInt64) {
					env.abort("integer overflow (C08's business)")
					return
				}
			}
			l.I *= ri
		case "/=":
			if ri == 0 {
				env.abort("integer division by zero")
				return
			}
			if l.I == math.MinInt64 && ri == -1 {
				env.abort("integer overflow (C08's business)")
				return
			}
			l.I /= ri // truncates toward zero
		case "%=":
			if ri == 0 {
				env.abort("integer remainder by zero")
				return
			}
			l.I %= ri // sign follows the dividend
		case "|=":
			l.I |= ri
		case "&=":
			l.I &= ri
		case "^=":
			l.I ^= ri
		case "<<=":
			if ri < 0 || ri > 63 {
				env.abort("shift count out of range")
				return
			}
			l.I = int64(uint64(l.I) << uint(ri))
		case ">>=":
			if ri < 0 || ri > 63 {
				env.abort("shift count out of range")
				return
			}
			// INTEGER is a signed 64-bit type: the shift is arithmetic (the sign is kept, floor(x / 2^n))
			l.I >>= uint(ri)
		case "rol=":
			if ri < 0 || ri > 63 {
				env.abort("rotate count out of range")
				return
			}
			l.I = int64(bits.RotateLeft64(uint64(l.I), int(ri)))
		case "ror=":
			if ri < 0 || ri > 63 {
				env.abort("rotate count out of range")
				return
			}
			l.I = int64(bits.RotateLeft64(uint64(l.I), -int(ri)))
		default:
			env.abort("integer op " + s.Op)
		}
		if s.Op != "=" {
			env.ValueDependent++
		}
		env.Vars[s.Name] = l
	}
}

// IPorS returns the address text of an IP value or string literal.
func (v Val) IPorS() string {
	if v.T == TIP {
		return v.IP
	}
	return v.S
}

func canonIP(s string) string {
	ip := net.ParseIP(s)
	if ip == nil {
		return s
	}
	return ip.String()
}

func (env *Env) eval(e *Expr) Val {
	if env.Aborted {
		return Val{}
	}
	switch e.K {
	case "int":
		return Val{T: TInt, I: e.I}
	case "float":
		return Val{T: TFloat, F: e.F}
	case "rtime":
		return Val{T: TRTime, D: e.I}
	case "str":
		return Val{T: TStr, S: e.S}
	case "ip":
		return Val{T: TIP, IP: canonIP(e.S)}
	case "bool":
		return Val{T: TBool, B: e.B}
	case "var", "hdr":
		return env.get(e.Name)
	case "grp":
		return env.eval(e.A)
	case "cat":
		a, b := env.eval(e.A), env.eval(e.Bx)
		if a.Unspec || b.Unspec || a.NotSet || b.NotSet {
			// "(null)" rendering of not-set operands is not specified; but whatever the rendering, an
			// operand that is set and non-empty makes the result a set, non-empty string
			solid := func(v Val) bool { return v.NonEmpty || (!v.Unspec && !v.NotSet && Display(v) != "") }
			return Val{T: TStr, Unspec: true, NonEmpty: solid(a) || solid(b)}
		}
		return Val{T: TStr, S: Display(a) + Display(b)}
	case "ifx":
		c := env.cond(e.A)
		if env.Aborted {
			return Val{}
		}
		if c {
			return env.eval(e.Bx)
		}
		return env.eval(e.C)
	case "cmp", "and", "or", "not", "match", "aclmatch", "truth":
		return Val{T: TBool, B: env.cond(e)}
	}
	env.abort("unknown expression " + e.K)
	return Val{}
}

// cond evaluates an expression in boolean context.
func (env *Env) cond(e *Expr) bool {
	if env.Aborted {
		return false
	}
	switch e.K {
	case "grp":
		return env.cond(e.A)
	case "bool":
		return e.B
	case "and":
		// both sides are side-effect free in the core language
		a := env.cond(e.A)
		if env.Aborted {
			return false
		}
		if !a {
			return false
		}
		return env.cond(e.Bx)
	case "or":
		a := env.cond(e.A)
		if env.Aborted {
			return false
		}
		if a {
			return true
		}
		return env.cond(e.Bx)
	case "not":
		return !env.cond(e.A)
	case "truth", "var", "hdr":
		x := e
		if e.K == "truth" {
			x = e.A
		}
		v := env.eval(x)
		if v.Unspec && v.T == TStr && v.NonEmpty {
			env.ValueDependent++
			return true
		}
		if v.Unspec {
			env.abort("truthiness of unspecified value")
			return false
		}
		switch v.T {
		case TBool:
			return v.B
		case TStr:
			if v.NotSet {
				return false
			}
			if v.S == "" {
				env.abort("truthiness of an empty but set string is not specified")
				return false
			}
			return true
		}
		env.abort("truthiness of " + v.T)
		return false
	case "match":
		v := env.eval(e.A)
		if v.Unspec {
			env.abort("match on unspecified value")
			return false
		}
		env.ValueDependent++
		if v.NotSet {
			env.abort("regex match on a not-set string is not specified by the statement")
			return false
		}
		re, err := regexp.Compile(e.S)
		if err != nil {
			env.abort("bad regex in model")
			return false
		}
		m := re.MatchString(v.S)
		if m && v.S == "" {
			env.EmptySubjectMatch = true
		}
		return m != e.Neg
	case "aclmatch":
		v := env.eval(e.A)
		if v.Unspec || v.NotSet {
			env.abort("acl match on unspecified/not-set address")
			return false
		}
		env.ValueDependent++
		acl := env.Acls[e.Name]
		if acl == nil {
			env.abort("unknown acl")
			return false
		}
		return AclMatch(acl, v.IP) != e.Neg
	case "cmp":
		a, b := env.eval(e.A), env.eval(e.Bx)
		if env.Aborted {
			return false
		}
		if a.Unspec || b.Unspec {
			env.abort("comparison of unspecified value")
			return false
		}
		env.ValueDependent++
		return compare(env, e.Op, a, b)
	}
	env.abort("condition kind " + e.K)
	return false
}

func compare(env *Env, op string, a, b Val) bool {
	switch a.T {
	case TStr:
		if b.T != TStr {
			env.abort("string compared with " + b.T)
			return false
		}
		eq := !a.NotSet && !b.NotSet && a.S == b.S
		switch op {
		case "==":
			return eq
		case "!=":
			return !eq
		}
		env.abort("string op " + op)
		return false
	case TBool:
		switch op {
		case "==":
			return a.B == b.B
		case "!=":
			return a.B != b.B
		}
	case TIP:
		eq := !a.NotSet && !b.NotSet && canonIP(a.IP) == canonIP(b.IPorS())
		switch op {
		case "==":
			return eq
		case "!=":
			return !eq
		}
	case TInt, TFloat, TRTime:
		var x, y float64
		exact := false
		var xi, yi int64
		switch a.T {
		case TInt:
			if b.T != TInt {
				env.abort("mixed numeric comparison")
				return false
			}
			xi, yi, exact = a.I, b.I, true
		case TFloat:
			if b.T != TFloat {
				env.abort("mixed numeric comparison")
				return false
			}
			x, y = a.F, b.F
		case TRTime:
			if b.T != TRTime {
				env.abort("mixed numeric comparison")
				return false
			}
			xi, yi, exact = a.D, b.D, true
		}
		if exact {
			switch op {
			case "==":
				return xi == yi
			case "!=":
				return xi != yi
			case "<":
				return xi < yi
			case ">":
				return xi > yi
			case "<=":
				return xi <= yi
			case ">=":
				return xi >= yi
			}
		}
		switch op {
		case "==":
			return x == y
		case "!=":
			return x != y
		case "<":
			return x < y
		case ">":
			return x > y
		case "<=":
			return x <= y
		case ">=":
			return x >= y
		}
	}
	env.abort("comparison " + a.T + " " + op)
	return false
}

// AclMatch: an address matches exactly when the most specific entry (longest
// prefix) containing it is not negated; entries without a mask are single
// hosts; independent of entry order. Equal-length conflicting entries are not
// generated (the statement does not order them).
func AclMatch(a *Acl, addr string) bool {
	ip := net.ParseIP(addr)
	if ip == nil {
		return false
	}
	best := -1
	bestNeg := false
	for _, e := range a.Entries {
		eip := net.ParseIP(e.IP)
		if eip == nil {
			continue
		}
		v4 := eip.To4() != nil
		if v4 != (ip.To4() != nil) {
			continue
		}
		size := 128
		if v4 {
			size = 32
		}
		mask := e.Mask
		if mask < 0 || mask > size {
			mask = size
		}
		var n *net.IPNet
		if v4 {
			n = &net.IPNet{IP: eip.To4().Mask(net.CIDRMask(mask, 32)), Mask: net.CIDRMask(mask, 32)}
		} else {
			n = &net.IPNet{IP: eip.To16().Mask(net.CIDRMask(mask, 128)), Mask: net.CIDRMask(mask, 128)}
		}
		if !n.Contains(ip) {
			continue
		}
		if mask > best {
			best = mask
			bestNeg = e.Neg
		}
	}
	return best >= 0 && !bestNeg
}
