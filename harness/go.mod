module verif

go 1.25.5

require (
	github.com/pkg/errors v0.9.1
	github.com/ysugimoto/falco/v2 v2.0.0
	pgregory.net/rapid v1.3.0
)

require (
	github.com/BurntSushi/toml v1.3.2 // indirect
	github.com/go-ini/ini v1.67.0 // indirect
	github.com/go-yaml/yaml v2.1.0+incompatible // indirect
	github.com/ysugimoto/twist v0.10.2 // indirect
)

replace github.com/ysugimoto/falco/v2 => /repo

replace go.elara.ws/pcre => github.com/dip-proto/go-pcre v0.0.0-20260204122309-dcbff9cb6240
