module verif

go 1.25.5

require (
	github.com/pkg/errors v0.9.1
	github.com/ysugimoto/falco/v2 v2.0.0
	pgregory.net/rapid v1.3.0
)

replace github.com/ysugimoto/falco/v2 => /repo

replace go.elara.ws/pcre => github.com/dip-proto/go-pcre v0.0.0-20260204122309-dcbff9cb6240
