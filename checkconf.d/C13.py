CONF = {
    "level": "exploration",
    "technique": "property-based testing (rapid): statement-stepped execution with full before/after snapshots of every pooled variable; frame-condition oracle (only named targets may change)",
    "level_text": "Generated programs are executed one statement at a time; after each statement every pooled local, header and re.group.0-3 must be unchanged unless the statement names it as an assignment target (or contains a regex match, for re.group). Calls with parameters, functional subroutines, prefix minus and pure built-ins are included. Exploration of generated programs only.",
    "campaigns": [rapid("rapid", 30000, 600000)],
    "assumptions": [
        "for compound statements the allowed set is the syntactic set of assignment targets inside the statement (over-approximation: sound, slightly weaker than per-branch)",
        "values are compared by type + rendering + not-set flag",
    ],
}
