CONF = {
    "level": "exploration",
    "technique": "property-based testing (rapid): directives REPLACE neutral comments of a generated program with injected lint errors so that no token moves; expected diagnostics computed as base-minus-covered (set difference oracle), compared as located multisets",
    "level_text": "D(base) comes from linting the base program; the expectation for each variant is derived by the harness from the documented coverage of the directive (statement span, rule list). Both leaks (something else disappears) and misses (a covered diagnostic remains) are detected. Exploration of generated programs/placements only.",
    "campaigns": [rapid("rapid", 40000, 800000)],
    "assumptions": [
        "a trailing falco-ignore is generated only on simple statements; every -start has its -end; independent ranges do not overlap each other; declaration statements (whose unused-* diagnostics are emitted later) are never covered",
        "a -start/-end range is lexical: the pair may cross block and subroutine boundaries and covers every statement between the two comments; for such pairs unused/* diagnostics and diagnostics located on a `sub` line (raised by passes that do not run while the range is open) are left out of the comparison",
        "stacked falco-ignore-next-line comments in front of one statement cover the union of their rule lists; rule-listed -start comments accumulate until `falco-ignore-end <rules>` re-enables those rules or a bare -end re-enables all (docs/linter.md, Range ignoring, last example)",
        "falco-ignore-next-line on an if statement covers the whole compound statement",
        "the linter option ignore_subroutines is only drawn together with a -start/-end pair that stands in front of two subroutine declarations: a directive inside a subroutine whose body the configuration excludes from linting is never read, and nothing documents that it should be",
    ],
}
