CONF = {
    "level": "exploration",
    "technique": "property-based testing (rapid): generated lintable programs with call graphs and include graphs; oracles are totality under an isolated worker with deadline, run-to-run equality of located diagnostic multisets (5 runs, fresh Linter/Context), and a metamorphic relation: permuting subroutine declarations leaves the multiset of (rule, severity, message) unchanged",
    "level_text": "Generated programs only; termination is decided by a per-case deadline (20 s for programs of <100 lines), confirmed three times before it is reported.",
    "campaigns": [rapid("rapid", 24000, 400000)],
    "assumptions": [
        "include resolution is served by a harness resolver (in-memory modules); the file-system resolver is not exercised here",
        "messages are compared verbatim; a diagnostic whose message embeds a line number would be compared modulo nothing — none observed",
    ],
}
