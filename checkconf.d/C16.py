CONF = {
    "level": "fault_enumeration",
    "cli": True,
    "technique": "property-based testing (rapid) over file contents x fault plans, with a complete enumeration of single syscall faults per generated file: strace calibration of the clean `falco fmt -w FILE` run, then one run per (call on the target or a sibling file) x (EIO, ENOSPC, EINTR, SIGKILL, ENOSPC-from-here-on); plus RLIMIT_FSIZE and uid-drop permission faults; byte comparison against the original and against `falco fmt FILE`",
    "level_text": "For every generated file (five classes: >=4KiB declaration file, small file, statement-only snippet, invalid text, empty) the freshly built falco binary is run on pristine copies: once plain (S), once under strace without faults (calibration: lists every openat/write/rename/fsync/close/chmod/... call touching FILE or a sibling in its directory), and then, for plan 'strace', once per calibrated call K and per fault in {error=EIO, error=ENOSPC, error=EINTR, signal=KILL at K; error=ENOSPC from K on}. The enumeration over K is complete for each such file (label enum:complete; counters enum_points, faults_planned, faults_fired, faults_missed, fired:<syscall>, fired_kind:<fault>); whether a fault fired at the intended call is read back from strace's output, mis-aimed injections are retried twice and otherwise counted as missed. Other plans: no fault, RLIMIT_FSIZE 0/512/2048, root-owned 0644 target or read-only directory with falco run as uid 65534. Files are a random sample; faults are exhaustive only over single faults at the traced calls of the clean run.",
    "campaigns": [rapid("rapid", 64, 2000, bq=90, bt=900)],
    "assumptions": [
        "S is taken from `falco fmt FILE` of the same binary on a pristine copy (the property relates the two commands); ORIG is the generated text",
        "exit status != 0 => FILE == ORIG; process killed by a signal (injected SIGKILL) => FILE == ORIG or the complete S (a kill after the rename / after the last write may leave the complete new content); exit 0 => FILE in {ORIG, S}",
        "single faults only: one injected error/signal per run (plus the persistent ENOSPC-from-K-on variant); faults are enumerated over the calls of the clean run, not over calls that only occur on error paths; read()/stat() faults are not injected",
        "strace counts when=K per thread; falco runs with GOMAXPROCS=1 GODEBUG=asyncpreemptoff=1 so its file operations stay on one thread; a fault counts as fired only if strace's output shows it at the intended call ((INJECTED) mark, or last call entered before '+++ killed by SIGKILL +++')",
        "stray temporary files left in the directory, file mode/owner, and power-loss ordering below the syscall layer are not part of the property",
        "needs root (uid drop via setpriv), strace with ptrace permission, prlimit; when strace is unusable the enumeration degrades to the other plans (label infra:calibration-unusable)",
    ],
}
