CONF = {
    "level": "exploration",
    "technique": "property-based testing (rapid): generated Fastly resource sets fed through a fake snippet.Fetcher, as Terraform plan JSON and (a third of the cases) as Fastly API JSON served by a fake http.RoundTripper to remote.NewFastlyApiFetcher, into snippet.Fetch/EmbedSnippets; generated VCL parsed with falco's parser and compared with the resource data (validity predicate + inverse oracle)",
    "level_text": "Random resource sets (dictionaries, ACLs, backends, directors, conditions, header rules, response objects, VCL snippets) with hostile text and names; every generated item must parse and the parsed declarations must carry exactly the input's keys, decoded values, addresses, masks, negations, sanitised names and members. Exploration of the generated shapes only (label histogram in evidence).",
    "campaigns": [rapid("rapid", 20000, 300000, bq=40), rapid("hostile", 16000, 200000, bq=40, env={"VERIF_C20_HOSTILE": "1"})],
    "cli": True,
    "floors": {"path:api": 0.25, "api:subnet-0": 0.08, "api:subnet-null": 0.08, "api:negated": 0.08, "api:dynamic-snippet": 0.04, "api:write-only-dictionary": 0.03, "api:cache-round-trip": 0.04},
    "assumptions": [
        "Fastly sanitises backend/director names by replacing every character outside [A-Za-z0-9_] with _ (names are generated in ASCII only); backends are declared as F_<name>, shield directors as ssl_shield_<pop>",
        "dictionary keys are unique and non-empty; table order and director member order are not promised (compared as multisets), ACL entry order is",
        "header rule sources/conditions are VCL expressions and regex/substitution/content-type are drawn from fixed realistic lists (they are user-written VCL, not data); for header rules, response objects and VCL snippets the oracle is 'parses and has the expected statement skeleton', plus byte equality of the synthetic body",
        "director type is only checked for type 1 = random (falco's numbering of the other types differs from the Fastly API's and is not part of the property statement)",
        "Terraform for_each resources are indexed by the ACL/dictionary name (falco's documented convention); numeric (count) indexes are not generated",
        "Fastly API path: the fake api.fastly.com answers every listing completely in one response (no pagination, no rate limiting), spells booleans and priorities/status as strings (\"0\"/\"1\", \"10\") and the ACL subnet as a JSON number or null/absent, as in snippet/remote/client_test.go; a write-only dictionary answers 403 on its item listing and is expected as an empty table; logging endpoints are served but their names are not part of the oracle; requests for any other path, version, method or without the Fastly-Key are failures",
        "`falco terraform` (thorough tier, 1 case in 2000 (VERIF_C20_CLI_EVERY)): only 'no crash, parse error reported iff the library path found one' is observed",
    ],
}
