CONF = {
    "level": "exploration",
    "technique": "property-based testing (rapid): generated Fastly resource sets fed through a fake snippet.Fetcher and as Terraform plan JSON into snippet.Fetch/EmbedSnippets; generated VCL parsed with falco's parser and compared with the resource data (validity predicate + inverse oracle)",
    "level_text": "Random resource sets (dictionaries, ACLs, backends, directors, conditions, header rules, response objects, VCL snippets) with hostile text and names; every generated item must parse and the parsed declarations must carry exactly the input's keys, decoded values, addresses, masks, negations, sanitised names and members. Exploration of the generated shapes only (label histogram in evidence).",
    "campaigns": [rapid("rapid", 20000, 300000, bq=40), rapid("hostile", 16000, 200000, bq=40, env={"VERIF_C20_HOSTILE": "1"})],
    "cli": True,
    "assumptions": [
        "Fastly sanitises backend/director names by replacing every character outside [A-Za-z0-9_] with _ (names are generated in ASCII only); backends are declared as F_<name>, shield directors as ssl_shield_<pop>",
        "dictionary keys are unique and non-empty; table order and director member order are not promised (compared as multisets), ACL entry order is",
        "header rule sources/conditions are VCL expressions and regex/substitution/content-type are drawn from fixed realistic lists (they are user-written VCL, not data); for header rules, response objects and VCL snippets the oracle is 'parses and has the expected statement skeleton', plus byte equality of the synthetic body",
        "director type is only checked for type 1 = random (falco's numbering of the other types differs from the Fastly API's and is not part of the property statement)",
        "Terraform for_each resources are indexed by the ACL/dictionary name (falco's documented convention); numeric (count) indexes are not generated",
        "`falco terraform` (thorough tier, 1 case in 2000 (VERIF_C20_CLI_EVERY)): only 'no crash, parse error reported iff the library path found one' is observed",
    ],
}
