CONF = {
    "level": "exploration",
    "technique": "property-based robustness testing (rapid) in an isolated worker with deadline: edge-operand programs, every built-in of builtin.yml with boundary arguments (incl. two string grammars with error productions), reads of every predefined variable per scope, a campaign through the test runner's entry ProcessTestSubroutine, lifecycle VCLs with restarts/recursion/include cycles, hostile requests; oracle = returns-or-reports, bounded restarts",
    "level_text": "Totality/boundedness oracle only (no value expectations): every generated program/request must end in a response or a reported error, without panic, fatal error, worker death or deadline overrun, with vcl_recv entered at most 4 times per request. Hangs and stack overflows are caught by the worker isolation. Exploration of generated cases only.",
    "campaigns": [rapid("rapid", 16000, 400000, bq=90), rapid("builtins", 48000, 1200000, bq=90, env={"VERIF_C08_KIND": "builtin"}), rapid("arith", 40000, 1000000, bq=90, env={"VERIF_C08_KIND": "arith"}), rapid("testsub", 24000, 600000, bq=90, env={"VERIF_C08_KIND": "testsub"})],
    "assumptions": [
        "a case that overruns a 20 s deadline three times in a row on fresh workers is a hang (cases take milliseconds)",
        "origin fetches go to a loopback server owned by the harness",
    ],
}
