CONF = {
    "level": "exploration",
    "technique": "model-based property testing (rapid): operation sequences against a header-store reference model, compared after every step under every spelling, at the statement layer and the variable layer",
    "level_text": "Generated set/+=/add/unset/get sequences over mixed-case names and sub-field keys on all five HTTP objects in every writable scope; a reference model predicts every read. Exploration of generated sequences only.",
    "campaigns": [rapid("rapid", 40000, 800000)],
    "assumptions": [
        "a header name is used either as a whole header or through sub-fields within one sequence (the statement does not relate the two views)",
        "after += on a not-set header only set-ness is compared; empty/not-set sub-field values may read back as empty or not set (documented Fastly quirk); Cookie is excluded (special-cased)",
    ],
}
