CONF = {
    "level": "exploration",
    "technique": "property-based testing (rapid) at CLI level: generated case directories linted by the built falco binary under all six flag combinations; differential oracle against a reference verdict computed from the library's diagnostics with the case's rule overrides, plus cross-run equality of exit status and reported counts",
    "level_text": "Every generated case runs `falco lint` six times ({plain,-json} x {default,-v,-vv}). Exploration of generated programs, include layouts and override sets only.",
    "cli": True,
    "campaigns": [rapid("rapid", 400, 12000, bq=60, bt=1500)],
    "floors": {"verdict:clean": 0.03, "verdict:warnings-only": 0.05, "verdict:infos-only": 0.01, "verdict:errors": 0.2, "verdict:syntax-error": 0.1,
               "syntax:main": 0.04, "syntax:module": 0.04, "snippet": 0.05, "config": 0.25, "override-effective": 0.05, "override-flips-verdict": 0.01, "ignore-comment": 0.05},
    "assumptions": [
        "the reference verdict uses falco's own parser and linter through the Go API (the property relates the command's verdict to the diagnostics, it does not judge the diagnostics); overrides and counting are re-implemented in the harness from docs/configuration.md",
        "rule override values are matched case-insensitively and unknown values are skipped (docs/configuration.md example uses lower case; runner prints a notice for unknown values)",
        "when the input has a syntax error no counts are required; counts that are nevertheless reported must agree with each other",
    ],
}
