CONF = {
    "level": "exploration",
    "technique": "property-based testing (rapid) at CLI level: generated case directories linted by the built falco binary under all six flag combinations; differential oracle against a reference verdict computed from the library's diagnostics with the case's rule overrides, plus cross-run equality of exit status and reported counts",
    "level_text": "Every generated case runs `falco lint` six times ({plain,-json} x {default,-v,-vv}). Exploration of generated programs, include layouts and override sets only.",
    "cli": True,
    "campaigns": [rapid("rapid", 640, 16000, bq=70, bt=1500)],
    "floors": {"verdict:clean": 0.03, "verdict:warnings-only": 0.05, "verdict:infos-only": 0.01, "verdict:errors": 0.2, "verdict:syntax-error": 0.1,
               "syntax:main": 0.04, "syntax:module": 0.04, "snippet": 0.05, "config": 0.25, "override-effective": 0.05, "override-flips-verdict": 0.01, "ignore-comment": 0.05},
    "assumptions": [
        "the reference verdict takes the diagnostics from falco's linter through the Go API (the property relates the command's verdict to the diagnostics, it does not judge them), but decides three things itself: syntax errors (every file of the case is parsed directly), ignore comments (the reference lints a copy in which each falco-ignore-next-line is an ordinary comment and removes the diagnostics on the covered line itself) and rule overrides with counting (re-implemented from docs/configuration.md)",
        "ignore directives are generated as falco-ignore-next-line in front of one-line statements only (not in front of declarations, whose unused warnings are raised later; not in a snippet without @scope, whose statements are not linted)",
        "rule override values are matched case-insensitively and unknown values are skipped (docs/configuration.md example uses lower case; runner prints a notice for unknown values)",
        "when the input has a syntax error no counts are required; counts that are nevertheless reported must agree with each other",
    ],
}
