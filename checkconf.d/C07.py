CONF = {
    "level": "exploration",
    "technique": "property-based differential testing (rapid): type-directed program generator, falco's simulator vs an independent reference evaluator written from the Fastly documentation (branch trace + final values), ACL longest-prefix reference; metamorphic duality probe (a < b == b > a, a <= b == b >= a, != negates ==) over INTEGER/FLOAT/RTIME variables of mixed type, where no reference value exists",
    "level_text": "Generated core-language programs are run by falco and by the harness's own reference evaluator; every log line and every final pooled value must agree wherever the documentation determines the outcome (the reference stops comparing when it leaves that fragment). Exploration of generated programs only.",
    "campaigns": [rapid("rapid", 40000, 1000000)],
    "assumptions": [
        "the reference evaluator (harness/ref/core.go) is the trusted base: 64-bit two's-complement INTEGER with C-style / and %, IEEE double FLOAT, RTIME in ms, BOOL, left-to-right concatenation with documented string renderings (%d, %.3f, seconds %.3f, 0/1), not-set handling, first-matching-case switch, longest-prefix ACL",
        "outside the determined fragment (overflow, division by zero, >>= of negatives, shift counts outside 0-63, truthiness of empty-but-set strings, not-set operands in concatenation) no expectation is derived",
        "comparisons between operands of different numeric type are not predicted by the reference; they are judged by the duality laws alone, on the two spellings falco itself evaluates, and a spelling falco refuses with an error decides nothing",
    ],
}
