CONF = {
    "level": "exploration",
    "technique": "property-based testing (rapid) of schedules under the Go race detector: generated concurrent request sets / plugin sets with drawn jitter and GOMAXPROCS; oracle = existence of a serial order under a shared-state model + differential against sequential runs of the same request + race detector (worker built with -race, GORACE=halt_on_error=1)",
    "level_text": "The schedules explored are those the Go scheduler produces for the generated request sets, jitter values and GOMAXPROCS settings; the harness does not own the scheduler, so this is sampling of interleavings, made sharper by the race detector (which reports unsynchronised access pairs even when the interleaving that corrupts data did not happen).",
    "race": True,
    "campaigns": [rapid("rapid", 1600, 40000, bq=70, bt=1500, env={"GORACE": "halt_on_error=1"})],
    "floors": {"mode:actual-response": 0.1, "kind:plugin": 0.15, "kind:sim": 0.5, "shared-object-contended": 0.3, "requests>=8": 0.1, "via:http-server": 0.08},
    "assumptions": [
        "both answer modes of the simulator are driven: the flow report (default) and the actual response (context.WithActualResponse, the --proxy mode of falco simulate); in the latter the comparison covers status, body and the headers the VCL and the cache produce (X-Echo, X-Echo-Err, X-Cache, X-Cache-Hits, X-RC, X-PB, X-Origin)",
        "responses are compared on flows, logs, restarts, error, status, cached and non-volatile headers (Date, Age, X-Timer, X-Served-By, Fastly-Debug-* excluded)",
        "the shared objects of the synthesised VCL (three cacheable URLs, two rate-counter keys, two penalty-box keys) are independent of each other, so existence of a serial order factorises per object",
        "rate windows are 60 s and TTLs 1 h: no expectation depends on the clock within a case (cases last milliseconds)",
        "plugins are generated shell scripts found through PATH, as documented in docs/plugin.md",
    ],
}
