CONF = {
    "level": "exploration",
    "exhaustive": True,
    "technique": "complete enumeration of two finite cell products (operator x operand types x form; reference-table entry x access x scope set), each cell a one-use VCL program decided by three verdicts: harness-side reference tables (YAML parsed independently + transcribed Fastly operator/statement tables), linter ERROR diagnostics on the probe line, simulator run of the subroutine with error classification",
    "level_text": "placeholder",
    "campaigns": [
        {"kind": "enum", "name": "enum", "budget": {"quick": 90, "thorough": 900}, "shards": {"quick": 8, "thorough": 14}, "slice": {"quick": 1, "thorough": 1}},
    ],
    "exhaustive_quick": True,
    "assumptions": [],
}
