CONF = {
    "level": "exploration",
    "technique": "property-based testing (rapid) at CLI level: generated main VCL + test files with verdicts known by construction (independent per-feature reference model), metamorphic relations between runs (order, subset, coverage on/off, reporter)",
    "level_text": "Each generated case is executed ~12 times through the built `falco test` binary (as generated, each test alone, drawn permutations/subsets, with and without coverage, JSON and plain reporter); per-test verdict, skip flag, logs, exit status and counts are compared with the construction, and (verdict, error text, logs) of every test across all runs. Exploration only: covers the generated statement/assertion/facility shapes listed in the label histogram.",
    "cli": True,
    "campaigns": [rapid("rapid", 160, 3000, bq=60, bt=900)],
    "floors": {"verdict:fail": 0.1, "verdict:skip": 0.04, "mixed-verdicts": 0.1, "multi-scope": 0.05, "observer": 0.07, "observer-call": 0.04,
               "expect-fail:runtime": 0.03, "expect-fail:assert": 0.08, "run:coverage-on": 0.2, "run:permutation": 0.12, "run:subset": 0.1,
               "fac:inject_variable": 0.03, "fac:table_set": 0.03, "fac:table_merge": 0.03, "fac:mock": 0.03, "fac:override_host": 0.03, "fac:fixed_time": 0.02},
    "assumptions": [
        "expected verdicts come from the generator's own model of the generated main VCL (constants, string equality, Go regexp for the two capture patterns) and from docs/testing.md / docs/variables.md defaults (server.region=US, Host=localhost, backends healthy)",
        "ungrouped tests only; no @tag, no describe/before/after; multi-scope bodies are written so that their verdict does not depend on state left by the previous scope of the same test",
        "assert.match/not_match patterns are chosen so that anchored and unanchored matching agree (docs and implementation disagree on that point)",
        "log and error locations are compared relative to the first line of the test subroutine",
        "JSON summary counts assertions (asserts/passes/fails), not tests: only skips and fails>0 are related to the cases",
    ],
}
