CONF = {
    "level": "exploration",
    "exhaustive": True,
    "technique": "model-based testing: complete enumeration of the restart-free paths of a reference state machine + rapid-sampled plans with restarts and multi-request histories, falco's flow report compared with the reference machine and a three-valued reference cache",
    "level_text": "The reference request state machine (harness/props/c06.go, written from the Fastly lifecycle documentation) is enumerated exhaustively for restart-free single- and two-request histories in both tiers; plans with restarts, three requests, penalty boxes and rate counters are sampled. Exhaustive for the enumerated part, exploration for the rest.",
    "campaigns": [
        {"kind": "enum", "name": "enum", "budget": {"quick": 90, "thorough": 900}, "shards": {"quick": 8, "thorough": 14}, "slice": {"quick": 1, "thorough": 1}},
        rapid("rapid", 6000, 150000, bq=60),
    ],
    "exhaustive_quick": True,
    "assumptions": [
        "the reference machine and the three-valued cache model are the trusted base; after a vcl_fetch that ended in error/restart/pass/hit_for_pass, or that was reached through pass, the cache content is unspecified and the branch falco takes is followed",
        "deliver_stale is not generated (needs a stale object, i.e. the clock); TTLs are 0 or 1h and rate windows 60s so that no expectation depends on timing",
        "cached / X-Cache are checked for requests with exactly one lookup (also when vcl_hit / vcl_miss passed afterwards; requests passed in vcl_recv have no lookup)",
        "sampled plans also assign actions the subroutine reference does not list for a subroutine (e.g. return(fetch) in vcl_recv, return(hit_for_pass) outside vcl_fetch): there is no documented successor, so no further lifecycle subroutine may run and — unless the subroutine is vcl_log — the request must end in a reported error",
    ],
}
