CONF = {
    "level": "exploration",
    "technique": "metamorphic property testing (rapid): the same program rendered plainly and with comments/blank lines/line breaks between arbitrary tokens; equality of canonical tree (or of the parser's rejection), lint diagnostics (multiset, locations excluded), simulator behaviour and `falco test` reports",
    "level_text": "Metamorphic relation over generated programs and generated decorations: nothing observable may change except diagnostic locations. Five program sources (core programs, the same with injected lint errors inside vcl_recv incl. one trigger per linter rule, nine-subroutine lifecycle VCLs, test files of the C10 generator run through `falco test -json` with ordinary comments around the annotation lines, switch statements the parser must reject whatever the decoration). Exploration only.",
    "cli": True,
    "campaigns": [rapid("rapid", 16000, 300000, bq=75)],
    "assumptions": [
        "the #FASTLY recv macro line is kept verbatim in both renderings (it is not an ordinary comment)",
        "error texts are compared up to the quoted source position",
    ],
}
