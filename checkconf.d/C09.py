CONF = {
    "level": "exploration",
    "technique": "metamorphic property testing (rapid): the same program rendered plainly and with comments/blank lines/line breaks between arbitrary tokens; equality of canonical tree, lint diagnostics (multiset, locations excluded) and simulator behaviour",
    "level_text": "Metamorphic relation over generated programs and generated decorations: nothing observable may change except diagnostic locations. Three program sources (core programs, the same with injected lint errors inside vcl_recv, nine-subroutine lifecycle VCLs). Exploration only.",
    "cli": True,
    "campaigns": [rapid("rapid", 16000, 300000, bq=75)],
    "assumptions": [
        "the #FASTLY recv macro line is kept verbatim in both renderings (it is not an ordinary comment)",
        "error texts are compared up to the quoted source position",
    ],
}
